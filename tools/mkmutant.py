#!/usr/bin/env python3
"""mkmutant.py <PROP> <name> <file-rel-to-repo> <old> <new> [--count N]
Writes mutants/<PROP>-<name>.patch: a unified diff replacing the single occurrence of <old>."""
import sys, os, difflib
prop, name, rel, old, new = sys.argv[1:6]
repo = os.environ.get("VERIF_REPO", "/repo")
src = open(os.path.join(repo, rel)).read()
n = src.count(old)
if n != 1:
    sys.exit(f"{rel}: pattern occurs {n} times (need exactly 1): {old!r}")
dst = src.replace(old, new)
d = "".join(difflib.unified_diff(src.splitlines(True), dst.splitlines(True), "a/" + rel, "b/" + rel))
out = os.path.join(os.path.dirname(os.path.dirname(os.path.abspath(__file__))), "mutants", f"{prop}-{name}.patch")
mode = "a" if os.environ.get("APPEND") else "w"
open(out, mode).write(d)
print("wrote", out)
