#!/bin/bash
# seeddemo.sh <PROP> <name> <pkg-dir-rel> <run-regex>: runs a seeded change's demonstration test
# (a test in a package that needs the pkg/sleep replacement) with and without the change.
cd "$(dirname "$0")/.."
export GOFLAGS=-mod=mod GOPROXY=off GOSUMDB=off GOTOOLCHAIN=local
P=$1; NAME=$2; PKG=$3; RUN=$4
HERE=$(pwd)
run() { # $1 = dir
  local E=$1
  cp "$HERE/tools/dormant/sleep.go.txt" "$E/sleep.go"
  cat > "$E/ov.json" <<J
{"Replace": {"$E/r/pkg/sleep/sleep_unsafe.go": "$E/sleep.go", "$E/r/pkg/sleep/commit_amd64.s": "", "$E/r/pkg/sleep/commit_asm.go": "", "$E/r/pkg/sleep/commit_noasm.go": "", "$E/r/pkg/sleep/sleep_test.go": ""}}
J
  (cd "$E/r" && timeout 600 go test -overlay "$E/ov.json" -vet=off -count=1 -timeout 300s -run "$RUN" ./$PKG/ >"$E/out.log" 2>&1)
}
W=$(mktemp -d /tmp/verif-sd-XXXXXX); C=$(mktemp -d /tmp/verif-sd-XXXXXX)
rsync -a --exclude .git /repo/ "$W/r/"; rsync -a --exclude .git /repo/ "$C/r/"
patch -s -p1 -d "$W/r" < seeded/$P-$NAME/patch.diff || { echo PATCH-FAILED; exit 2; }
DEMO=${SEED_DEMO:-/tmp/seed-$P-demo_test.go}
cp "$DEMO" "$W/r/$PKG/zz_demo_test.go"; cp "$DEMO" "$C/r/$PKG/zz_demo_test.go"
cp "$DEMO" seeded/$P-$NAME/demo_test.go.txt
run "$W" && dw=PASSES || dw=fails
run "$C" && dwo=passes || dwo=FAILS
echo "$P-$NAME demo: with_change=$dw without_change=$dwo"
[ "$dw" = fails ] || tail -5 "$W/out.log"
[ "$dwo" = passes ] || tail -5 "$C/out.log"
python3 - "$P" "$NAME" "$dw" "$dwo" "$PKG" "$RUN" <<'PY'
import json,sys
p,name,dw,dwo,pkg,run=sys.argv[1:7]
path=f"seeded/{p}-{name}/meta.json"; m=json.load(open(path))
m["demo_with_change"]=dw; m["demo_without_change"]=dwo
m["demo"]={"file":"demo_test.go.txt","copy_to":f"{pkg}/zz_demo_test.go","run":f"tools/seeddemo.sh (go test -overlay <pkg/sleep replacement> -vet=off -run '{run}' ./{pkg}/)"}
json.dump(m,open(path,"w"),indent=1)
PY
rm -rf "$W" "$C"
