#!/bin/bash
# seedcheck.sh <PROP> <name> <demo-pkg-dir-rel> <demo-run-regex> [tier]
# Confirms a seeded change (/tmp/seed-<PROP>.diff + /tmp/seed-<PROP>-demo_test.go):
#  baseline passes with it, demo fails with it and passes without it, then runs ./check <PROP>.
# Stores it under seeded/<PROP>-<name>/ with meta.json.
cd "$(dirname "$0")/.."
export GOFLAGS=-mod=mod GOPROXY=off GOSUMDB=off GOTOOLCHAIN=local
P=$1; NAME=$2; PKG=$3; RUN=${4:-.}; TIER=${5:-quick}
DIFF=${SEED_DIFF:-/tmp/seed-$P.diff}; DEMO=${SEED_DEMO:-/tmp/seed-$P-demo_test.go}
PKGS="./pkg/buffer/ ./pkg/tmutex/ ./pkg/waiter/ ./protocol/header/ ./protocol/network/fragmentation/ ./protocol/ports/ ./protocol/transport/tcpconntrack/"
D=$(mktemp -d /tmp/verif-seed-XXXXXX); C=$(mktemp -d /tmp/verif-seedclean-XXXXXX)
rsync -a --exclude .git /repo/ "$D/"; rsync -a --exclude .git /repo/ "$C/"
if ! patch -s -p1 -d "$D" < "$DIFF"; then echo "PATCH-FAILED"; rm -rf "$D" "$C"; exit 2; fi
base=FAIL; (cd "$D" && timeout 300 go test -vet=off -count=1 -timeout 120s $PKGS >/dev/null 2>&1) && base=pass
demo_with=n/a; demo_without=n/a
if [ -f "$DEMO" ] && [ "$PKG" != "-" ]; then
  cp "$DEMO" "$D/$PKG/zz_demo_test.go"; cp "$DEMO" "$C/$PKG/zz_demo_test.go"
  (cd "$D" && timeout 300 go test -vet=off -count=1 -timeout 120s ./$PKG/ -run "$RUN" >/dev/null 2>&1) && demo_with=PASSES || demo_with=fails
  (cd "$C" && timeout 300 go test -vet=off -count=1 -timeout 120s ./$PKG/ -run "$RUN" >/dev/null 2>&1) && demo_without=passes || demo_without=FAILS
  rm -f "$D/$PKG/zz_demo_test.go"
fi
out=$(VERIF_REPO="$D" VERIF_DIR=$(mktemp -d /tmp/verif-seeddir-XXXXXX) ./check "$P" $TIER 2>&1); rc=$?
verdict=MISSED; echo "$out" | grep -q "^VIOLATION property=$P" && [ $rc -eq 1 ] && verdict=CAUGHT
kind=$(echo "$out" | grep -m1 'kind=' | sed 's/^ *//')
echo "$P-$NAME: baseline=$base demo_with_change=$demo_with demo_without_change=$demo_without check($TIER)=$verdict rc=$rc $kind"
[ "$verdict" = MISSED ] && echo "$out" | tail -4 | sed 's/^/    /'
mkdir -p seeded/$P-$NAME
cp "$DIFF" seeded/$P-$NAME/patch.diff; [ -f "$DEMO" ] && cp "$DEMO" seeded/$P-$NAME/demo_test.go.txt
python3 - "$P" "$NAME" "$base" "$demo_with" "$demo_without" "$verdict" "$TIER" "$kind" "$PKG" "$RUN" <<'PY'
import json,sys,os
p,name,base,dw,dwo,verdict,tier,kind,pkg,run=sys.argv[1:11]
path=f"seeded/{p}-{name}/meta.json"
meta=json.load(open(path)) if os.path.exists(path) else {}
meta.update({"property":p,"name":name,"source":"independent sub-agent given only the property text and a scratch worktree","baseline_suite_with_change":base,"demo_with_change":dw,"demo_without_change":dwo,
 "demo":{"file":"demo_test.go.txt","copy_to":f"{pkg}/zz_demo_test.go","run":f"go test -vet=off -count=1 ./{pkg}/ -run '{run}'"},
 "checked_with":f"VERIF_REPO=<scratch copy with patch> ./check {p} {tier}","check_verdict":verdict,"check_detail":kind})
json.dump(meta,open(path,"w"),indent=1)
PY
rm -rf "$D" "$C" /tmp/verif-seeddir-*
