#!/usr/bin/env python3
"""Generates /verif/MANIFEST.json from the table below (single source of truth)."""
import json, os, sys
HERE = os.path.dirname(os.path.dirname(os.path.abspath(__file__)))

# id -> (engine, technique, level text, level note, design ref)
CHECKS = {
 "C08": ("seqx+coop",
  "explicit-state search over all fragment arrival sequences on the real reassembler vs an interval-coverage reference; stateless model checking (all schedules, cooperative scheduler) of concurrent fragment delivery",
  "Every arrival sequence (with repetition, depth <=5 quick / <=6 thorough) of consistent 8-byte-aligned fragments of 1-2 interleaved datagrams of 1-4 units, plus advance(31 s), is replayed on a fresh real Fragmentation and compared call by call with a coverage reference (done exactly when complete + last seen, payload byte-exact, nothing delivered otherwise, old fragments not combined after the timeout). 13 concurrent programs (2-3 threads feeding fragments of 1-2 datagrams) are explored over all schedules (unbounded preemptions for 2 threads, <=3/<=5 for 3 threads).",
  "Fragments agree on content and datagram end (contradictory fragments belong to C07). Keys are Process ids; the ipv4 hash path is exercised by the net-group checks once built. Virtual clock.",
  "DESIGN.md §3.1, §3.3, §5 C08"),
 "C10": ("seqx+enum+coop",
  "explicit-state search over reserve/release histories vs a reference set; exhaustive enumeration of all 49536 ephemeral start offsets; stateless model checking of racing reservations with brute-force linearizability",
  "All Reserve/Release histories up to depth 3 (+state-deduplicated BFS to 4; thorough 4/+6) over 3 network sets x 2 transports x {any,A,B} x 2 ports + ephemeral requests, with the complete availability table compared after every step; PickEphemeralPort for every one of the 49536 start offsets (rand shim) with nothing free (probed set must be exactly [16000,65535]), one free port at 3-8 positions, failing tester; 9 racing programs over all schedules, linearizability against the reference.",
  "Release only of held reservations (API contract); math/rand replaced by a shim returning the enumerated offset.",
  "DESIGN.md §5 C10"),
 "C14": ("enum",
  "exhaustive enumeration: all 2^32 second operands from each base point against the serial-number definition on 64-bit distances",
  "For each base in {0, 2^31, 2^32-1} (thorough: 11 bases) and every one of the 2^32 second operands: LessThan/LessThanEq both ways, Add/Size/UpdateForward laws, InRange/InWindow for 6-8 sizes (value moving and range moving), Overlap for 9-25 window-size pairs; compared with the definition computed in 64-bit arithmetic.",
  "Overlap domain: non-empty windows <= 2^30. The TCP half of the statement (wrap-adjacent initial sequence numbers) is exercised by the TCP checks' scenario sets.",
  "DESIGN.md §5 C14"),
 "C15": ("enum",
  "exhaustive enumeration of finite input domains of the real codecs against an independent RFC bit-layout reference and RFC 1071 sum",
  "Every value of every field <=20 bits of Ethernet/ARP/IPv4/IPv6/IPv6-fragment/ICMPv4/ICMPv6/UDP/TCP/DNS headers at all-zero and all-ones background (32-bit fields: boundary menu quick, all 2^32 thorough) encoded by the repository and compared byte-for-byte with the RFC layout and read back through the accessors; every option byte string of length <=6 over an 11-symbol alphabet and every encoder output truncated at every length through ParseSynOptions/ParseTCPOptions (no out-of-range read, options recovered); Checksum for all 2^16 initial values x all buffers of length <=2, lengths 0..65535 x 4 fills x 4 initial values (quick: 0..4200 and the top 80), even split points, complemented-sum verification; ChecksumCombine over all 2^32 pairs; partial-checksum helpers.",
  "Field domains are the representable values. For option areas that are not well-formed only absence of out-of-range reads is demanded; an MSS option of value 0 is treated as invalid input for the SYN reader.",
  "DESIGN.md §5 C15"),
 "C16": ("seqx",
  "explicit-state search: every operation sequence up to a depth on the real buffer types (then state-deduplicated BFS) vs a plain byte-string reference",
  "All chunkings of n<=4 (thorough 6) distinct bytes into <=4 chunks incl. empty chunks; all sequences of depth <=3 (thorough 4), then deduplicated BFS to 5 (7), over TrimFront(0..n+1), CapLength(-1..n+1), RemoveFirst, Clone(nil|small|large) on the original and its clone with Size/ToView/Views/First read back after every step; View (TrimFront, CapLength with re-extension test, NextBytes, ToVectorisedView) and Prependable (Prepend(0..size+1), View, UsedLength, NewPrependableFromView) likewise.",
  "View.TrimFront/CapLength only with counts within the current length. State key = complete structure (chunk contents, spare capacities, sizes), so deduplication merges only identical states.",
  "DESIGN.md §5 C16"),
 "C17": ("seqx+coop",
  "explicit-state search over all register/unregister/notify sequences on the real waiter.Queue vs a reference map; stateless model checking (all schedules) of racing registration and notification",
  "All enabled sequences of depth <=5 (thorough 6), then deduplicated BFS to 9 (12), over register(e,m)/unregister(e)/notify(m)/Events/IsEmpty/take-token on 3 entries (2 callback, 1 channel) x 4 masks; after each step callback counts, Events, IsEmpty, channel token and the forward/backward list walk are compared with the reference. 14 racing programs of 2-3 threads explored over all schedules (unbounded preemptions); oracle on logical call/return times: registered-throughout entries called exactly once, unregistered-throughout never, never twice per notify, no callback after unregister returned, channel token kept.",
  "An entry is registered/unregistered by one owner at a time. RWMutex modelled without writer preference.",
  "DESIGN.md §5 C17"),
 "C18": ("coop",
  "stateless model checking of the real code: exhaustive DFS over thread schedules at atomic-operation granularity, iterative preemption bounding",
  "Every schedule of every 2-4 thread Lock/TryLock/Unlock harness (scripts of <=2 operations per thread) of the real pkg/tmutex code is executed under a cooperative scheduler with a schedule point before each atomic operation, channel receive and select; quick explores all schedules with <=3 preemptions (<=4 for 2 threads), thorough <=4 (<=5). Oracles: at most one holder at every point, TryLock never blocks and succeeds when uncontended, no execution ends with a thread asleep (lost wake-up), the mutex is free at the end.",
  "Sequentially consistent atomics (true for Go sync/atomic); buffered-channel receive modelled as 'enabled iff non-empty'; harnesses bounded to 4 threads x 2 operations; nothing beyond the completed preemption bound is claimed.",
  "DESIGN.md §3.1, §5 C18"),
 "C19": ("coop",
  "stateless model checking of the real Sleeper/Waker code (DFS over schedules, preemption bounding) + brute-force linearizability of every history against a bit-per-waker reference",
  "22 harness programs (fetcher + 1-3 asserting/clearing threads over 1-3 wakers; Done and re-attachment to a second sleeper; AddWaker of asserted wakers) explored over all schedules with <=2 preemptions (<=4 for two-thread programs; thorough <=4/<=6), a schedule point before every atomic operation of the algorithm including commitSleep, park/ready modelled by the scheduler. Oracles: no execution ends with the fetcher asleep (lost wake-up), every Assert/Clear/Fetch history linearizable against the bit-per-waker model, a sleeper's words never change after Done returned.",
  "Portable Go commitSleep (the amd64 assembly does not assemble on the pinned toolchain). One recorded known finding F1 (non-blocking fetch vs overlapping asserts of one waker).",
  "DESIGN.md §5 C19"),
}

NOT_BUILT_REASON = "check not built yet in this revision of /verif (planned, see DESIGN.md §5); nothing is claimed for it"

def main():
    props = [json.loads(l)["id"] for l in open(os.path.join(HERE, "properties.jsonl"))]
    checks, na = [], []
    for pid in props:
        if pid in CHECKS:
            eng, tech, text, note, ref = CHECKS[pid]
            checks.append({
                "property_id": pid,
                "quick_cmd": f"./check {pid} quick",
                "thorough_cmd": f"./check {pid} thorough",
                "evidence_file": f"/verif/evidence/{pid}.json",
                "replay_cmd_template": f"./check {pid} --replay {{path}}",
                "engine": eng,
                "level_claimed": {"category": "model_checking", "text": text, "design_ref": ref},
                "level_note": note,
                "technique": tech,
            })
        else:
            na.append({"property_id": pid, "reason": NOT_BUILT_REASON})
    m = {
        "version": 1,
        "setup_cmd": "./setup.sh",
        "hooks": {
            "guard": "none in source: all hooks are applied at build time with `go build -overlay` generated from /repo's current working tree by bin/instrument (import-path substitution sync->vsync, sync/atomic->vatomic, time->vtime, log->vlog, rand->vrand/vcrand; pkg/sleep park/ready shim); /repo is never modified by the machinery",
            "enable": "./check <ID> <tier> runs bin/instrument -repo /repo -out $SCRATCH/ov and builds harness/<group> with -overlay $SCRATCH/ov/overlay.json",
            "baseline_off_cmd": "cd /repo && for p in pkg/buffer pkg/tmutex pkg/waiter protocol/header protocol/network/fragmentation protocol/ports protocol/transport/tcpconntrack; do go test -vet=off -count=1 ./$p/ || exit 1; done",
            "source_commits": [],
            "add_only": True,
        },
        "engines": [
            {"name": "coop", "path": "engine/coop.go + shim/vsched", "serves_properties": ["C08", "C09", "C10", "C11", "C17", "C18", "C19"], "kind_free_text": "controlled cooperative scheduler + DFS over schedules with preemption bounding, on the real code"},
            {"name": "envx", "path": "harness/net", "serves_properties": ["C01", "C02", "C03", "C04", "C05", "C06", "C07", "C11", "C12", "C13", "C20"], "kind_free_text": "deterministic world (virtual clock, scripted wire, quiescence barrier) + DFS over deviations from the default environment answer"},
            {"name": "seqx", "path": "engine/seqx.go", "serves_properties": ["C08", "C09", "C10", "C12", "C16", "C17"], "kind_free_text": "explicit-state BFS over operation sequences on the real object against a reference model"},
            {"name": "enum", "path": "harness/core", "serves_properties": ["C10", "C14", "C15"], "kind_free_text": "exhaustive enumeration of finite input domains against an independent reference"},
        ],
        "checks": checks,
        "not_applicable": na,
        "notes": "Exit codes of ./check: 0 held (KNOWN-FINDING lines possible), 1 VIOLATION, 2 harness/build error. VERIF_REPO=<dir> points the check at another checkout (used for seeded mutants). known findings: /verif/known_findings.json.",
    }
    json.dump(m, open(os.path.join(HERE, "MANIFEST.json"), "w"), indent=1)
    print(f"MANIFEST.json: {len(checks)} checks, {len(na)} not_applicable")

if __name__ == "__main__":
    main()
