#!/usr/bin/env python3
"""Generates /verif/MANIFEST.json from the table below (single source of truth)."""
import json, os, sys
HERE = os.path.dirname(os.path.dirname(os.path.abspath(__file__)))

# id -> (engine, technique, level text, level note, design ref)
CHECKS = {
 "C18": ("coop",
  "stateless model checking of the real code: exhaustive DFS over thread schedules at atomic-operation granularity, iterative preemption bounding",
  "Every schedule of every 2-4 thread Lock/TryLock/Unlock harness (scripts of <=2 operations per thread) of the real pkg/tmutex code is executed under a cooperative scheduler with a schedule point before each atomic operation, channel receive and select; quick explores all schedules with <=3 preemptions (<=4 for 2 threads), thorough <=4 (<=5). Oracles: at most one holder at every point, TryLock never blocks and succeeds when uncontended, no execution ends with a thread asleep (lost wake-up), the mutex is free at the end.",
  "Sequentially consistent atomics (true for Go sync/atomic); buffered-channel receive modelled as 'enabled iff non-empty'; harnesses bounded to 4 threads x 2 operations; nothing beyond the completed preemption bound is claimed.",
  "DESIGN.md §3.1, §5 C18"),
}

NOT_BUILT_REASON = "check not built yet in this revision of /verif (planned, see DESIGN.md §5); nothing is claimed for it"

def main():
    props = [json.loads(l)["id"] for l in open(os.path.join(HERE, "properties.jsonl"))]
    checks, na = [], []
    for pid in props:
        if pid in CHECKS:
            eng, tech, text, note, ref = CHECKS[pid]
            checks.append({
                "property_id": pid,
                "quick_cmd": f"./check {pid} quick",
                "thorough_cmd": f"./check {pid} thorough",
                "evidence_file": f"/verif/evidence/{pid}.json",
                "replay_cmd_template": f"./check {pid} --replay {{path}}",
                "engine": eng,
                "level_claimed": {"category": "model_checking", "text": text, "design_ref": ref},
                "level_note": note,
                "technique": tech,
            })
        else:
            na.append({"property_id": pid, "reason": NOT_BUILT_REASON})
    m = {
        "version": 1,
        "setup_cmd": "./setup.sh",
        "hooks": {
            "guard": "none in source: all hooks are applied at build time with `go build -overlay` generated from /repo's current working tree by bin/instrument (import-path substitution sync->vsync, sync/atomic->vatomic, time->vtime, log->vlog, rand->vrand/vcrand; pkg/sleep park/ready shim); /repo is never modified by the machinery",
            "enable": "./check <ID> <tier> runs bin/instrument -repo /repo -out $SCRATCH/ov and builds harness/<group> with -overlay $SCRATCH/ov/overlay.json",
            "baseline_off_cmd": "cd /repo && for p in pkg/buffer pkg/tmutex pkg/waiter protocol/header protocol/network/fragmentation protocol/ports protocol/transport/tcpconntrack; do go test -vet=off -count=1 ./$p/ || exit 1; done",
            "source_commits": [],
            "add_only": True,
        },
        "engines": [
            {"name": "coop", "path": "engine/coop.go + shim/vsched", "serves_properties": ["C08", "C09", "C10", "C11", "C17", "C18", "C19"], "kind_free_text": "controlled cooperative scheduler + DFS over schedules with preemption bounding, on the real code"},
            {"name": "envx", "path": "harness/net", "serves_properties": ["C01", "C02", "C03", "C04", "C05", "C06", "C07", "C11", "C12", "C13", "C20"], "kind_free_text": "deterministic world (virtual clock, scripted wire, quiescence barrier) + DFS over deviations from the default environment answer"},
            {"name": "seqx", "path": "engine/seqx.go", "serves_properties": ["C08", "C09", "C10", "C12", "C16", "C17"], "kind_free_text": "explicit-state BFS over operation sequences on the real object against a reference model"},
            {"name": "enum", "path": "harness/core", "serves_properties": ["C10", "C14", "C15"], "kind_free_text": "exhaustive enumeration of finite input domains against an independent reference"},
        ],
        "checks": checks,
        "not_applicable": na,
        "notes": "Exit codes of ./check: 0 held (KNOWN-FINDING lines possible), 1 VIOLATION, 2 harness/build error. VERIF_REPO=<dir> points the check at another checkout (used for seeded mutants). known findings: /verif/known_findings.json.",
    }
    json.dump(m, open(os.path.join(HERE, "MANIFEST.json"), "w"), indent=1)
    print(f"MANIFEST.json: {len(checks)} checks, {len(na)} not_applicable")

if __name__ == "__main__":
    main()
