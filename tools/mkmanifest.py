#!/usr/bin/env python3
"""Generates /verif/MANIFEST.json from the table below (single source of truth)."""
import json, os, sys
HERE = os.path.dirname(os.path.dirname(os.path.abspath(__file__)))

# id -> (engine, technique, level text, level note, design ref)
CHECKS = {
 "C01": ("envx",
  "stateless model checking of the real stack in a deterministic world (virtual clock, scripted wire, quiescence barrier): DFS over all environment histories within a deviation budget",
  "(a) Two real stacks joined by a scripted wire: every history in which the environment deviates at most <budget> times (quick 1, plus budget 2 on the smallest configuration; thorough 1 on the full configuration product, 2 and 3 on small ones) from the default answer - drop, duplicate, reorder or replay a frame, run an application call before a delivery, fire a timer early - over IPv4/IPv6, SACK on/off, Reno/CUBIC, MTUs, receive buffers, write chunkings, read pacing and initial sequence numbers that make the stream cross 2^31 and 2^32. (b) One stack against a raw peer built on an independent codec that acknowledges at arbitrary bytes (segment boundary-1, mid-segment), shrinks the window, withholds ACKs, loses segments and sends reordered/overlapping/duplicated data. Oracles after every step: bytes read are a prefix of bytes written (both directions); every byte ever put on the wire at sequence position p equals written byte p; the peer's reconstructed stream is a prefix of what was written.",
  "Interleavings are explored at event granularity (delivery, timer, application call), not lock granularity inside an event. The passive side's initial sequence number is a SYN cookie and cannot be pinned; wrap-adjacent values are placed on the active side and on the raw peer.",
  "DESIGN.md §3.2, §5 C01"),
 "C02": ("envx",
  "stateless model checking of two real stacks in a deterministic world: all histories that drop any single frame / pair of frames or fire a timer early, run to the idle horizon in virtual time; liveness decided exactly on the idle end state",
  "Close scenarios (one-sided shutdown, simultaneous shutdown, half-close then reply, accepting side speaks first, close with unread data, receiver stalls until the window closes then drains) x payload sizes {0, 1 segment, 3 segments, more than the receive window}: every history with up to 1 (thorough 2) dropped frames of the exchange (SYN, SYN-ACK, ACK, data, window update, FIN) or early timers. Oracles: everything written is delivered unless an endpoint reports an error; end-of-stream after shutdown, no data after it; both endpoints closed without error when nothing was lost; the world never ends idle (nothing in flight, no timer, no application call possible) with unsent/unacknowledged data or FIN on an endpoint that is not in the error state.",
  "Horizon: idle world or 15 virtual minutes. One recorded known finding D6 (no zero-window probe).",
  "DESIGN.md §5 C02"),
 "C03": ("envx/seqx",
  "explicit-state search: every sequence of handshake segments up to a depth replayed on a fresh real stack against a reference handshake machine; full product of SYN option sets x initial sequence numbers x acknowledgement numbers; all 64 flag combinations for strays",
  "Passive open in normal and SYN-cookie mode: all sequences of length <=3 (thorough 4) over 12 letters (SYN, SYN with other sequence number, right ACK, 5 wrong ACKs incl. ISS, ISS+2, ISS+1+2^31, 0, 2^32-1, RST in/out of window, SYN-ACK, data) for peer initial sequence numbers {0,1,2^31-1,2^31,2^32-1}; 36 SYN option sets (all subsets of MSS/WS/TS/SACK-permitted in two orders, padded, EOL-terminated, unknown kind, truncated, MSS 0) x ISS x right/5 wrong third ACKs; active open with the stack's ISS pinned to {1, 2^31-2, 2^32-2}: all sequences over 12 answers; strays: 64 flag combinations x {0,5} bytes x {no socket, listener}. Oracles: connections appear exactly when the reference says, wrong-ACK handshake segments are answered by one reset with that sequence number, strays get exactly one reset acknowledging them, a reset is never answered.",
  "A bare ACK to a listener creates no connection (no reset demanded). Because every SYN-ACK's ISS is a cookie that stays valid, an exactly matching ACK may complete at the listener after its handshake attempt was abandoned: both outcomes accepted. Known finding D15.",
  "DESIGN.md §5 C03"),
 "C04": ("envx",
  "stateless model checking of the real stack against a scripted raw peer: DFS over all histories of peer window advertisements / ACK placements / ICMP fragmentation-needed within the deviation budget; every emitted segment checked against the window, MSS and MTU offered so far",
  "Peer MSS {absent,1,88,536,1460} x window scale {absent,0,2,14} x MTU {576,1500} (quick: 3 combinations), writes {1, MSS, MSS+1, 5 MSS, 70000}: at each delivered data segment the peer may answer with a window from {0,1,MSS-1,MSS,3MSS,65535} (edge never retreating), acknowledge mid-segment, withhold the ACK, lose the segment, or an ICMP fragmentation-needed (MTU 296/68/576) arrives; budget 1 (thorough 2 on two configurations). Every emitted segment: end <= right edge offered so far, payload <= min(MSS, MTU-headers-options) and <= reported path MTU afterwards; the stack's own advertised edge never moves left; receive side with a small buffer and an application that reads only once the window has closed: unread accepted bytes <= buffer, window reopens after draining, data wholly outside the advertised window (probe at the edge and beyond a closed window) is never accepted; shrinking the receive buffer mid-stream.",
  "The peer is conforming except for the deliberate beyond-window probes; a stale copy of an earlier ACK arriving after newer ones is one of the deviations (finding D23, fixed).",
  "DESIGN.md §5 C04"),
 "C05": ("envx",
  "stateless model checking of the real TCP sender against a scripted raw peer under a virtual clock: DFS over all histories of lost segments and withheld / partial / duplicate ACKs within the deviation budget; every emission time-stamped in virtual time",
  "Flights of 3 and 10 (thorough 1..12) segments, peer RTT {0,50,300,1500} ms, SACK/timestamps on, a 3000-byte write, silent peer for 1/3/6 timeouts: every history losing up to 1 (2) segments or ACKs. Oracles: third duplicate ACK answered in the same step by a retransmission of the earliest unacknowledged segment (first loss episode); a timeout retransmission never sooner than 200 ms after the previous transmission of that segment; while the peer is silent exactly one segment per timeout, always the earliest unacknowledged, intervals at least doubling; at most 10 data segments before the first ACK; Reno: segments in flight <= 10 + segments acknowledged + duplicate ACKs delivered.",
  "Duplicate ACK per RFC 5681; a fast retransmit is demanded only in the first loss episode (RFC 6582).",
  "DESIGN.md §5 C05"),
 "C06": ("envx+enum",
  "every frame emitted in a scenario set reaching every originator is validated by an independent RFC-derived decoder; exhaustive enumeration of UDP payloads (all 2-byte values, all lengths) and echo lengths; bounded environment exploration for the TCP originators",
  "UDP over IPv4 and IPv6: all 65536 two-byte payloads (checksum through all values) and lengths 0..1472 plus 13 lengths around the 16-bit limits (65486..65535); ICMPv4/ICMPv6 echo replies for lengths 0..MTU; TCP (SYN/SYN-ACK with all option sets, data with timestamps/SACK blocks, ACK, FIN, RST from handshake checks and for 64 stray flag combinations) in two-stack and raw-peer runs under budget-1 deviations. Each frame: decodes, length fields equal actual lengths, IPv4 header / ICMP / UDP / TCP checksums verify (UDP/IPv6 zero checksum is a violation), options well-formed and padded, SYN-only options only on SYN, source is an address of the emitting stack, consecutive >68-byte packets of a flow carry different IPv4 ids. Ethernet: two links with the same gateway address and different link addresses; datagrams routed through each, in both orders, must leave with the link address resolved on that link (and an ARP request on that link first).",
  "ARP/NDP frames themselves are validated inside the C12 scenarios.",
  "DESIGN.md §4, §5 C06"),
 "C11": ("enum+seqx+coop",
  "exhaustive enumeration of payload lengths x socket kinds on two real stacks; explicit-state search over all interleavings of sends, reads, shutdown, close against a reference queue; stateless model checking of concurrent readers vs delivery",
  "Every payload length 0..1472 over IPv4, IPv6 and v4-mapped destinations through sender kinds {bound *, bound specific, connected, unbound} x receiver kinds {bound *, bound specific, connected}; lengths {1473, 2000, 65507, 65508, 65527, 65528, 65535, 65536}: one emitted packet with exactly those bytes and consistent length fields, or an error and no packet; every Read returns one datagram byte-for-byte with the true source address/port, once; all sequences of length <=5 (6) over sends from two senders, read, shutdown(read), shutdown(write), shutdown(read+write), close against the fixed 32 KiB receive buffer; raw datagrams whose IP payload is longer than the UDP length, and datagrams with one payload bit damaged in transit (must not be returned); 4 programs of two readers racing packet delivery, all schedules with <=2 preemptions.",
  "A datagram that fits must be accepted; one that does not may be dropped whole.",
  "DESIGN.md §5 C11"),
 "C13": ("enum",
  "exhaustive enumeration of echo-request inputs injected into the real stack; every emitted frame matched against outstanding requests by an independent decoder",
  "ICMPv4 and ICMPv6 echo requests: every payload length 0..1472 (1452) x 2 fill patterns, identifier x sequence over {0,1,0x7fff,0x8000,0xffff}^2, destinations {own A1, own A2, foreign, unassigned}, fragmented requests of 2200 and 3700 bytes in every 8-byte-aligned cut (step 56, thorough 8) into 2-3 fragments in every arrival order, bursts of {1,9,10,11,14} injected before the replier runs, requests handed over as two buffers cut at every position inside the payload (lengths 5, 64, 65). Oracles: each reply matches one unanswered request (identifier, sequence, payload), comes from the pinged address to the requester with a valid checksum; at most one reply per request, all answered while fewer than ten are pending; nothing for foreign/unassigned destinations.",
  "Known finding D11 (no IPv6 reassembly).",
  "DESIGN.md §5 C13"),
 "C08": ("seqx+coop",
  "explicit-state search over all fragment arrival sequences on the real reassembler vs an interval-coverage reference; stateless model checking (all schedules, cooperative scheduler) of concurrent fragment delivery",
  "Every arrival sequence (with repetition, depth <=5 quick / <=6 thorough) of consistent 8-byte-aligned fragments of 1-2 interleaved datagrams of 1-4 units, plus advance(31 s), is replayed on a fresh real Fragmentation and compared call by call with a coverage reference (done exactly when complete + last seen, payload byte-exact, nothing delivered otherwise, old fragments not combined after the timeout). Long histories: 60 datagrams in sequence on one context with small memory limits, every ordered pair of 10 arrival patterns. Keys: every tuple that differs from one of three base (source, destination, id, protocol) tuples in exactly one octet must get a different key from the real hash.IPv4FragmentHash; a collision search over 2^22 tuples feeds the colliding datagrams to the real reassembler (known finding D22). 13 concurrent programs (2-3 threads feeding fragments of 1-2 datagrams) are explored over all schedules (unbounded preemptions for 2 threads, <=3/<=5 for 3 threads).",
  "Fragments agree on content and datagram end (contradictory fragments belong to C07). The sequence / schedule exploration uses Process ids of its own; the key function is checked by the keys job. Virtual clock. Known finding D22 (32-bit hash key collisions).",
  "DESIGN.md §3.1, §3.3, §5 C08"),
 "C10": ("seqx+enum+coop",
  "explicit-state search over reserve/release histories vs a reference set, and over bind/connect/listen/close histories of real UDP and TCP sockets; exhaustive enumeration of all 49536 ephemeral start offsets; stateless model checking of racing reservations with brute-force linearizability",
  "All Reserve/Release histories up to depth 3 (+state-deduplicated BFS to 4; thorough 4/+6) over 3 network sets x 2 transports x {any,A,B} x 2 ports + ephemeral requests, with the complete availability table compared after every step; PickEphemeralPort for every one of the 49536 start offsets (rand shim) with nothing free (probed set must be exactly [16000,65535]), one free port at 3-8 positions, failing tester; socket level: every sequence of length 3 (thorough 4) over {bind(*:P), bind(A:P), bind(*:0), connect(v4 peer), connect(v6 peer), listen, close} on two sockets of kinds {udp4, udp6 dual-stack, tcp4, tcp6 dual-stack} (10 kind pairs) on a real stack - once both are closed no (network, transport, address, port) may remain reserved; 9 racing programs over all schedules, linearizability against the reference.",
  "Release only of held reservations (API contract); math/rand replaced by a shim returning the enumerated offset. The socket-level part checks the end state (everything released), not every intermediate reservation.",
  "DESIGN.md §5 C10"),
 "C14": ("enum+envx",
  "exhaustive enumeration: all 2^32 second operands from each base point against the serial-number definition on 64-bit distances; stateless model checking (deviation-bounded DFS against the raw peer) of the TCP users of the arithmetic with wrap-adjacent initial sequence numbers",
  "For each base in {0, 2^31, 2^32-1} (thorough: 11 bases) and every one of the 2^32 second operands: LessThan/LessThanEq both ways, Add/Size/UpdateForward laws, InRange/InWindow for 6-8 sizes (value moving and range moving), Overlap for 9-25 window-size pairs; compared with the definition computed in 64-bit arithmetic. TCP half: the raw-peer stream and window oracles of C01/C04 (bytes read = bytes written in both directions, every byte on the wire at position p is written byte p, window and MSS respected) re-run with the stack's and the peer's initial sequence numbers placed 1, 5, 21, 30, 70 (thorough: 10 offsets) below 2^31 and below 2^32, so that the wrap falls in the handshake, inside a segment, between segments and beyond the data, with every single deviation (thorough: pairs, and SACK/timestamp configurations) among lost / duplicated / reordered / overlapping / re-segmented peer data, mid-segment ACKs, window changes and withheld ACKs.",
  "Overlap domain: non-empty windows <= 2^30. The passive side's ISS is a SYN cookie and cannot be pinned: the stack is the active opener in the TCP half.",
  "DESIGN.md §5 C14"),
 "C15": ("enum",
  "exhaustive enumeration of finite input domains of the real codecs against an independent RFC bit-layout reference and RFC 1071 sum",
  "Every value of every field <=20 bits of Ethernet/ARP/IPv4/IPv6/IPv6-fragment/ICMPv4/ICMPv6/UDP/TCP/DNS headers at all-zero and all-ones background (32-bit fields: boundary menu quick, all 2^32 thorough) encoded by the repository and compared byte-for-byte with the RFC layout and read back through the accessors; every option byte string of length <=6 over an 11-symbol alphabet and every encoder output truncated at every length through ParseSynOptions/ParseTCPOptions (no out-of-range read, options recovered); Checksum for all 2^16 initial values x all buffers of length <=2, lengths 0..65535 x 4 fills x 4 initial values (quick: 0..4200 and the top 80), even split points, complemented-sum verification; ChecksumCombine over all 2^32 pairs; partial-checksum helpers.",
  "Field domains are the representable values. For option areas that are not well-formed only absence of out-of-range reads is demanded; an MSS option of value 0 is treated as invalid input for the SYN reader.",
  "DESIGN.md §5 C15"),
 "C16": ("seqx",
  "explicit-state search: every operation sequence up to a depth on the real buffer types (then state-deduplicated BFS) vs a plain byte-string reference",
  "All chunkings of n<=4 (thorough 6) distinct bytes into <=4 chunks incl. empty chunks; all sequences of depth <=3 (thorough 4), then deduplicated BFS to 5 (7), over TrimFront(0..n+1), CapLength(-1..n+1), RemoveFirst, Clone(nil | small | large | empty scratch with capacity | used scratch with stale views) on the original and its clone with Size/ToView/Views/First read back after every step; View (TrimFront, CapLength with re-extension test, NextBytes, ToVectorisedView) and Prependable (Prepend(0..size+1), View, UsedLength, NewPrependableFromView) likewise.",
  "View.TrimFront/CapLength only with counts within the current length. State key = complete structure (chunk contents, spare capacities, sizes), so deduplication merges only identical states.",
  "DESIGN.md §5 C16"),
 "C17": ("seqx+coop",
  "explicit-state search over all register/unregister/notify sequences on the real waiter.Queue vs a reference map; stateless model checking (all schedules) of racing registration and notification",
  "All enabled sequences of depth <=5 (thorough 6), then deduplicated BFS to 9 (12), over register(e,m)/unregister(e)/notify(m)/Events/IsEmpty/take-token on 3 entries (2 callback, 1 channel) x 4 masks; after each step callback counts, Events, IsEmpty, channel token and the forward/backward list walk are compared with the reference. 14 racing programs of 2-3 threads explored over all schedules (unbounded preemptions); oracle on logical call/return times: registered-throughout entries called exactly once, unregistered-throughout never, never twice per notify, no callback after unregister returned, channel token kept.",
  "An entry is registered/unregistered by one owner at a time. RWMutex modelled without writer preference.",
  "DESIGN.md §5 C17"),
 "C18": ("coop",
  "stateless model checking of the real code: exhaustive DFS over thread schedules at atomic-operation granularity, iterative preemption bounding",
  "Every schedule of every 2-4 thread Lock/TryLock/Unlock harness (scripts of <=2 operations per thread) of the real pkg/tmutex code is executed under a cooperative scheduler with a schedule point before each atomic operation, channel receive and select; quick explores all schedules with <=3 preemptions (<=4 for 2 threads), thorough <=4 (<=5). Oracles: at most one holder at every point, TryLock never blocks and succeeds when uncontended, no execution ends with a thread asleep (lost wake-up), the mutex is free at the end.",
  "Sequentially consistent atomics (true for Go sync/atomic); buffered-channel receive modelled as 'enabled iff non-empty'; harnesses bounded to 4 threads x 2 operations; nothing beyond the completed preemption bound is claimed.",
  "DESIGN.md §3.1, §5 C18"),
 "C19": ("coop",
  "stateless model checking of the real Sleeper/Waker code (DFS over schedules, preemption bounding) + brute-force linearizability of every history against a bit-per-waker reference",
  "22 harness programs (fetcher + 1-3 asserting/clearing threads over 1-3 wakers; Done and re-attachment to a second sleeper; AddWaker of asserted wakers) explored over all schedules with <=2 preemptions (<=4 for two-thread programs; thorough <=4/<=6), a schedule point before every atomic operation of the algorithm including commitSleep, park/ready modelled by the scheduler. Oracles: no execution ends with the fetcher asleep (lost wake-up), every Assert/Clear/Fetch history linearizable against the bit-per-waker model, a sleeper's words never change after Done returned.",
  "Portable Go commitSleep (the amd64 assembly does not assemble on the pinned toolchain). One recorded known finding F1 (non-blocking fetch vs overlapping asserts of one waker).",
  "DESIGN.md §5 C19"),
 "C07": ("enum (envx world)",
  "exhaustive enumeration of hostile inbound frame sequences (small-scope fragment sequences, all single field mutations and truncations of valid packets, short noise) against the real stack in the deterministic world, worker-isolated; liveness probes after every sequence",
  "IPv4 fragments: all sequences of length <=2 (thorough 3) over offset {0,8,16,65528} x length {0,8,16,24} x MF {0,1} x id {1,2}; for each of 15 valid templates (ARP, ICMPv4 echo / unreachable, UDP, TCP SYN/ACK/data/RST to listener, connection and closed port, the IPv6 counterparts incl. NS/NA and packet-too-big) every length/offset/count/flag field set to each boundary value, every value of every byte of the TCP sequence and acknowledgement numbers, and every truncation length; every byte string of length <=2 and fills of every length 0..80 under each ethertype; each template and each of its field mutations delivered in two views cut at every byte (quick: mutations cut within bytes 20..104) and, for IPv4, as two fragments cut at every 8-byte boundary in both arrival orders; every 3-byte (thorough: 4-byte) TCP option area over a 12-symbol alphabet (known and unknown kinds, length bytes 0/1/2/3/4/10/40/255) on a SYN to the listener and on a data segment of the connection; pairs of a 24-letter digest of the above; the same runt/short frames through the repository's fd-based Ethernet endpoint over a socketpair. After every sequence: no panic, no dead worker (a dying worker process is re-run in isolation and reported), no goroutine deadlocked, wedged or spinning (still runnable after 200000 yields / 30 s), and the stack still answers an echo request, still completes a handshake on the listener and still delivers a UDP datagram.",
  "Inputs are injected at the link layer of one NIC; reassembly timeouts are not advanced inside a sequence. Single-field mutations and pairs, not arbitrary byte strings of packet length.",
  "DESIGN.md §5 C07"),
 "C09": ("seqx+coop",
  "explicit-state search over socket-set histories (open orders, closes, interface toggles) on the real stack with exhaustive injection of the inbound 4-tuple alphabet after every operation, against a most-specific-match reference; stateless model checking (cooperative scheduler, all schedules) of registration/unregistration racing delivery",
  "Sockets from {UDP bound *:P, A1:P, A2:P, A3:P (NIC 2), A1:P connected to R:Q, *:P connected to R:Q; the same connected through NIC 1 explicitly, A1:P bound on NIC 1, *:P bound on NIC 2; TCP listener *:P, A1:P}: all sets of size <=3 in all open orders, then each single close; toggles promiscuous on and off again / subnet added and removed again / removal of the second local address (sockets bound to it stay open); every connected socket connecting again to the peer it already has; a TCP connection A1:P<-R:Q established through the listener (its in-sequence data must reach the connection, a SYN on its 4-tuple creates nothing); after each operation every packet of dst {A1,A2,A3,foreign,unassigned} x dport {P,P'} x src {R,R'} x sport {Q,Q'} x {UDP, TCP SYN, TCP ACK+data} on each NIC is injected and the receiving socket (or the reset / ICMP-free silence) compared with the most-specific-match reference; each datagram reaches exactly one socket, never a closed one. Address families: seven UDP socket kinds (IPv4, IPv6 dual-stack, v4-mapped wildcard and specific, IPv6-only, IPv6 specific) alone and in ordered pairs, one IPv4 and one IPv6 datagram to the port: each reaches exactly the most specific socket bound for its family. Concurrent programs (bind/close racing delivery) over all schedules: each datagram reaches at most one socket, one registered at some time during the delivery, the more specific one if it was registered throughout.",
  "Known finding D25 (a later listener on A1:port shadows an actively opened connection on that port; `shadow` job). The concurrent part uses a single-NIC world (NIC map iteration order is not controlled).",
  "DESIGN.md §5 C09"),
 "C12": ("enum+envx+seqx",
  "exhaustive enumeration of ARP/NDP request and reply fields on the real stack; stateless model checking (deviation-bounded DFS in virtual time) of a resolution in progress under lost requests/replies, early timers, contradicting replies and concurrent askers; explicit-state search over the link-address cache against a reference map with expiry",
  "Responder: op x target {own A1, own A2, foreign, broadcast} x sender menu x malformed sizes (ARP), solicitation targets and addressing (NDP): answered exactly for own addresses with the NIC's MAC to the asker. Waiting: UDP write / TCP connect to an unresolved next hop (direct and via gateway), every history with up to 2 (thorough 3) deviations: dropping a request or reply, answering with another MAC, announcing unsolicited, firing timers early, a second socket asking meanwhile: packets leave only to the resolved MAC, at most 3 requests 1 s apart, then the waiter fails with no route / is woken exactly once. Cache: all sequences of depth <=4 (thorough 5) over lookup(a)/learn(a,m)/advance(30 s|61 s) on 3 addresses x 2 MACs vs a reference map with expiry; ring overflow with 500/510/511/520 neighbours (oldest evicted, no stale owner deleted).",
  "The IPv6 NIC is given the solicited-node multicast address by the harness. 'Most recently learned address' is demanded for unconnected sockets (a connected socket keeps its resolved route).",
  "DESIGN.md §5 C12"),
 "C20": ("enum (envx world)",
  "exhaustive enumeration of the request / message input product through the real bundled HTTP and WebSocket code over the real stack talking to itself in the deterministic world (frames pumped at a quiescence barrier; the pacing of application reads against segment arrival enumerated as environment choices), compared with what was sent and with an independent RFC 6455 frame codec and accept-key computation",
  "HTTP: methods {GET,HEAD,POST,PUT} x 4 paths (3 registered, 1 not) x all 16 subsets of a 4-header menu x bodies {empty, 1 byte, 1 KiB, 7 bodies with line breaks or spaces at the front / in the middle / at the end; thorough also 60000 bytes}; all 64 sequences of 3 requests over a 4-request menu: the handler registered for the path is invoked exactly once with method, header values and body byte-for-byte, no handler for an unregistered path, the client result equals what the handler produced, status line 200 OK on the wire. WebSocket: accept key for 8 client keys vs RFC 6455; every message length 0..130 and 65530..65540 plus 200 KiB and 300 KiB, unmasked through the bundled client and masked with keys {00000000, ffffffff, 01020304, 80000001} through a raw RFC 6455 client over the repository's TCP client; sequences of 3 client messages + 2 server pushes over lengths {0,7,126,300}: every message arrives whole, in order, byte-for-byte in both directions, server frames decode with minimal length encoding. Pacing: the handler passes a gate before every read and the client before every receive; for exchanges of two messages (300+7 and 70000+5 bytes; thorough also 200 KiB+66000 and 0+126), with and without two server pushes, masked and unmasked, pipelined and lock-step, every gate vector over {run at once, after 1 more frame, after 2 more frames, when nothing else can move}^3 for the server x {at once, when idle} for the client x {1, 2, all} frames delivered per barrier. The same exchanges with 20000/30000-byte messages followed by shorter ones over an MTU of 1500 (the first message is still queued in the TCP sender when the next is produced).",
  "Bodies and header values are in the grammar the bundled parser carries (no ': ' anywhere, header values without CRLF). A request fits one TCP segment (the HTTP layer reads a message with a single receive; loopback MTU 65535). The application goroutines run freely between barriers (channels of the application layer are not scheduled by the explorer): below the gates the check enumerates inputs and application pacing, not lock-level interleavings. Known finding D17 (pushed frames swallowed by the client's upgrade receive).",
  "DESIGN.md §5 C20"),
}

RACE = {"C08", "C09", "C10", "C11", "C17", "C18", "C19"}

NOT_BUILT_REASON = "check not built yet in this revision of /verif (planned, see DESIGN.md §5); nothing is claimed for it"

def main():
    props = [json.loads(l)["id"] for l in open(os.path.join(HERE, "properties.jsonl"))]
    checks, na = [], []
    for pid in props:
        if pid in CHECKS:
            eng, tech, text, note, ref = CHECKS[pid]
            if pid in RACE:
                note += " A separate free-running pass of the same operations in a -race build guards the scheduler's assumption that every shared access goes through a hooked synchronisation operation (DESIGN.md, Changes F); a race report is a violation, the pass itself decides nothing."
            checks.append({
                "property_id": pid,
                "quick_cmd": f"./check {pid} quick",
                "thorough_cmd": f"./check {pid} thorough",
                "evidence_file": f"/verif/evidence/{pid}.json",
                "replay_cmd_template": f"./check {pid} --replay {{path}}",
                "engine": eng,
                "level_claimed": {"category": "model_checking", "text": text, "design_ref": ref},
                "level_note": note,
                "technique": tech,
            })
        else:
            na.append({"property_id": pid, "reason": NOT_BUILT_REASON})
    m = {
        "version": 1,
        "setup_cmd": "./setup.sh",
        "hooks": {
            "guard": "none in source: all hooks are applied at build time with `go build -overlay` generated from /repo's current working tree by bin/instrument (import-path substitution sync->vsync, sync/atomic->vatomic, time->vtime, log->vlog, rand->vrand/vcrand; pkg/sleep park/ready shim); /repo is never modified by the machinery",
            "enable": "./check <ID> <tier> runs bin/instrument -repo /repo -out $SCRATCH/ov and builds harness/<group> with -overlay $SCRATCH/ov/overlay.json",
            "baseline_off_cmd": "cd /repo && for p in pkg/buffer pkg/tmutex pkg/waiter protocol/header protocol/network/fragmentation protocol/ports protocol/transport/tcpconntrack; do go test -vet=off -count=1 ./$p/ || exit 1; done",
            "source_commits": [],
            "add_only": True,
        },
        "engines": [
            {"name": "coop", "path": "engine/coop.go + shim/vsched", "serves_properties": ["C08", "C09", "C10", "C11", "C17", "C18", "C19"], "kind_free_text": "controlled cooperative scheduler + DFS over schedules with preemption bounding, on the real code"},
            {"name": "envx", "path": "harness/net", "serves_properties": ["C01", "C02", "C03", "C04", "C05", "C06", "C07", "C11", "C12", "C13", "C20"], "kind_free_text": "deterministic world (virtual clock, scripted wire, quiescence barrier) + DFS over deviations from the default environment answer"},
            {"name": "seqx", "path": "engine/seqx.go", "serves_properties": ["C08", "C09", "C10", "C12", "C16", "C17"], "kind_free_text": "explicit-state BFS over operation sequences on the real object against a reference model"},
            {"name": "enum", "path": "harness/core, harness/net", "serves_properties": ["C10", "C14", "C15"], "kind_free_text": "exhaustive enumeration of finite input domains against an independent reference"},
        ],
        "checks": checks,
        "not_applicable": na,
        "notes": "Exit codes of ./check: 0 held (KNOWN-FINDING lines possible), 1 VIOLATION, 2 harness/build error. VERIF_REPO=<dir> points the check at another checkout (used for seeded mutants). known findings: /verif/known_findings.json.",
    }
    json.dump(m, open(os.path.join(HERE, "MANIFEST.json"), "w"), indent=1)
    print(f"MANIFEST.json: {len(checks)} checks, {len(na)} not_applicable")

if __name__ == "__main__":
    main()
