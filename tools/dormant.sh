#!/bin/bash
# dormant.sh [repo-dir] : runs the repository's own dormant tests (packages that do not build
# on the pinned toolchain because of pkg/sleep) with a stand-alone pkg/sleep replacement.
# Regression aid for candidate "fix:" commits; not part of any registered check.
export GOFLAGS=-mod=mod GOPROXY=off GOSUMDB=off GOTOOLCHAIN=local
HERE=$(cd "$(dirname "$0")" && pwd)
SRC=${1:-/repo}
E=$(mktemp -d /tmp/verif-dormant-XXXXXX); trap 'rm -rf "$E"' EXIT
rsync -a --exclude .git "$SRC/" "$E/r/"
cp "$HERE/dormant/sleep.go.txt" "$E/sleep.go"
cat > "$E/ov.json" <<J
{"Replace": {"$E/r/pkg/sleep/sleep_unsafe.go": "$E/sleep.go", "$E/r/pkg/sleep/commit_amd64.s": "", "$E/r/pkg/sleep/commit_asm.go": "", "$E/r/pkg/sleep/commit_noasm.go": "", "$E/r/pkg/sleep/sleep_test.go": ""}}
J
cd "$E/r" && timeout 1200 go test -overlay "$E/ov.json" -vet=off -count=1 -timeout 900s ./protocol/transport/tcp/ ./protocol/transport/udp/ ./protocol/network/ ./protocol/network/ipv4/ ./protocol/network/ipv6/ ./stack/ 2>&1 | grep -E '^(--- FAIL|FAIL|ok|panic)'
