#!/bin/bash
# developer helper: builds harness/<group> against /repo into /tmp/verif-dbg/h-<group>
cd "$(dirname "$0")/.."
export GOFLAGS=-mod=mod GOPROXY=off GOSUMDB=off GOTOOLCHAIN=local
S=/tmp/verif-dbg; mkdir -p $S
bin/instrument -repo ${VERIF_REPO:-/repo} -out $S/ov -add overlay_add 2>/dev/null
sed "s#=> /repo#=> ${VERIF_REPO:-/repo}#" go.mod > $S/go.mod; : > $S/go.sum
go build -overlay $S/ov/overlay.json -modfile $S/go.mod -o $S/h-${1:-net} ./harness/${1:-net}
