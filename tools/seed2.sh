#!/bin/bash
# seed2.sh <PROP> <name> <pkg-dir-rel> <run-regex>: confirm a round-2 seeded change
# (/tmp/seed2-<P>.diff, /tmp/seed2-<P>-demo_test.go): check verdict + demonstration both ways.
cd "$(dirname "$0")/.."
P=$1; NAME=$2; PKG=$3; RUN=$4
export SEED_DIFF=/tmp/seed${ROUND:-2}-$P.diff SEED_DEMO=/tmp/seed${ROUND:-2}-$P-demo_test.go
tools/seedcheck.sh $P $NAME - . ${5:-quick} 2>&1 | tail -6
tools/seeddemo.sh $P $NAME $PKG "$RUN" 2>&1 | tail -4
