// instrument generates a `go build -overlay` file set from the CURRENT text of the
// repository's sources. Every rewrite is mechanical (import path substitution, two
// declaration removals, receive/select hooks); no repository logic is stored here, so any
// edit to /repo flows into the binary under test.
//
// usage: instrument -repo /repo -out $SCRATCH/ov   (writes $SCRATCH/ov/overlay.json)
package main

import (
	"encoding/json"
	"flag"
	"fmt"
	"go/ast"
	"go/parser"
	"go/token"
	"os"
	"path/filepath"
	"sort"
	"strings"
)

type edit struct {
	start, end int
	text       string
}

var (
	repo   = flag.String("repo", "/repo", "repository root")
	out    = flag.String("out", "", "output directory")
	addDir = flag.String("add", "", "directory with files to add (mirrors repo layout, *.go.txt)")
)

// packages (relative dirs) whose sources are rewritten; prefix match.
var roots = []string{"pkg/", "protocol/", "stack/"}

// never touched (not anchored by any property, or platform glue).
var skip = []string{"pkg/syscall", "pkg/reexec", "protocol/link/tuntap", "protocol/link/sniffer", "pkg/checker", "protocol/transport/tcp/testing"}

var timePkgs = map[string]bool{
	"protocol/transport/tcp":         true,
	"stack":                          true,
	"protocol/network/fragmentation": true,
}

// files in which channel receives / selects become scheduler-visible (R6).
var chanFiles = map[string]bool{"pkg/tmutex/tmutex.go": true}

func die(f string, a ...interface{}) {
	fmt.Fprintf(os.Stderr, "instrument: "+f+"\n", a...)
	os.Exit(2)
}

func main() {
	flag.Parse()
	if *out == "" {
		die("-out required")
	}
	overlay := map[string]string{}
	nfiles := 0
	err := filepath.Walk(*repo, func(p string, info os.FileInfo, err error) error {
		if err != nil {
			return err
		}
		rel, _ := filepath.Rel(*repo, p)
		if info.IsDir() {
			if rel == ".git" {
				return filepath.SkipDir
			}
			return nil
		}
		if !strings.HasSuffix(rel, ".go") || strings.HasSuffix(rel, "_test.go") {
			return nil
		}
		ok := false
		for _, r := range roots {
			if strings.HasPrefix(rel, r) {
				ok = true
			}
		}
		for _, s := range skip {
			if strings.HasPrefix(rel, s+"/") {
				ok = false
			}
		}
		if !ok {
			return nil
		}
		src, err := os.ReadFile(p)
		if err != nil {
			return err
		}
		dst, changed := rewrite(rel, src)
		if !changed {
			return nil
		}
		op := filepath.Join(*out, rel)
		os.MkdirAll(filepath.Dir(op), 0o755)
		if err := os.WriteFile(op, dst, 0o644); err != nil {
			return err
		}
		overlay[p] = op
		nfiles++
		return nil
	})
	if err != nil {
		die("%v", err)
	}

	// R5: pkg/sleep assembles on the pinned toolchain.
	sleepDir := filepath.Join(*repo, "pkg/sleep")
	noasm, err := os.ReadFile(filepath.Join(sleepDir, "commit_noasm.go"))
	if err != nil {
		die("pkg/sleep/commit_noasm.go: %v", err)
	}
	var kept []string
	for _, l := range strings.Split(string(noasm), "\n") {
		if strings.HasPrefix(l, "// +build") || strings.HasPrefix(l, "//go:build") {
			continue
		}
		kept = append(kept, l)
	}
	noasmSrc, _ := rewrite("pkg/sleep/commit_noasm.go", []byte(strings.Join(kept, "\n")))
	writeOv(overlay, filepath.Join(sleepDir, "commit_asm.go"), "pkg/sleep/commit_asm.go", noasmSrc)
	writeOv(overlay, filepath.Join(sleepDir, "commit_amd64.s"), "pkg/sleep/commit_amd64.s", []byte("// emptied by instrument (does not assemble on this toolchain)\n"))
	// commit_noasm.go itself is excluded by its own build constraints on amd64; on other
	// platforms drop it to avoid a duplicate definition.
	writeOv(overlay, filepath.Join(sleepDir, "commit_noasm.go"), "pkg/sleep/commit_noasm.go", []byte("package sleep\n"))

	// added files
	if *addDir != "" {
		filepath.Walk(*addDir, func(p string, info os.FileInfo, err error) error {
			if err != nil || info.IsDir() || !strings.HasSuffix(p, ".go.txt") {
				return nil
			}
			rel, _ := filepath.Rel(*addDir, p)
			rel = strings.TrimSuffix(rel, ".txt")
			b, _ := os.ReadFile(p)
			writeOv(overlay, filepath.Join(*repo, rel), rel, b)
			return nil
		})
	}

	keys := make([]string, 0, len(overlay))
	for k := range overlay {
		keys = append(keys, k)
	}
	sort.Strings(keys)
	js, _ := json.MarshalIndent(map[string]interface{}{"Replace": overlay}, "", " ")
	if err := os.WriteFile(filepath.Join(*out, "overlay.json"), js, 0o644); err != nil {
		die("%v", err)
	}
	fmt.Fprintf(os.Stderr, "instrument: %d files rewritten, %d overlay entries\n", nfiles, len(overlay))
}

func writeOv(overlay map[string]string, target, rel string, b []byte) {
	op := filepath.Join(*out, rel)
	os.MkdirAll(filepath.Dir(op), 0o755)
	if err := os.WriteFile(op, b, 0o644); err != nil {
		die("%v", err)
	}
	overlay[target] = op
}

func rewrite(rel string, src []byte) ([]byte, bool) {
	fset := token.NewFileSet()
	f, err := parser.ParseFile(fset, rel, src, parser.ParseComments)
	if err != nil {
		die("%s does not parse: %v", rel, err)
	}
	dir := filepath.Dir(rel)
	off := func(p token.Pos) int { return fset.Position(p).Offset }
	var edits []edit

	imp := map[string]string{
		"log":         "verif/shim/vlog",
		"sync":        "verif/shim/vsync",
		"sync/atomic": "verif/shim/vatomic",
	}
	if timePkgs[dir] {
		imp["time"] = "verif/shim/vtime"
	}
	if dir == "protocol/ports" {
		imp["math/rand"] = "verif/shim/vrand"
	}
	if dir == "pkg/rand" {
		imp["crypto/rand"] = "verif/shim/vcrand"
	}
	for _, is := range f.Imports {
		path := strings.Trim(is.Path.Value, `"`)
		np, ok := imp[path]
		if !ok {
			continue
		}
		name := path[strings.LastIndex(path, "/")+1:]
		if is.Name != nil {
			name = is.Name.Name
		}
		start := off(is.Pos())
		end := off(is.End())
		edits = append(edits, edit{start, end, fmt.Sprintf("%s %q", name, np)})
	}

	if rel == "pkg/sleep/sleep_unsafe.go" {
		found := 0
		for _, d := range f.Decls {
			fd, ok := d.(*ast.FuncDecl)
			if !ok || fd.Body != nil || fd.Recv != nil {
				continue
			}
			if fd.Name.Name == "gopark" || fd.Name.Name == "goready" {
				start := off(fd.Pos())
				if fd.Doc != nil {
					start = off(fd.Doc.Pos())
				}
				edits = append(edits, edit{start, off(fd.End()), blankLines(src[start:off(fd.End())])})
				found++
			}
		}
		if found != 2 {
			die("pkg/sleep/sleep_unsafe.go: expected body-less gopark and goready declarations, found %d", found)
		}
	}

	if rel == "stack/stackinit/init.go" {
		for _, d := range f.Decls {
			if fd, ok := d.(*ast.FuncDecl); ok && fd.Recv == nil && fd.Name.Name == "init" {
				edits = append(edits, edit{off(fd.Name.Pos()), off(fd.Name.End()), "verifDisabledInit"})
			}
		}
	}

	if chanFiles[rel] {
		needImp := false
		comm := map[ast.Stmt]bool{} // communication clauses of select statements stay as they are
		ast.Inspect(f, func(n ast.Node) bool {
			if cc, ok := n.(*ast.CommClause); ok && cc.Comm != nil {
				comm[cc.Comm] = true
			}
			return true
		})
		ast.Inspect(f, func(n ast.Node) bool {
			switch x := n.(type) {
			case *ast.ExprStmt:
				if comm[x] {
					return true
				}
				if u, ok := x.X.(*ast.UnaryExpr); ok && u.Op == token.ARROW {
					edits = append(edits, edit{off(u.Pos()), off(u.X.Pos()), "vchan.RecvDiscard("})
					edits = append(edits, edit{off(u.End()), off(u.End()), ")"})
					needImp = true
				}
			case *ast.SelectStmt:
				edits = append(edits, edit{off(x.Pos()), off(x.Pos()), "vchan.Point(); "})
				needImp = true
			}
			return true
		})
		if needImp {
			// add the import right after the package clause's line
			p := off(f.Name.End())
			edits = append(edits, edit{p, p, `; import vchan "verif/shim/vchan"`})
		}
	}

	if len(edits) == 0 {
		return src, false
	}
	sort.Slice(edits, func(i, j int) bool {
		if edits[i].start != edits[j].start {
			return edits[i].start > edits[j].start
		}
		return edits[i].end > edits[j].end
	})
	b := append([]byte(nil), src...)
	for _, e := range edits {
		b = append(b[:e.start], append([]byte(e.text), b[e.end:]...)...)
	}
	return b, true
}

// blankLines keeps the line count of a removed region.
func blankLines(b []byte) string {
	return strings.Repeat("\n", strings.Count(string(b), "\n"))
}
