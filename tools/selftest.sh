#!/bin/bash
# selftest.sh [pattern] : for each mutants/<PROP>-<name>.patch matching pattern:
#   copy /repo to a scratch dir, apply, run the pinned baseline packages (must pass),
#   run ./check <PROP> quick against the copy (must report VIOLATION), delete the copy.
cd "$(dirname "$0")/.."
# run from a private snapshot of /verif so that concurrent edits cannot break a running self-test
SNAP=$(mktemp -d /tmp/verif-snap-XXXXXX)
rsync -a --exclude .git --exclude replays --exclude evidence --exclude wip ./ "$SNAP/"
cd "$SNAP"
trap 'rm -rf "$SNAP"' EXIT
export GOFLAGS=-mod=mod GOPROXY=off GOSUMDB=off GOTOOLCHAIN=local
PAT=${1:-}
TIER=${SELFTEST_TIER:-quick}
PKGS="pkg/buffer pkg/tmutex pkg/waiter protocol/header protocol/network/fragmentation protocol/ports protocol/transport/tcpconntrack"
pass=0; fail=0
for p in mutants/*${PAT}*.patch; do
  [ -f "$p" ] || continue
  base=$(basename "$p" .patch); prop=${base%%-*}
  D=$(mktemp -d /tmp/verif-mut-XXXXXX)
  rsync -a --exclude .git /repo/ "$D/"
  if ! patch -s -p1 -d "$D" < "$p"; then echo "$base: PATCH-FAILED"; fail=$((fail+1)); rm -rf "$D"; continue; fi
  if [ "${SKIP_BASELINE:-0}" != 1 ]; then
    if ! (cd "$D" && timeout 150 go test -timeout 120s -vet=off -count=1 $(for k in $PKGS; do echo ./$k/; done) >/dev/null 2>&1); then
      echo "$base: BASELINE-FAILS (mutant is not stealthy)"; fail=$((fail+1)); rm -rf "$D"; continue
    fi
  fi
  out=$(VERIF_REPO="$D" VERIF_DIR=$(mktemp -d /tmp/verif-mutdir-XXXXXX) ./check "$prop" $TIER 2>&1); rc=$?
  if [ $rc -eq 1 ] && echo "$out" | grep -q "^VIOLATION property=$prop"; then
    echo "$base: CAUGHT ($(echo "$out" | grep -m1 'kind='| sed 's/^ *//'))"; pass=$((pass+1))
  else
    echo "$base: MISSED rc=$rc"; echo "$out" | tail -5 | sed 's/^/    /'; fail=$((fail+1))
  fi
  rm -rf "$D" /tmp/verif-mutdir-*
done
echo "selftest: caught=$pass not-caught=$fail"
[ $fail -eq 0 ]
