#!/bin/bash
# Builds the framework offline from files on disk and pre-warms the Go build cache.
set -e
cd "$(dirname "$0")"
export GOFLAGS=-mod=mod GOPROXY=off GOSUMDB=off GOTOOLCHAIN=local
mkdir -p bin evidence replays
go build -o bin/instrument ./tools/instrument
# pre-warm: one overlay build of each harness group against the current /repo
SCRATCH=$(mktemp -d "${TMPDIR:-/tmp}/verif-setup-XXXXXX")
trap 'rm -rf "$SCRATCH"' EXIT
REPO=${VERIF_REPO:-/repo}
bin/instrument -repo "$REPO" -out "$SCRATCH/ov" -add "$(pwd)/overlay_add"
sed "s#=> /repo#=> $REPO#" go.mod > "$SCRATCH/go.mod"; : > "$SCRATCH/go.sum"
for g in harness/*/; do
  go build -overlay "$SCRATCH/ov/overlay.json" -modfile "$SCRATCH/go.mod" -o "$SCRATCH/h" ./$g
  go build -race -overlay "$SCRATCH/ov/overlay.json" -modfile "$SCRATCH/go.mod" -o "$SCRATCH/h" ./$g
done
echo "setup ok"
