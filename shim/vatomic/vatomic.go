// Package vatomic mirrors the sync/atomic functions the repository uses; each is a
// schedule point under the cooperative scheduler and the real operation otherwise.
package vatomic

import (
	"sync/atomic"
	"unsafe"

	"verif/shim/vsched"
)

type Value = atomic.Value

func AddInt32(p *int32, d int32) int32         { vsched.Point(); return atomic.AddInt32(p, d) }
func AddInt64(p *int64, d int64) int64         { vsched.Point(); return atomic.AddInt64(p, d) }
func AddUint32(p *uint32, d uint32) uint32     { vsched.Point(); return atomic.AddUint32(p, d) }
func AddUint64(p *uint64, d uint64) uint64     { vsched.Point(); return atomic.AddUint64(p, d) }
func AddUintptr(p *uintptr, d uintptr) uintptr { vsched.Point(); return atomic.AddUintptr(p, d) }

func LoadInt32(p *int32) int32       { vsched.Point(); return atomic.LoadInt32(p) }
func LoadInt64(p *int64) int64       { vsched.Point(); return atomic.LoadInt64(p) }
func LoadUint32(p *uint32) uint32    { vsched.Point(); return atomic.LoadUint32(p) }
func LoadUint64(p *uint64) uint64    { vsched.Point(); return atomic.LoadUint64(p) }
func LoadUintptr(p *uintptr) uintptr { vsched.Point(); return atomic.LoadUintptr(p) }
func LoadPointer(p *unsafe.Pointer) unsafe.Pointer {
	vsched.Point()
	return atomic.LoadPointer(p)
}

func StoreInt32(p *int32, v int32)       { vsched.Point(); atomic.StoreInt32(p, v) }
func StoreInt64(p *int64, v int64)       { vsched.Point(); atomic.StoreInt64(p, v) }
func StoreUint32(p *uint32, v uint32)    { vsched.Point(); atomic.StoreUint32(p, v) }
func StoreUint64(p *uint64, v uint64)    { vsched.Point(); atomic.StoreUint64(p, v) }
func StoreUintptr(p *uintptr, v uintptr) { vsched.Point(); atomic.StoreUintptr(p, v) }
func StorePointer(p *unsafe.Pointer, v unsafe.Pointer) {
	vsched.Point()
	atomic.StorePointer(p, v)
}

func SwapInt32(p *int32, v int32) int32         { vsched.Point(); return atomic.SwapInt32(p, v) }
func SwapInt64(p *int64, v int64) int64         { vsched.Point(); return atomic.SwapInt64(p, v) }
func SwapUint32(p *uint32, v uint32) uint32     { vsched.Point(); return atomic.SwapUint32(p, v) }
func SwapUint64(p *uint64, v uint64) uint64     { vsched.Point(); return atomic.SwapUint64(p, v) }
func SwapUintptr(p *uintptr, v uintptr) uintptr { vsched.Point(); return atomic.SwapUintptr(p, v) }
func SwapPointer(p *unsafe.Pointer, v unsafe.Pointer) unsafe.Pointer {
	vsched.Point()
	return atomic.SwapPointer(p, v)
}

func CompareAndSwapInt32(p *int32, o, n int32) bool {
	vsched.Point()
	return atomic.CompareAndSwapInt32(p, o, n)
}
func CompareAndSwapInt64(p *int64, o, n int64) bool {
	vsched.Point()
	return atomic.CompareAndSwapInt64(p, o, n)
}
func CompareAndSwapUint32(p *uint32, o, n uint32) bool {
	vsched.Point()
	return atomic.CompareAndSwapUint32(p, o, n)
}
func CompareAndSwapUint64(p *uint64, o, n uint64) bool {
	vsched.Point()
	return atomic.CompareAndSwapUint64(p, o, n)
}
func CompareAndSwapUintptr(p *uintptr, o, n uintptr) bool {
	vsched.Point()
	return atomic.CompareAndSwapUintptr(p, o, n)
}
func CompareAndSwapPointer(p *unsafe.Pointer, o, n unsafe.Pointer) bool {
	vsched.Point()
	return atomic.CompareAndSwapPointer(p, o, n)
}
