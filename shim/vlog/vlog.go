// Package vlog replaces "log" in instrumented repository code: printing is dropped
// (the fork logs on every packet), Fatal/Panic become panics so nothing exits silently.
package vlog

import (
	"fmt"
	"io"
	reallog "log"
)

const (
	Ldate         = reallog.Ldate
	Ltime         = reallog.Ltime
	Lmicroseconds = reallog.Lmicroseconds
	Llongfile     = reallog.Llongfile
	Lshortfile    = reallog.Lshortfile
	LUTC          = reallog.LUTC
	LstdFlags     = reallog.LstdFlags
)

type Logger = reallog.Logger

func New(out io.Writer, prefix string, flag int) *Logger {
	return reallog.New(io.Discard, prefix, flag)
}

func Printf(format string, v ...interface{}) {}
func Println(v ...interface{})               {}
func Print(v ...interface{})                 {}
func SetFlags(int)                           {}
func SetPrefix(string)                       {}
func SetOutput(io.Writer)                    {}
func Fatal(v ...interface{})                 { panic("log.Fatal: " + fmt.Sprint(v...)) }
func Fatalf(f string, v ...interface{})      { panic("log.Fatal: " + fmt.Sprintf(f, v...)) }
func Fatalln(v ...interface{})               { panic("log.Fatal: " + fmt.Sprintln(v...)) }
func Panic(v ...interface{})                 { panic(fmt.Sprint(v...)) }
func Panicf(f string, v ...interface{})      { panic(fmt.Sprintf(f, v...)) }
func Panicln(v ...interface{})               { panic(fmt.Sprintln(v...)) }
