// Package vsched is the cooperative scheduler under which instrumented repository code
// runs when a coop exploration is active. Exactly one registered thread runs at a time;
// every hooked synchronisation operation calls Point (a scheduling decision) or Block
// (the thread is disabled until its predicate holds). When no exploration is active all
// entry points are no-ops, so the same instrumented build runs free as well.
package vsched

import (
	"fmt"
	"runtime/debug"
	"sync/atomic"
	"time"
)

// HangTimeout is how long Run waits (real time) for an execution that normally takes
// microseconds; exceeding it means some thread blocked outside the scheduler's control.
var HangTimeout = 30 * time.Second

// Outcome of one controlled execution.
type Outcome int

const (
	OK Outcome = iota
	Deadlock
	Livelock
	Panicked
	Diverged
	Hung
)

func (o Outcome) String() string {
	return [...]string{"ok", "deadlock", "livelock", "panic", "diverged", "hung"}[o]
}

// PointRec records one decision at which more than one thread was enabled.
type PointRec struct {
	Enabled        []int // thread ids in canonical order (running first if enabled)
	Chosen         int   // index into Enabled
	RunningEnabled bool
	Step           int
}

type Thread struct {
	ID      int
	wake    chan struct{}
	exited  chan struct{}
	pred    func() bool
	done    bool
	started bool
	Why     string // what it is blocked on (diagnostics)
	// Obs accumulates a hash of values returned to this thread by hooked operations
	// since the last ResetObs; used for state keys.
	Obs uint64
	Op  int
	// Blocks counts how often the thread was disabled (Block called with a false predicate).
	Blocks int
}

type Sched struct {
	threads   []*Thread
	running   *Thread
	prefix    []int
	Points    []PointRec
	Steps     int
	MaxSteps  int
	fin       chan struct{}
	finished  bool
	unwinding bool
	Outcome   Outcome
	Detail    string
	Blocked   []string
	// Prune, if set, is called at every multi-way decision point before choosing; if it
	// returns true the execution is cut here (outcome OK, Cut=true).
	Prune func(s *Sched) bool
	Cut   bool
	// Trace of thread ids at each step (only if KeepTrace).
	KeepTrace bool
	Trace     []int
}

var (
	active atomic.Bool
	cur    *Sched
)

// Active reports whether a controlled execution is in progress.
func Active() bool { return active.Load() }

// Cur returns the scheduler of the running execution (nil if none).
func Cur() *Sched { return cur }

// Self returns the running thread (nil if no exploration is active).
func Self() *Thread {
	if cur == nil {
		return nil
	}
	return cur.running
}

// Run executes body as thread 0 under the scheduler, replaying prefix at the first
// len(prefix) multi-way decisions and taking choice 0 afterwards.
func Run(prefix []int, maxSteps int, prune func(*Sched) bool, keepTrace bool, body func()) *Sched {
	if active.Load() {
		panic("vsched: nested Run")
	}
	s := &Sched{prefix: prefix, MaxSteps: maxSteps, fin: make(chan struct{}), Prune: prune, KeepTrace: keepTrace}
	cur = s
	active.Store(true)
	t0 := s.newThread()
	s.running = t0
	go s.threadMain(t0, body)
	t0.wake <- struct{}{}
	select {
	case <-s.fin:
	case <-time.After(HangTimeout):
		// threads of this execution are stuck in a real blocking operation; the process
		// cannot run further executions (caller must exit after reporting)
		s.Outcome = Hung
		s.Detail = "execution did not finish: a thread blocked in an operation the scheduler does not control (e.g. a blocking channel send)"
		return s
	}
	s.unwinding = true
	// Unwind every thread that has not finished, one at a time, so that nothing of this
	// execution is still running when the next one starts.
	for i := 0; i < len(s.threads); i++ {
		t := s.threads[i]
		select {
		case <-t.exited:
		default:
			t.wake <- struct{}{}
			<-t.exited
		}
	}
	active.Store(false)
	cur = nil
	return s
}

func (s *Sched) newThread() *Thread {
	t := &Thread{ID: len(s.threads), wake: make(chan struct{}, 1), exited: make(chan struct{})}
	s.threads = append(s.threads, t)
	return t
}

func (s *Sched) threadMain(t *Thread, fn func()) {
	defer close(t.exited)
	<-t.wake
	if s.finished {
		return
	}
	t.started = true
	defer func() {
		if r := recover(); r != nil {
			if _, ok := r.(abortExec); ok {
				return
			}
			t.done = true
			s.finish(Panicked, fmt.Sprintf("thread %d: %v\n%s", t.ID, r, debug.Stack()))
			return
		}
		t.done = true
		s.reschedule(t)
	}()
	fn()
}

type abortExec struct{}

// Go starts fn as a new scheduler thread (enabled immediately; it first runs when chosen).
func Go(fn func()) *Thread {
	s := cur
	if s == nil {
		panic("vsched.Go outside Run")
	}
	t := s.newThread()
	go s.threadMain(t, fn)
	return t
}

// Done reports whether thread t has finished.
func (t *Thread) Done() bool { return t.done }

// Join blocks the calling thread until all given threads have finished.
func Join(ts ...*Thread) {
	Block("join", func() bool {
		for _, t := range ts {
			if !t.done {
				return false
			}
		}
		return true
	})
}

// Point is a scheduling decision: any enabled thread may run next.
func Point() {
	s := cur
	if s == nil {
		return
	}
	s.reschedule(s.running)
}

// Block disables the calling thread until pred() holds. pred is evaluated by the
// scheduler at decisions; it must be a pure function of shared state.
func Block(why string, pred func() bool) {
	s := cur
	if s == nil {
		panic("vsched.Block outside Run: " + why)
	}
	t := s.running
	t.pred = pred
	t.Why = why
	if !pred() {
		t.Blocks++
	}
	s.reschedule(t)
	t.pred = nil
	t.Why = ""
}

// Observe mixes a value returned by a hooked operation into the thread's observation hash.
func Observe(v uint64) {
	if s := cur; s != nil {
		t := s.running
		t.Obs = (t.Obs ^ v) * 1099511628211
		t.Obs ^= t.Obs >> 29
	}
}

func (t *Thread) enabled() bool {
	if t.done {
		return false
	}
	return t.pred == nil || t.pred()
}

func (s *Sched) finish(o Outcome, detail string) {
	if s.finished {
		return
	}
	s.finished = true
	s.Outcome = o
	s.Detail = detail
	close(s.fin)
}

// reschedule decides who runs next; from is the thread making the call (it may be
// done or blocked). Returns when from is chosen to continue.
func (s *Sched) reschedule(from *Thread) {
	if s.finished {
		// execution already over (panic elsewhere / cut): park this goroutine forever
		s.park(from)
		return
	}
	s.Steps++
	if s.MaxSteps > 0 && s.Steps > s.MaxSteps {
		s.finish(Livelock, fmt.Sprintf("more than %d steps", s.MaxSteps))
		s.park(from)
		return
	}
	var en []*Thread
	fromEnabled := from.enabled()
	if fromEnabled {
		en = append(en, from)
	}
	for _, t := range s.threads {
		if t != from && t.enabled() {
			en = append(en, t)
		}
	}
	if len(en) == 0 {
		all := true
		for _, t := range s.threads {
			if !t.done {
				all = false
				s.Blocked = append(s.Blocked, fmt.Sprintf("thread %d blocked on %s", t.ID, t.Why))
			}
		}
		if all {
			s.finish(OK, "")
		} else {
			s.finish(Deadlock, fmt.Sprint(s.Blocked))
		}
		s.park(from)
		return
	}
	next := en[0]
	if len(en) > 1 {
		if s.Prune != nil && s.Prune(s) {
			s.Cut = true
			s.finish(OK, "cut")
			s.park(from)
			return
		}
		i := len(s.Points)
		c := 0
		if i < len(s.prefix) {
			c = s.prefix[i]
			if c < 0 || c >= len(en) {
				s.finish(Diverged, fmt.Sprintf("replay choice %d at point %d out of range %d", c, i, len(en)))
				s.park(from)
				return
			}
		}
		ids := make([]int, len(en))
		for k, t := range en {
			ids[k] = t.ID
		}
		s.Points = append(s.Points, PointRec{Enabled: ids, Chosen: c, RunningEnabled: fromEnabled, Step: s.Steps})
		next = en[c]
	}
	if s.KeepTrace {
		s.Trace = append(s.Trace, next.ID)
	}
	if next == from {
		return
	}
	s.running = next
	next.wake <- struct{}{}
	if from.done {
		return
	}
	<-from.wake
	if s.finished {
		panic(abortExec{})
	}
}

// park is where a thread waits once the execution is over; Run wakes it to unwind.
func (s *Sched) park(from *Thread) {
	if from.done {
		return
	}
	if !s.unwinding {
		<-from.wake
	}
	panic(abortExec{})
}

// Threads returns the threads created so far.
func (s *Sched) Threads() []*Thread { return s.threads }

// Choices returns the choice made at every recorded point.
func (s *Sched) Choices() []int {
	c := make([]int, len(s.Points))
	for i, p := range s.Points {
		c[i] = p.Chosen
	}
	return c
}

// Blocked reports whether t is currently disabled.
func (t *Thread) BlockedNow() bool { return !t.done && t.pred != nil && !t.pred() }
