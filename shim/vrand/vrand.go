// Package vrand replaces "math/rand" in protocol/ports: the harness chooses the value
// Int31n returns (enumerated, not drawn). Unset, it behaves like math/rand.
package vrand

import (
	"math/rand"
	"sync/atomic"
)

var (
	forced atomic.Int64 // -1 = not forced
)

func init() { forced.Store(-1) }

// Force makes the next and all later Int31n(n) calls return v % n; Force(-1) turns it off.
func Force(v int64) { forced.Store(v) }

func Int31n(n int32) int32 {
	if v := forced.Load(); v >= 0 {
		return int32(v % int64(n))
	}
	return rand.Int31n(n)
}
func Intn(n int) int {
	if v := forced.Load(); v >= 0 {
		return int(v % int64(n))
	}
	return rand.Intn(n)
}
func Int() int         { return rand.Int() }
func Int31() int32     { return rand.Int31() }
func Int63() int64     { return rand.Int63() }
func Uint32() uint32   { return rand.Uint32() }
func Seed(s int64)     { rand.Seed(s) }
func Float64() float64 { return rand.Float64() }
