// Package vsync mirrors the parts of package sync the repository uses. Under the
// cooperative scheduler, acquiring operations are schedule points and blocking is modelled
// (the thread is disabled until the lock is free); otherwise the real primitive is used.
package vsync

import (
	"sync"

	"verif/shim/vsched"
)

type (
	Pool   = sync.Pool
	Once   = sync.Once
	Locker = sync.Locker
	Map    = sync.Map
)

type Mutex struct {
	mu   sync.Mutex
	held bool
}

func (m *Mutex) Lock() {
	if !vsched.Active() {
		m.mu.Lock()
		return
	}
	vsched.Point()
	if m.held {
		vsched.Block("mutex", func() bool { return !m.held })
	}
	m.held = true
}

func (m *Mutex) Unlock() {
	if !vsched.Active() {
		m.mu.Unlock()
		return
	}
	if !m.held {
		panic("vsync: unlock of unlocked mutex")
	}
	m.held = false
}

type RWMutex struct {
	mu sync.RWMutex
	w  bool
	r  int
}

func (m *RWMutex) Lock() {
	if !vsched.Active() {
		m.mu.Lock()
		return
	}
	vsched.Point()
	if m.w || m.r > 0 {
		vsched.Block("rwmutex.Lock", func() bool { return !m.w && m.r == 0 })
	}
	m.w = true
}

func (m *RWMutex) Unlock() {
	if !vsched.Active() {
		m.mu.Unlock()
		return
	}
	if !m.w {
		panic("vsync: unlock of unlocked rwmutex")
	}
	m.w = false
}

func (m *RWMutex) RLock() {
	if !vsched.Active() {
		m.mu.RLock()
		return
	}
	vsched.Point()
	if m.w {
		vsched.Block("rwmutex.RLock", func() bool { return !m.w })
	}
	m.r++
}

func (m *RWMutex) RUnlock() {
	if !vsched.Active() {
		m.mu.RUnlock()
		return
	}
	if m.r <= 0 {
		panic("vsync: runlock of unlocked rwmutex")
	}
	m.r--
}

func (m *RWMutex) RLocker() sync.Locker { return rlocker{m} }

type rlocker struct{ m *RWMutex }

func (r rlocker) Lock()   { r.m.RLock() }
func (r rlocker) Unlock() { r.m.RUnlock() }

type WaitGroup struct {
	wg sync.WaitGroup
	n  int
}

func (w *WaitGroup) Add(d int) {
	if !vsched.Active() {
		w.wg.Add(d)
		return
	}
	vsched.Point()
	w.n += d
	if w.n < 0 {
		panic("vsync: negative WaitGroup counter")
	}
}

func (w *WaitGroup) Done() { w.Add(-1) }

func (w *WaitGroup) Wait() {
	if !vsched.Active() {
		w.wg.Wait()
		return
	}
	vsched.Point()
	if w.n != 0 {
		vsched.Block("waitgroup", func() bool { return w.n == 0 })
	}
}
