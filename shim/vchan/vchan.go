// Package vchan makes the blocking channel receive used by pkg/tmutex visible to the
// cooperative scheduler: "wait until the buffered channel is non-empty, then receive".
package vchan

import "verif/shim/vsched"

// RecvDiscard replaces the statement `<-ch`.
func RecvDiscard(ch chan struct{}) {
	if !vsched.Active() {
		<-ch
		return
	}
	vsched.Point()
	if len(ch) == 0 {
		vsched.Block("chan receive", func() bool { return len(ch) > 0 })
	}
	<-ch
}

// Point is inserted before select statements in hooked files.
func Point() { vsched.Point() }
