// Package vcrand replaces "crypto/rand" in pkg/rand: the harness supplies the byte
// stream (initial sequence numbers, timestamp offsets, cookie nonces, hash IV) so runs
// are reproducible and chosen values can be enumerated.
package vcrand

import (
	crand "crypto/rand"
	"io"
	"sync"
)

type src struct{}

var (
	mu     sync.Mutex
	script func(n int) []byte // returns n bytes; nil = real randomness
)

// Reader mirrors crypto/rand.Reader.
var Reader io.Reader = src{}

// SetSource installs f as the source of all "random" bytes (nil restores the real one).
func SetSource(f func(n int) []byte) { mu.Lock(); script = f; mu.Unlock() }

func (src) Read(p []byte) (int, error) {
	mu.Lock()
	f := script
	mu.Unlock()
	if f == nil {
		return crand.Read(p)
	}
	copy(p, f(len(p)))
	return len(p), nil
}

func Read(p []byte) (int, error) { return Reader.Read(p) }
