// Package vtime replaces "time" in instrumented repository packages. In pass-through mode
// it is the real clock; in virtual mode the harness owns the clock: Now is a harness
// variable and timers fire only when the harness fires them.
package vtime

import (
	"sort"
	"sync"
	"time"
)

type (
	Time     = time.Time
	Duration = time.Duration
	Month    = time.Month
	Location = time.Location
)

const (
	Nanosecond  = time.Nanosecond
	Microsecond = time.Microsecond
	Millisecond = time.Millisecond
	Second      = time.Second
	Minute      = time.Minute
	Hour        = time.Hour
)

var (
	mu      sync.Mutex
	virtual bool
	now     time.Time
	timers  []*vt
	seq     uint64
	// Fired counts timers fired in virtual mode (coverage metric).
	Fired uint64
)

type vt struct {
	when   time.Time
	seq    uint64
	f      func()
	ch     chan Time
	active bool
}

// Timer mirrors time.Timer.
type Timer struct {
	C    <-chan Time
	real *time.Timer
	v    *vt
}

// Base is the virtual epoch.
var Base = time.Unix(1_500_000_000, 0)

// EnableVirtual switches to virtual mode, clock at Base, no timers.
func EnableVirtual() {
	mu.Lock()
	virtual = true
	now = Base
	timers = nil
	mu.Unlock()
}

// DisableVirtual returns to the real clock (pending virtual timers are dropped).
func DisableVirtual() {
	mu.Lock()
	virtual = false
	timers = nil
	mu.Unlock()
}

func IsVirtual() bool { mu.Lock(); defer mu.Unlock(); return virtual }

func Now() Time {
	mu.Lock()
	defer mu.Unlock()
	if !virtual {
		return time.Now()
	}
	return now
}

func Since(t Time) Duration { return Now().Sub(t) }
func Until(t Time) Duration { return t.Sub(Now()) }
func Unix(s, ns int64) Time { return time.Unix(s, ns) }
func Date(y int, m Month, d, h, mi, s, ns int, l *Location) Time {
	return time.Date(y, m, d, h, mi, s, ns, l)
}
func LoadLocation(n string) (*Location, error) { return time.LoadLocation(n) }

func addTimer(d Duration, f func(), ch chan Time) *vt {
	// caller holds mu
	seq++
	if d < 0 {
		d = 0
	}
	t := &vt{when: now.Add(d), seq: seq, f: f, ch: ch, active: true}
	timers = append(timers, t)
	return t
}

func removeTimer(t *vt) bool {
	was := t.active
	t.active = false
	for i, x := range timers {
		if x == t {
			timers = append(timers[:i], timers[i+1:]...)
			break
		}
	}
	return was
}

func AfterFunc(d Duration, f func()) *Timer {
	mu.Lock()
	defer mu.Unlock()
	if !virtual {
		return &Timer{real: time.AfterFunc(d, f)}
	}
	return &Timer{v: addTimer(d, f, nil)}
}

func NewTimer(d Duration) *Timer {
	mu.Lock()
	defer mu.Unlock()
	if !virtual {
		r := time.NewTimer(d)
		return &Timer{real: r, C: r.C}
	}
	ch := make(chan Time, 1)
	return &Timer{v: addTimer(d, nil, ch), C: ch}
}

func After(d Duration) <-chan Time { return NewTimer(d).C }

func Sleep(d Duration) {
	if !IsVirtual() {
		time.Sleep(d)
		return
	}
	<-After(d)
}

func (t *Timer) Stop() bool {
	if t.real != nil {
		return t.real.Stop()
	}
	mu.Lock()
	defer mu.Unlock()
	return removeTimer(t.v)
}

func (t *Timer) Reset(d Duration) bool {
	if t.real != nil {
		return t.real.Reset(d)
	}
	mu.Lock()
	defer mu.Unlock()
	was := removeTimer(t.v)
	seq++
	if d < 0 {
		d = 0
	}
	t.v.when = now.Add(d)
	t.v.seq = seq
	t.v.active = true
	timers = append(timers, t.v)
	return was
}

// ---- harness side ----

func sorted() []*vt {
	s := append([]*vt(nil), timers...)
	sort.Slice(s, func(i, j int) bool {
		if !s[i].when.Equal(s[j].when) {
			return s[i].when.Before(s[j].when)
		}
		return s[i].seq < s[j].seq
	})
	return s
}

// Pending returns the offsets from the current virtual time of all pending timers, ascending.
func Pending() []Duration {
	mu.Lock()
	defer mu.Unlock()
	var r []Duration
	for _, t := range sorted() {
		r = append(r, t.when.Sub(now))
	}
	return r
}

// Elapsed is the virtual time since Base.
func Elapsed() Duration { mu.Lock(); defer mu.Unlock(); return now.Sub(Base) }

// FireNext advances the clock to the earliest pending timer (never backwards) and fires
// it: the callback runs synchronously in the caller, a channel timer gets its tick.
// Returns false if no timer is pending.
func FireNext() bool {
	mu.Lock()
	s := sorted()
	if len(s) == 0 {
		mu.Unlock()
		return false
	}
	t := s[0]
	removeTimer(t)
	if t.when.After(now) {
		now = t.when
	}
	Fired++
	f, ch, at := t.f, t.ch, now
	mu.Unlock()
	if f != nil {
		f()
	}
	if ch != nil {
		select {
		case ch <- at:
		default:
		}
	}
	return true
}

// Advance moves the virtual clock forward by d without firing anything.
func Advance(d Duration) {
	mu.Lock()
	now = now.Add(d)
	mu.Unlock()
}
