module verif

go 1.23

require github.com/brewlin/net-protocol v0.0.0

replace github.com/brewlin/net-protocol => /repo
