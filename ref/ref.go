// Package ref is the independent protocol reference used by the oracles: decoders,
// validators and encoders written from the RFC layouts with encoding/binary only. It
// never imports the repository's header package, so an encoding bug there cannot cancel
// out against the oracle.
package ref

import (
	"encoding/binary"
	"errors"
	"fmt"
)

var be = binary.BigEndian

// ---------- RFC 1071 ----------

// Sum returns the 16-bit one's-complement sum of b (odd trailing byte padded with a zero
// low byte), starting from init.
func Sum(b []byte, init uint16) uint16 {
	s := uint64(init)
	for i := 0; i+1 < len(b); i += 2 {
		s += uint64(b[i])<<8 | uint64(b[i+1])
	}
	if len(b)%2 == 1 {
		s += uint64(b[len(b)-1]) << 8
	}
	for s>>16 != 0 {
		s = s&0xffff + s>>16
	}
	return uint16(s)
}

// Combine is one's-complement addition of two 16-bit sums.
func Combine(a, b uint16) uint16 {
	s := uint32(a) + uint32(b)
	for s>>16 != 0 {
		s = s&0xffff + s>>16
	}
	return uint16(s)
}

// PseudoSum is the one's-complement sum of the IPv4/IPv6 pseudo header.
func PseudoSum(src, dst []byte, proto uint8, length uint32) uint16 {
	s := Sum(src, 0)
	s = Sum(dst, s)
	var t [8]byte
	be.PutUint32(t[0:], length)
	t[7] = proto
	return Sum(t[:], s)
}

// ---------- Ethernet / ARP ----------

const (
	EtherIPv4 = 0x0800
	EtherARP  = 0x0806
	EtherIPv6 = 0x86dd
)

type Eth struct {
	Dst, Src [6]byte
	Type     uint16
	Payload  []byte
}

func ParseEth(b []byte) (Eth, error) {
	var e Eth
	if len(b) < 14 {
		return e, fmt.Errorf("ethernet frame of %d bytes", len(b))
	}
	copy(e.Dst[:], b[0:6])
	copy(e.Src[:], b[6:12])
	e.Type = be.Uint16(b[12:])
	e.Payload = b[14:]
	return e, nil
}

func BuildEth(dst, src []byte, typ uint16, payload []byte) []byte {
	b := make([]byte, 14+len(payload))
	copy(b[0:6], dst)
	copy(b[6:12], src)
	be.PutUint16(b[12:], typ)
	copy(b[14:], payload)
	return b
}

type ARP struct {
	HType, PType uint16
	HLen, PLen   uint8
	Op           uint16
	SHA          [6]byte
	SPA          [4]byte
	THA          [6]byte
	TPA          [4]byte
}

func ParseARP(b []byte) (ARP, error) {
	var a ARP
	if len(b) < 28 {
		return a, fmt.Errorf("ARP packet of %d bytes", len(b))
	}
	a.HType, a.PType = be.Uint16(b[0:]), be.Uint16(b[2:])
	a.HLen, a.PLen = b[4], b[5]
	a.Op = be.Uint16(b[6:])
	if a.HType != 1 || a.PType != EtherIPv4 || a.HLen != 6 || a.PLen != 4 {
		return a, fmt.Errorf("ARP not IPv4-over-Ethernet: htype %d ptype %#x hlen %d plen %d", a.HType, a.PType, a.HLen, a.PLen)
	}
	copy(a.SHA[:], b[8:14])
	copy(a.SPA[:], b[14:18])
	copy(a.THA[:], b[18:24])
	copy(a.TPA[:], b[24:28])
	return a, nil
}

func BuildARP(op uint16, sha, spa, tha, tpa []byte) []byte {
	b := make([]byte, 28)
	be.PutUint16(b[0:], 1)
	be.PutUint16(b[2:], EtherIPv4)
	b[4], b[5] = 6, 4
	be.PutUint16(b[6:], op)
	copy(b[8:14], sha)
	copy(b[14:18], spa)
	copy(b[18:24], tha)
	copy(b[24:28], tpa)
	return b
}

// ---------- IPv4 ----------

type IPv4 struct {
	IHL      int
	TOS      uint8
	TotalLen int
	ID       uint16
	Flags    uint8 // 3 bits: bit1 = DF, bit0 = MF (as in the 3-bit field: 0b010 DF, 0b001 MF)
	FragOff  int   // in bytes
	TTL      uint8
	Proto    uint8
	Checksum uint16
	Src, Dst [4]byte
	Options  []byte
	Payload  []byte
}

func (h IPv4) MF() bool { return h.Flags&1 != 0 }
func (h IPv4) DF() bool { return h.Flags&2 != 0 }

// ParseIPv4 validates version, header length, total length against the actual packet
// length (exact=true demands equality, as for packets the stack emits) and the header checksum.
func ParseIPv4(b []byte, exact bool) (IPv4, error) {
	var h IPv4
	if len(b) < 20 {
		return h, fmt.Errorf("IPv4 packet of %d bytes", len(b))
	}
	if b[0]>>4 != 4 {
		return h, fmt.Errorf("IPv4 version field %d", b[0]>>4)
	}
	h.IHL = int(b[0]&15) * 4
	if h.IHL < 20 || h.IHL > len(b) {
		return h, fmt.Errorf("IPv4 header length %d (packet %d)", h.IHL, len(b))
	}
	h.TOS = b[1]
	h.TotalLen = int(be.Uint16(b[2:]))
	h.ID = be.Uint16(b[4:])
	ff := be.Uint16(b[6:])
	h.Flags = uint8(ff >> 13)
	h.FragOff = int(ff&0x1fff) * 8
	h.TTL, h.Proto = b[8], b[9]
	h.Checksum = be.Uint16(b[10:])
	copy(h.Src[:], b[12:16])
	copy(h.Dst[:], b[16:20])
	h.Options = b[20:h.IHL]
	if h.TotalLen < h.IHL || h.TotalLen > len(b) || (exact && h.TotalLen != len(b)) {
		return h, fmt.Errorf("IPv4 total length %d, header %d, actual packet %d bytes", h.TotalLen, h.IHL, len(b))
	}
	if Sum(b[:h.IHL], 0) != 0xffff {
		return h, fmt.Errorf("IPv4 header checksum %#04x does not verify", h.Checksum)
	}
	h.Payload = b[h.IHL:h.TotalLen]
	return h, nil
}

// BuildIPv4 builds a packet with a correct header checksum. flags is the 3-bit field.
func BuildIPv4(src, dst []byte, proto uint8, id uint16, flags uint8, fragOffBytes int, ttl uint8, payload []byte) []byte {
	b := make([]byte, 20+len(payload))
	b[0] = 0x45
	be.PutUint16(b[2:], uint16(len(b)))
	be.PutUint16(b[4:], id)
	be.PutUint16(b[6:], uint16(flags)<<13|uint16(fragOffBytes/8))
	b[8], b[9] = ttl, proto
	copy(b[12:16], src)
	copy(b[16:20], dst)
	be.PutUint16(b[10:], ^Sum(b[:20], 0))
	copy(b[20:], payload)
	return b
}

// FixIPv4Checksum recomputes the header checksum in place (after a field mutation).
func FixIPv4Checksum(b []byte) {
	ihl := int(b[0]&15) * 4
	if ihl < 20 || ihl > len(b) {
		return
	}
	b[10], b[11] = 0, 0
	be.PutUint16(b[10:], ^Sum(b[:ihl], 0))
}

// ---------- IPv6 ----------

type IPv6 struct {
	TrafficClass uint8
	FlowLabel    uint32
	PayloadLen   int
	NextHeader   uint8
	HopLimit     uint8
	Src, Dst     [16]byte
	Payload      []byte
}

func ParseIPv6(b []byte, exact bool) (IPv6, error) {
	var h IPv6
	if len(b) < 40 {
		return h, fmt.Errorf("IPv6 packet of %d bytes", len(b))
	}
	if b[0]>>4 != 6 {
		return h, fmt.Errorf("IPv6 version field %d", b[0]>>4)
	}
	w := be.Uint32(b[0:])
	h.TrafficClass = uint8(w >> 20)
	h.FlowLabel = w & 0xfffff
	h.PayloadLen = int(be.Uint16(b[4:]))
	h.NextHeader, h.HopLimit = b[6], b[7]
	copy(h.Src[:], b[8:24])
	copy(h.Dst[:], b[24:40])
	if 40+h.PayloadLen > len(b) || (exact && 40+h.PayloadLen != len(b)) {
		return h, fmt.Errorf("IPv6 payload length %d, actual %d", h.PayloadLen, len(b)-40)
	}
	h.Payload = b[40 : 40+h.PayloadLen]
	return h, nil
}

func BuildIPv6(src, dst []byte, next uint8, hop uint8, payload []byte) []byte {
	b := make([]byte, 40+len(payload))
	b[0] = 0x60
	be.PutUint16(b[4:], uint16(len(payload)))
	b[6], b[7] = next, hop
	copy(b[8:24], src)
	copy(b[24:40], dst)
	copy(b[40:], payload)
	return b
}

type IPv6Frag struct {
	NextHeader uint8
	Offset     int // bytes
	More       bool
	ID         uint32
	Payload    []byte
}

func ParseIPv6Frag(b []byte) (IPv6Frag, error) {
	var f IPv6Frag
	if len(b) < 8 {
		return f, errors.New("short IPv6 fragment header")
	}
	f.NextHeader = b[0]
	w := be.Uint16(b[2:])
	f.Offset = int(w>>3) * 8
	f.More = w&1 != 0
	f.ID = be.Uint32(b[4:])
	f.Payload = b[8:]
	return f, nil
}

func BuildIPv6Frag(next uint8, offBytes int, more bool, id uint32, payload []byte) []byte {
	b := make([]byte, 8+len(payload))
	b[0] = next
	w := uint16(offBytes/8) << 3
	if more {
		w |= 1
	}
	be.PutUint16(b[2:], w)
	be.PutUint32(b[4:], id)
	copy(b[8:], payload)
	return b
}

// ---------- ICMP ----------

const (
	ProtoICMP   = 1
	ProtoTCP    = 6
	ProtoUDP    = 17
	ProtoICMPv6 = 58
	ProtoFrag6  = 44
)

type ICMP struct {
	Type, Code uint8
	Checksum   uint16
	Ident, Seq uint16 // echo
	Rest       []byte // bytes after the first 4
	Data       []byte // echo payload (after ident/seq)
}

func ParseICMPv4(b []byte) (ICMP, error) {
	var m ICMP
	if len(b) < 4 {
		return m, fmt.Errorf("ICMP message of %d bytes", len(b))
	}
	m.Type, m.Code, m.Checksum = b[0], b[1], be.Uint16(b[2:])
	if Sum(b, 0) != 0xffff {
		return m, fmt.Errorf("ICMPv4 checksum %#04x does not verify", m.Checksum)
	}
	m.Rest = b[4:]
	if (m.Type == 8 || m.Type == 0) && len(b) >= 8 {
		m.Ident, m.Seq = be.Uint16(b[4:]), be.Uint16(b[6:])
		m.Data = b[8:]
	} else if m.Type == 8 || m.Type == 0 {
		return m, fmt.Errorf("ICMPv4 echo of %d bytes", len(b))
	}
	return m, nil
}

func BuildICMPv4Echo(typ uint8, ident, seq uint16, data []byte) []byte {
	b := make([]byte, 8+len(data))
	b[0] = typ
	be.PutUint16(b[4:], ident)
	be.PutUint16(b[6:], seq)
	copy(b[8:], data)
	be.PutUint16(b[2:], ^Sum(b, 0))
	return b
}

// BuildICMPv4Error builds a type/code message carrying rest(4 bytes)+quoted packet.
func BuildICMPv4Error(typ, code uint8, rest uint32, quoted []byte) []byte {
	b := make([]byte, 8+len(quoted))
	b[0], b[1] = typ, code
	be.PutUint32(b[4:], rest)
	copy(b[8:], quoted)
	be.PutUint16(b[2:], ^Sum(b, 0))
	return b
}

func ParseICMPv6(b []byte, src, dst []byte) (ICMP, error) {
	var m ICMP
	if len(b) < 4 {
		return m, fmt.Errorf("ICMPv6 message of %d bytes", len(b))
	}
	m.Type, m.Code, m.Checksum = b[0], b[1], be.Uint16(b[2:])
	if Sum(b, PseudoSum(src, dst, ProtoICMPv6, uint32(len(b)))) != 0xffff {
		return m, fmt.Errorf("ICMPv6 checksum %#04x does not verify", m.Checksum)
	}
	m.Rest = b[4:]
	if m.Type == 128 || m.Type == 129 {
		if len(b) < 8 {
			return m, fmt.Errorf("ICMPv6 echo of %d bytes", len(b))
		}
		m.Ident, m.Seq = be.Uint16(b[4:]), be.Uint16(b[6:])
		m.Data = b[8:]
	}
	return m, nil
}

func BuildICMPv6(typ, code uint8, body []byte, src, dst []byte) []byte {
	b := make([]byte, 4+len(body))
	b[0], b[1] = typ, code
	copy(b[4:], body)
	be.PutUint16(b[2:], ^Sum(b, PseudoSum(src, dst, ProtoICMPv6, uint32(len(b)))))
	return b
}

func BuildICMPv6Echo(typ uint8, ident, seq uint16, data []byte, src, dst []byte) []byte {
	body := make([]byte, 4+len(data))
	be.PutUint16(body[0:], ident)
	be.PutUint16(body[2:], seq)
	copy(body[4:], data)
	return BuildICMPv6(typ, 0, body, src, dst)
}

// ---------- UDP ----------

type UDP struct {
	SrcPort, DstPort uint16
	Length           int
	Checksum         uint16
	Payload          []byte
}

// ParseUDP validates the length field against the actual length and the checksum with
// pseudo header. v6: checksum 0 is illegal (RFC 8200 8.1); v4: 0 means "none".
func ParseUDP(b []byte, src, dst []byte, v6 bool) (UDP, error) {
	var u UDP
	if len(b) < 8 {
		return u, fmt.Errorf("UDP datagram of %d bytes", len(b))
	}
	u.SrcPort, u.DstPort = be.Uint16(b[0:]), be.Uint16(b[2:])
	u.Length = int(be.Uint16(b[4:]))
	u.Checksum = be.Uint16(b[6:])
	if u.Length != len(b) {
		return u, fmt.Errorf("UDP length field %d, actual %d", u.Length, len(b))
	}
	u.Payload = b[8:]
	if u.Checksum == 0 {
		if v6 {
			return u, errors.New("UDP over IPv6 with checksum field 0 (RFC 8200 8.1 forbids)")
		}
		return u, nil
	}
	if Sum(b, PseudoSum(src, dst, ProtoUDP, uint32(len(b)))) != 0xffff {
		return u, fmt.Errorf("UDP checksum %#04x does not verify", u.Checksum)
	}
	return u, nil
}

func BuildUDP(sport, dport uint16, payload []byte, src, dst []byte) []byte {
	b := make([]byte, 8+len(payload))
	be.PutUint16(b[0:], sport)
	be.PutUint16(b[2:], dport)
	be.PutUint16(b[4:], uint16(len(b)))
	copy(b[8:], payload)
	c := ^Sum(b, PseudoSum(src, dst, ProtoUDP, uint32(len(b))))
	if c == 0 {
		c = 0xffff
	}
	be.PutUint16(b[6:], c)
	return b
}

// ---------- TCP ----------

const (
	FIN = 1
	SYN = 2
	RST = 4
	PSH = 8
	ACK = 16
	URG = 32
)

type SACKBlock struct{ Start, End uint32 }

type TCPOpts struct {
	HasMSS    bool
	MSS       uint16
	HasWS     bool
	WS        uint8
	SACKPerm  bool
	HasTS     bool
	TSVal     uint32
	TSEcr     uint32
	SACK      []SACKBlock
	Unknown   []uint8
	Malformed string // non-empty if the option area is not well-formed
}

type TCP struct {
	SrcPort, DstPort uint16
	Seq, Ack         uint32
	DataOff          int
	Flags            uint8
	Window           uint16
	Checksum         uint16
	Urgent           uint16
	RawOpts          []byte
	Opts             TCPOpts
	Payload          []byte
}

// SegLen is the sequence space the segment occupies (payload + SYN + FIN).
func (t TCP) SegLen() uint32 {
	n := uint32(len(t.Payload))
	if t.Flags&SYN != 0 {
		n++
	}
	if t.Flags&FIN != 0 {
		n++
	}
	return n
}

// WalkTCPOptions parses an option area strictly (RFC 793/7323/2018): kinds 0 (EOL), 1 (NOP),
// 2 len 4, 3 len 3, 4 len 2, 5 len 2+8n, 8 len 10; other kinds need a valid length.
func WalkTCPOptions(o []byte) TCPOpts {
	var r TCPOpts
	i := 0
	for i < len(o) {
		k := o[i]
		if k == 0 {
			// everything after EOL must be zero padding
			for _, x := range o[i:] {
				if x != 0 {
					r.Malformed = "non-zero bytes after end-of-option-list"
				}
			}
			return r
		}
		if k == 1 {
			i++
			continue
		}
		if i+1 >= len(o) {
			r.Malformed = fmt.Sprintf("option kind %d without length byte", k)
			return r
		}
		l := int(o[i+1])
		if l < 2 || i+l > len(o) {
			r.Malformed = fmt.Sprintf("option kind %d length %d overruns option area of %d at %d", k, l, len(o), i)
			return r
		}
		body := o[i+2 : i+l]
		switch k {
		case 2:
			if l != 4 {
				r.Malformed = fmt.Sprintf("MSS option length %d", l)
				return r
			}
			r.HasMSS, r.MSS = true, be.Uint16(body)
		case 3:
			if l != 3 {
				r.Malformed = fmt.Sprintf("WS option length %d", l)
				return r
			}
			r.HasWS, r.WS = true, body[0]
		case 4:
			if l != 2 {
				r.Malformed = fmt.Sprintf("SACK-permitted option length %d", l)
				return r
			}
			r.SACKPerm = true
		case 5:
			if (l-2)%8 != 0 || l == 2 {
				r.Malformed = fmt.Sprintf("SACK option length %d", l)
				return r
			}
			for j := 0; j+8 <= len(body); j += 8 {
				r.SACK = append(r.SACK, SACKBlock{be.Uint32(body[j:]), be.Uint32(body[j+4:])})
			}
		case 8:
			if l != 10 {
				r.Malformed = fmt.Sprintf("timestamp option length %d", l)
				return r
			}
			r.HasTS, r.TSVal, r.TSEcr = true, be.Uint32(body), be.Uint32(body[4:])
		default:
			r.Unknown = append(r.Unknown, k)
		}
		i += l
	}
	return r
}

func ParseTCP(b []byte, src, dst []byte) (TCP, error) {
	var t TCP
	if len(b) < 20 {
		return t, fmt.Errorf("TCP segment of %d bytes", len(b))
	}
	t.SrcPort, t.DstPort = be.Uint16(b[0:]), be.Uint16(b[2:])
	t.Seq, t.Ack = be.Uint32(b[4:]), be.Uint32(b[8:])
	t.DataOff = int(b[12]>>4) * 4
	t.Flags = b[13] & 0x3f
	t.Window = be.Uint16(b[14:])
	t.Checksum = be.Uint16(b[16:])
	t.Urgent = be.Uint16(b[18:])
	if t.DataOff < 20 || t.DataOff > len(b) {
		return t, fmt.Errorf("TCP data offset %d (segment %d bytes)", t.DataOff, len(b))
	}
	if Sum(b, PseudoSum(src, dst, ProtoTCP, uint32(len(b)))) != 0xffff {
		return t, fmt.Errorf("TCP checksum %#04x does not verify", t.Checksum)
	}
	t.RawOpts = b[20:t.DataOff]
	t.Opts = WalkTCPOptions(t.RawOpts)
	t.Payload = b[t.DataOff:]
	if t.Opts.Malformed != "" {
		return t, errors.New("TCP options: " + t.Opts.Malformed)
	}
	return t, nil
}

// BuildTCP builds a segment; opts must already be padded to a multiple of 4 (PadOpts).
func BuildTCP(sport, dport uint16, seq, ack uint32, flags uint8, wnd uint16, opts, payload []byte, src, dst []byte) []byte {
	if len(opts)%4 != 0 {
		panic("unpadded TCP options")
	}
	b := make([]byte, 20+len(opts)+len(payload))
	be.PutUint16(b[0:], sport)
	be.PutUint16(b[2:], dport)
	be.PutUint32(b[4:], seq)
	be.PutUint32(b[8:], ack)
	b[12] = uint8((20+len(opts))/4) << 4
	b[13] = flags
	be.PutUint16(b[14:], wnd)
	copy(b[20:], opts)
	copy(b[20+len(opts):], payload)
	be.PutUint16(b[16:], ^Sum(b, PseudoSum(src, dst, ProtoTCP, uint32(len(b)))))
	return b
}

// FixTCPChecksum recomputes the checksum in place.
func FixTCPChecksum(b []byte, src, dst []byte) {
	if len(b) < 20 {
		return
	}
	b[16], b[17] = 0, 0
	be.PutUint16(b[16:], ^Sum(b, PseudoSum(src, dst, ProtoTCP, uint32(len(b)))))
}

func OptMSS(m uint16) []byte { return []byte{2, 4, byte(m >> 8), byte(m)} }
func OptWS(s uint8) []byte   { return []byte{3, 3, s} }
func OptSACKPerm() []byte    { return []byte{4, 2} }
func OptTS(v, e uint32) []byte {
	b := make([]byte, 10)
	b[0], b[1] = 8, 10
	be.PutUint32(b[2:], v)
	be.PutUint32(b[6:], e)
	return b
}
func OptSACK(bl ...SACKBlock) []byte {
	b := make([]byte, 2+8*len(bl))
	b[0], b[1] = 5, byte(len(b))
	for i, x := range bl {
		be.PutUint32(b[2+8*i:], x.Start)
		be.PutUint32(b[6+8*i:], x.End)
	}
	return b
}

// PadOpts concatenates options and pads with NOPs to a multiple of 4.
func PadOpts(parts ...[]byte) []byte {
	var o []byte
	for _, p := range parts {
		o = append(o, p...)
	}
	for len(o)%4 != 0 {
		o = append(o, 1)
	}
	return o
}

// ---------- serial-number arithmetic ----------

// SeqLT: v precedes w.
func SeqLT(v, w uint32) bool { d := w - v; return d >= 1 && d <= 1<<31-1 }

// SeqLEQ: v == w or v precedes w.
func SeqLEQ(v, w uint32) bool { return v == w || SeqLT(v, w) }
