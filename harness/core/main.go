// Harness binary for the checks that do not need the network stack (C08 sequential part,
// C10, C14..C19). Built by /verif/check with the overlay generated from /repo.
package main

import "verif/engine"

func main() { engine.Main() }
