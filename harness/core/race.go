package main

import (
	"fmt"
	"sync"
	"sync/atomic"
	"time"

	"github.com/brewlin/net-protocol/pkg/sleep"
	"github.com/brewlin/net-protocol/pkg/tmutex"
	"github.com/brewlin/net-protocol/pkg/waiter"
	"github.com/brewlin/net-protocol/protocol/network/fragmentation"

	"verif/engine"
)

// The free-running passes: the operations of the scheduled (coop) harnesses on real
// goroutines, with the shims passing through to the real primitives, in a binary built with
// -race. The cooperative scheduler only interleaves at hooked synchronisation operations;
// an access that bypasses them would be invisible to it, and this is where it shows up.
// Bookkeeping of the bodies is per goroutine or atomic so that every report concerns the
// code under test. Plain data guarded by the primitive under test (a counter inside the
// critical section, a payload published before Assert) makes a broken primitive show up
// as a race as well. Iteration counts are fixed; there is no wall-clock oracle.

func init() {
	engine.AddRace("C18", raceC18)
	engine.AddRace("C19", raceC19)
	engine.AddRace("C17", raceC17)
	engine.AddRace("C08", raceC08)
}

func raceDone(r *engine.Result, ops int64, what string) {
	r.Execs++
	r.States += 2
	r.Transitions += ops
	r.Nontrivial++
	r.AddExtra("free_running_ops", ops)
	r.Sample(map[string]interface{}{"free_running_pass": what, "operations": ops})
}

func rounds(tier string, q, t int) int {
	if tier == "thorough" {
		return t
	}
	return q
}

func raceC18(tier string, r *engine.Result) {
	for round := 0; round < rounds(tier, 20, 200); round++ {
		var m tmutex.Mutex
		m.Init()
		shared := 0 // guarded by m: two holders at once are a data race on it
		var wg sync.WaitGroup
		for g := 0; g < 4; g++ {
			wg.Add(1)
			go func(g int) {
				defer wg.Done()
				for i := 0; i < 500; i++ {
					if g%2 == 0 {
						m.Lock()
						shared++
						m.Unlock()
					} else if m.TryLock() {
						shared++
						m.Unlock()
					}
				}
			}(g)
		}
		wg.Wait()
		raceDone(r, int64(shared), "tmutex: 2 lockers + 2 try-lockers x 500 operations on one mutex, plain counter inside the critical section")
	}
}

func raceC19(tier string, r *engine.Result) {
	for round := 0; round < rounds(tier, 20, 200); round++ {
		const W = 3
		const N = 300
		var s sleep.Sleeper
		var ws [W]sleep.Waker
		var payload [W]int // written before Assert, read after Fetch returned that waker
		var ack [W]chan struct{}
		for i := range ws {
			s.AddWaker(&ws[i], i)
			ack[i] = make(chan struct{}, 1)
		}
		var wg sync.WaitGroup
		for i := 0; i < W; i++ {
			wg.Add(1)
			go func(i int) {
				defer wg.Done()
				for k := 1; k <= N; k++ {
					payload[i] = k
					ws[i].Assert()
					<-ack[i]
				}
			}(i)
		}
		got := 0
		for got < W*N {
			id, ok := s.Fetch(got%5 != 0)
			if !ok {
				continue
			}
			if payload[id] == 0 {
				panic("verif: fetched a waker whose payload was never published")
			}
			got++
			ack[id] <- struct{}{}
		}
		wg.Wait()
		// asserters that also clear, against a polling fetcher on a second sleeper
		var s2 sleep.Sleeper
		var w2 [2]sleep.Waker
		for i := range w2 {
			s2.AddWaker(&w2[i], i)
		}
		var wa sync.WaitGroup
		for i := 0; i < 2; i++ {
			wa.Add(1)
			go func(i int) {
				defer wa.Done()
				for k := 0; k < N; k++ {
					w2[i].Assert()
					if k%3 == 0 {
						w2[i].Clear()
					}
					w2[i].IsAsserted()
				}
			}(i)
		}
		finished := make(chan struct{})
		go func() { wa.Wait(); close(finished) }()
	poll:
		for {
			select {
			case <-finished:
				break poll
			default:
				s2.Fetch(false)
			}
		}
		s.Done()
		s2.Done()
		raceDone(r, int64(W*N+2*N), "sleep: 3 asserters publishing a payload before Assert, fetcher alternating blocking / non-blocking Fetch; 2 asserters with Clear against a polling fetcher; Done")
	}
}

type raceCB struct{ n *int64 }

func (c *raceCB) Callback(e *waiter.Entry) { atomic.AddInt64(c.n, 1) }

func raceC17(tier string, r *engine.Result) {
	for round := 0; round < rounds(tier, 20, 200); round++ {
		var q waiter.Queue
		var calls [4]int64
		var ents [4]waiter.Entry
		for i := range ents {
			ents[i] = waiter.Entry{Callback: &raceCB{&calls[i]}}
		}
		chEnt, ch := waiter.NewChannelEntry(nil)
		q.EventRegister(&chEnt, waiter.EventIn)
		var wg sync.WaitGroup
		var ops int64
		for g := 0; g < 4; g++ {
			wg.Add(1)
			go func(g int) { // each goroutine owns one entry
				defer wg.Done()
				for i := 0; i < 300; i++ {
					q.EventRegister(&ents[g], waiter.EventMask(1+(i+g)%3))
					q.Notify(waiter.EventIn)
					q.Events()
					q.EventUnregister(&ents[g])
					q.IsEmpty()
					atomic.AddInt64(&ops, 5)
				}
			}(g)
		}
		for g := 0; g < 2; g++ {
			wg.Add(1)
			go func(g int) {
				defer wg.Done()
				for i := 0; i < 600; i++ {
					q.Notify(waiter.EventMask(1 + i%3))
					select {
					case <-ch:
					default:
					}
					atomic.AddInt64(&ops, 1)
				}
			}(g)
		}
		wg.Wait()
		q.EventUnregister(&chEnt)
		raceDone(r, ops, "waiter: 4 goroutines registering / unregistering their own entry around Notify, Events, IsEmpty; 2 notifiers draining a channel entry")
	}
}

func raceC08(tier string, r *engine.Result) {
	for round := 0; round < rounds(tier, 10, 100); round++ {
		f := fragmentation.NewFragmentation(1<<20, 1<<19, 30*time.Second)
		content := make([]byte, 64)
		for i := range content {
			content[i] = byte(i)
		}
		var wg sync.WaitGroup
		var dones, ops int64
		for g := 0; g < 4; g++ {
			wg.Add(1)
			go func(g int) {
				defer wg.Done()
				var link c08Link
				for i := 0; i < 200; i++ {
					id := uint32(i % 8) // all goroutines feed the same 8 datagrams: duplicates and completions race
					for k := 0; k < 4; k++ {
						a := (k + g) % 4
						res, done := f.Process(id+uint32(round)*8, uint16(a*16), uint16(a*16+15), a < 3, link.vv(content[a*16:a*16+16], 5))
						atomic.AddInt64(&ops, 1)
						if done {
							atomic.AddInt64(&dones, 1)
							if res.Size() != 64 || string(res.ToView()) != string(content) {
								panic(fmt.Sprintf("verif: free-running reassembly returned %d bytes %x", res.Size(), res.ToView()))
							}
						}
					}
				}
			}(g)
		}
		wg.Wait()
		raceDone(r, ops, "fragmentation: 4 goroutines feeding the 4 fragments of the same 8 datagrams in rotated orders (duplicates race completion)")
	}
}
