package main

import (
	"encoding/json"
	"fmt"
	"strings"
	"time"

	"github.com/brewlin/net-protocol/pkg/waiter"

	"verif/engine"
	"verif/shim/vsched"
)

// C17: wait-queue notifications.
//  seq:<shard>  explicit-state search over register/unregister/notify/Events/IsEmpty
//               sequences on 3 entries (2 callback, 1 channel) against a reference map.
//  coop:<prog>  schedules of 2-3 threads racing register/unregister/notify.

func init() {
	engine.Register(&engine.Check{
		ID:        "C17",
		Technique: "explicit-state search over all operation sequences on the real waiter.Queue against a reference map (exhaustive to a depth, then state-deduplicated BFS) + stateless model checking of racing register/unregister/notify under a cooperative scheduler",
		Rule:      "seq: every enabled sequence over {register(e,m), unregister(e), notify(m), Events, IsEmpty} on 3 entries and masks {In,Out,In|Out,0}; coop: every schedule (next thread at each lock acquisition / callback) of each 2-3 thread program; distinct = distinct sequence/schedule, non-trivial = all but the default",
		Assumes: []string{
			"an entry is registered/unregistered by one owner thread at a time (the API contract: an entry can be in one queue once)",
			"sync.RWMutex modelled without writer preference (superset of behaviours)",
		},
		Jobs:      c17Jobs,
		Run:       c17Run,
		Replay:    c17Replay,
		NeedRepro: true,
	})
}

var c17Masks = []waiter.EventMask{waiter.EventIn, waiter.EventOut, waiter.EventIn | waiter.EventOut, 0}
var c17MaskName = []string{"In", "Out", "InOut", "0"}

// ---------- sequential part ----------

type c17cb struct {
	calls *[]int
	id    int
}

func (c *c17cb) Callback(e *waiter.Entry) { *c.calls = append(*c.calls, c.id) }

type c17Seq struct {
	q     waiter.Queue
	ent   [3]waiter.Entry
	ch    chan struct{}
	calls []int
	reg   [3]bool
	mask  [3]waiter.EventMask
	token bool // reference: channel of entry 2 holds a token
	alpha []string
	kinds []c17op
}

type c17op struct {
	kind byte // 'R','U','N','E','I','T'
	e    int
	m    int
}

func c17Alphabet() ([]string, []c17op) {
	var names []string
	var ops []c17op
	for e := 0; e < 3; e++ {
		for m := range c17Masks {
			names = append(names, fmt.Sprintf("register(e%d,%s)", e, c17MaskName[m]))
			ops = append(ops, c17op{'R', e, m})
		}
		names = append(names, fmt.Sprintf("unregister(e%d)", e))
		ops = append(ops, c17op{'U', e, 0})
	}
	for m := 0; m < 3; m++ {
		names = append(names, fmt.Sprintf("notify(%s)", c17MaskName[m]))
		ops = append(ops, c17op{'N', 0, m})
	}
	names = append(names, "Events()", "IsEmpty()", "take-token(e2)")
	ops = append(ops, c17op{'E', 0, 0}, c17op{'I', 0, 0}, c17op{'T', 0, 0})
	return names, ops
}

func c17NewSeq() engine.SeqSys {
	s := &c17Seq{}
	s.alpha, s.kinds = c17Alphabet()
	for i := 0; i < 2; i++ {
		s.ent[i] = waiter.Entry{Callback: &c17cb{&s.calls, i}}
	}
	s.ent[2], s.ch = waiter.NewChannelEntry(nil)
	return s
}

func (s *c17Seq) Enabled() []int {
	var en []int
	for i, o := range s.kinds {
		switch o.kind {
		case 'R':
			if !s.reg[o.e] {
				en = append(en, i)
			}
		case 'U':
			if s.reg[o.e] {
				en = append(en, i)
			}
		case 'T':
			if s.token {
				en = append(en, i)
			}
		default:
			en = append(en, i)
		}
	}
	return en
}

func (s *c17Seq) Apply(i int) *engine.Violation {
	o := s.kinds[i]
	bad := func(f string, a ...interface{}) *engine.Violation {
		return &engine.Violation{Property: "C17", Kind: "seq-mismatch", Key: "seq:" + s.alpha[i][:strings.IndexAny(s.alpha[i]+"(", "(")], Detail: fmt.Sprintf(f, a...)}
	}
	switch o.kind {
	case 'R':
		s.q.EventRegister(&s.ent[o.e], c17Masks[o.m])
		s.reg[o.e], s.mask[o.e] = true, c17Masks[o.m]
	case 'U':
		s.q.EventUnregister(&s.ent[o.e])
		s.reg[o.e] = false
	case 'N':
		s.calls = s.calls[:0]
		before := len(s.ch)
		s.q.Notify(c17Masks[o.m])
		cnt := [2]int{}
		for _, c := range s.calls {
			cnt[c]++
		}
		for e := 0; e < 2; e++ {
			want := 0
			if s.reg[e] && s.mask[e]&c17Masks[o.m] != 0 {
				want = 1
			}
			if cnt[e] != want {
				return bad("%s: callback of e%d invoked %d times, reference says %d (registered=%v mask=%#x)", s.alpha[i], e, cnt[e], want, s.reg[e], s.mask[e])
			}
		}
		if s.reg[2] && s.mask[2]&c17Masks[o.m] != 0 {
			s.token = true
		}
		if (len(s.ch) == 1) != s.token {
			return bad("%s: channel entry holds %d token(s) (before: %d), reference says token=%v", s.alpha[i], len(s.ch), before, s.token)
		}
	case 'E':
		var want waiter.EventMask
		for e := 0; e < 3; e++ {
			if s.reg[e] {
				want |= s.mask[e]
			}
		}
		if got := s.q.Events(); got != want {
			return bad("Events() = %#x, reference %#x", got, want)
		}
	case 'I':
		want := !(s.reg[0] || s.reg[1] || s.reg[2])
		if got := s.q.IsEmpty(); got != want {
			return bad("IsEmpty() = %v, reference %v", got, want)
		}
	case 'T':
		select {
		case <-s.ch:
		default:
			return bad("take-token: channel empty although a notification was due")
		}
		s.token = false
	}
	// structural check after every operation: forward and backward walks agree with the
	// reference set
	fwd, bwd, masks := waiter.VerifWalk(&s.q)
	n := 0
	for e := 0; e < 3; e++ {
		if s.reg[e] {
			n++
		}
	}
	if len(fwd) != n || len(bwd) != n {
		return bad("%s: queue holds %d entries forwards / %d backwards, reference %d", s.alpha[i], len(fwd), len(bwd), n)
	}
	for k := range fwd {
		if fwd[k] != bwd[len(bwd)-1-k] {
			return bad("%s: forward and backward walks of the queue disagree", s.alpha[i])
		}
		e := s.idx(fwd[k])
		if e < 0 || !s.reg[e] || masks[k] != s.mask[e] {
			return bad("%s: queue position %d holds entry %d mask %#x, not registered like that in the reference", s.alpha[i], k, e, masks[k])
		}
	}
	return nil
}

func (s *c17Seq) idx(e *waiter.Entry) int {
	for i := range s.ent {
		if e == &s.ent[i] {
			return i
		}
	}
	return -1
}

func (s *c17Seq) Key() string {
	fwd, _, masks := waiter.VerifWalk(&s.q)
	var sb strings.Builder
	for k, e := range fwd {
		fmt.Fprintf(&sb, "%d:%x,", s.idx(e), masks[k])
	}
	fmt.Fprintf(&sb, "|tok=%d", len(s.ch))
	return sb.String()
}

func c17SeqCfg(tier string, shard, n int, deadline time.Time) engine.SeqCfg {
	names, _ := c17Alphabet()
	full, dd := 5, 9
	if tier == "thorough" {
		full, dd = 6, 12
	}
	return engine.SeqCfg{Alphabet: names, New: c17NewSeq, FullDepth: full, DedupDepth: dd, Deadline: deadline, ShardI: shard, ShardN: n}
}

// ---------- concurrent part ----------

// program: thread scripts; tokens R<e><m> (m: i,o,b), U<e>, N<m>. "init" lists entries
// registered before the threads start.
type c17Prog struct {
	Init    string
	Threads []string
}

var c17Progs = map[string]c17Prog{
	"p1":  {"", []string{"R0i U0", "Ni"}},
	"p2":  {"0i", []string{"U0 R0o", "Nb"}},
	"p3":  {"0i", []string{"U0", "Ni Ni"}},
	"p4":  {"", []string{"R0b", "Ni No"}},
	"p5":  {"1b", []string{"R0i U0", "Nb"}},
	"p6":  {"0i,1o", []string{"U0", "U1", "Nb"}},
	"p7":  {"", []string{"R0i", "R1o", "Nb"}},
	"p8":  {"0b", []string{"U0 R0b", "Ni", "No"}},
	"p9":  {"0i,1i", []string{"U0 R0i", "Ni", "U1"}},
	"p10": {"2b", []string{"R0i U0", "Nb", "Ni"}},
	"p11": {"0i,2i", []string{"U2", "Ni", "U0 R0o"}},
	"p12": {"1o", []string{"R0i U0", "R2b", "Nb No"}},
	"p13": {"0i,1i,2i", []string{"U1", "Ni", "Ni"}},
	"p14": {"0i,1i,2i", []string{"U0", "U1", "U2 Ni"}},
}

type c17Ev struct {
	kind      byte // 'R','U','N'
	e, thread int
	mask      waiter.EventMask
	call, ret int
	cbs       []c17Cb
}
type c17Cb struct{ e, at int }

func c17M(b byte) waiter.EventMask {
	switch b {
	case 'i':
		return waiter.EventIn
	case 'o':
		return waiter.EventOut
	}
	return waiter.EventIn | waiter.EventOut
}

type c17cc struct {
	st *c17Conc
	id int
}

func (c *c17cc) Callback(e *waiter.Entry) {
	c.st.clk++
	c.st.curN[vsched.Self().ID].cbs = append(c.st.curN[vsched.Self().ID].cbs, c17Cb{c.id, c.st.clk})
	vsched.Point()
}

type c17Conc struct {
	q    waiter.Queue
	ent  [3]waiter.Entry
	ch   chan struct{}
	clk  int
	evs  []*c17Ev
	curN map[int]*c17Ev
}

func c17Harness(p c17Prog) engine.Harness {
	return func() (func(), func(*vsched.Sched) (*engine.Violation, uint64)) {
		st := &c17Conc{curN: map[int]*c17Ev{}}
		for i := 0; i < 2; i++ {
			st.ent[i] = waiter.Entry{Callback: &c17cc{st, i}}
		}
		st.ent[2], st.ch = waiter.NewChannelEntry(nil)
		body := func() {
			if p.Init != "" {
				for _, t := range strings.Split(p.Init, ",") {
					e := int(t[0] - '0')
					ev := &c17Ev{kind: 'R', e: e, mask: c17M(t[1]), thread: 0}
					st.clk++
					ev.call = st.clk
					st.q.EventRegister(&st.ent[e], ev.mask)
					st.clk++
					ev.ret = st.clk
					st.evs = append(st.evs, ev)
				}
			}
			var ts []*vsched.Thread
			for ti, script := range p.Threads {
				ti, script := ti+1, script
				ts = append(ts, vsched.Go(func() {
					for _, tok := range strings.Fields(script) {
						ev := &c17Ev{kind: tok[0], thread: ti}
						vsched.Point()
						st.clk++
						ev.call = st.clk
						switch tok[0] {
						case 'R':
							ev.e, ev.mask = int(tok[1]-'0'), c17M(tok[2])
							st.q.EventRegister(&st.ent[ev.e], ev.mask)
						case 'U':
							ev.e = int(tok[1] - '0')
							st.q.EventUnregister(&st.ent[ev.e])
						case 'N':
							ev.mask = c17M(tok[1])
							st.curN[vsched.Self().ID] = ev
							st.q.Notify(ev.mask)
						}
						st.clk++
						ev.ret = st.clk
						st.evs = append(st.evs, ev)
					}
				}))
			}
			vsched.Join(ts...)
		}
		check := func(s *vsched.Sched) (*engine.Violation, uint64) {
			var sig []int
			for _, ev := range st.evs {
				if ev.kind == 'N' {
					for _, c := range ev.cbs {
						sig = append(sig, ev.thread*100+c.e)
					}
					sig = append(sig, -1)
				}
			}
			out := engine.Hash(s.Outcome, sig, len(st.ch))
			if s.Outcome != vsched.OK {
				return &engine.Violation{Property: "C17", Kind: s.Outcome.String(), Key: "coop-" + s.Outcome.String(), Detail: s.Detail}, out
			}
			if msg := c17Judge(st); msg != "" {
				return &engine.Violation{Property: "C17", Kind: "notify-semantics", Key: "coop:" + strings.SplitN(msg, ":", 2)[0], Detail: msg + " | history: " + c17Hist(st)}, out
			}
			return nil, out
		}
		return body, check
	}
}

func c17Hist(st *c17Conc) string {
	var sb strings.Builder
	for _, ev := range st.evs {
		fmt.Fprintf(&sb, "[t%d %c e%d m%#x @%d-%d cbs=%v] ", ev.thread, ev.kind, ev.e, ev.mask, ev.call, ev.ret, ev.cbs)
	}
	fmt.Fprintf(&sb, "chan=%d", len(st.ch))
	return sb.String()
}

// c17Judge evaluates the oracle on the logical call/return times.
func c17Judge(st *c17Conc) string {
	// registration intervals per entry: [R.call, R.ret, U.call, U.ret, mask]
	type iv struct {
		rc, rr, uc, ur int
		mask           waiter.EventMask
	}
	const inf = 1 << 30
	regs := map[int][]iv{}
	for e := 0; e < 3; e++ {
		var evs []*c17Ev
		for _, ev := range st.evs {
			if (ev.kind == 'R' || ev.kind == 'U') && ev.e == e {
				evs = append(evs, ev)
			}
		}
		// owner-sequential: order by call time
		for i := 0; i < len(evs); i++ {
			for j := i + 1; j < len(evs); j++ {
				if evs[j].call < evs[i].call {
					evs[i], evs[j] = evs[j], evs[i]
				}
			}
		}
		for _, ev := range evs {
			if ev.kind == 'R' {
				regs[e] = append(regs[e], iv{ev.call, ev.ret, inf, inf, ev.mask})
			} else if n := len(regs[e]); n > 0 {
				regs[e][n-1].uc, regs[e][n-1].ur = ev.call, ev.ret
			}
		}
	}
	mustTok := false
	for _, n := range st.evs {
		if n.kind != 'N' {
			continue
		}
		for e := 0; e < 3; e++ {
			cnt := 0
			for _, c := range n.cbs {
				if c.e == e {
					cnt++
				}
			}
			must, may := false, false
			for _, r := range regs[e] {
				if r.mask&n.mask == 0 {
					continue
				}
				if r.rr < n.call && r.uc > n.ret {
					must = true
				}
				if r.rc < n.ret && r.ur > n.call {
					may = true
				}
			}
			if e == 2 {
				if must {
					mustTok = true
				}
				continue
			}
			if cnt > 1 {
				return fmt.Sprintf("duplicate: entry e%d called %d times by one notify", e, cnt)
			}
			if must && cnt != 1 {
				return fmt.Sprintf("lost: entry e%d registered throughout notify(m=%#x)@%d-%d with an intersecting mask but called %d times", e, n.mask, n.call, n.ret, cnt)
			}
			if !may && cnt != 0 {
				return fmt.Sprintf("spurious: entry e%d called by notify(m=%#x)@%d-%d although not registered with an intersecting mask at any time during it", e, n.mask, n.call, n.ret)
			}
			// no callback after unregister returned
			for _, c := range n.cbs {
				if c.e != e {
					continue
				}
				ok := false
				for _, r := range regs[e] {
					if r.rc < c.at && c.at < r.ur {
						ok = true
					}
				}
				if !ok {
					return fmt.Sprintf("after-unregister: callback of e%d at %d outside every registration interval", e, c.at)
				}
			}
		}
	}
	if mustTok && len(st.ch) != 1 {
		return "token-lost: a notify had to signal the channel entry but the channel is empty"
	}
	if len(st.ch) == 1 {
		// some notify may have called it
		any := false
		for _, n := range st.evs {
			if n.kind != 'N' {
				continue
			}
			for _, r := range regs[2] {
				if r.mask&n.mask != 0 && r.rc < n.ret && r.ur > n.call {
					any = true
				}
			}
		}
		if !any {
			return "token-spurious: channel holds a token though no notify overlapped a matching registration of the channel entry"
		}
	}
	return ""
}

// ---------- jobs ----------

func c17Jobs(tier string) []string {
	var jobs []string
	const shards = 20
	for i := 0; i < shards; i++ {
		jobs = append(jobs, fmt.Sprintf("seq:%d/%d", i, shards))
	}
	b := -1
	for name := range c17Progs {
		jobs = append(jobs, fmt.Sprintf("coop:b=%d:%s", b, name))
	}
	return jobs
}

func c17Run(job, tier string, deadline time.Time) *engine.Result {
	r := &engine.Result{Exhaustive: true}
	if strings.HasPrefix(job, "seq:") {
		var i, n int
		fmt.Sscanf(job, "seq:%d/%d", &i, &n)
		cfg := c17SeqCfg(tier, i, n, deadline)
		st := engine.ExploreSeq(job, cfg)
		st.Into(r)
		r.Bound = fmt.Sprintf("all sequences <=%d, dedup BFS <=%d", cfg.FullDepth, cfg.DedupDepth)
		return r
	}
	var b int
	var name string
	parts := strings.Split(job, ":")
	fmt.Sscanf(parts[1], "b=%d", &b)
	name = parts[2]
	st := engine.Explore(job, c17Harness(c17Progs[name]), engine.CoopCfg{Bound: b, Deadline: deadline})
	st.Into(r)
	r.Bound = "coop unbounded preemptions"
	return r
}

func c17Replay(rp json.RawMessage) *engine.Violation {
	var sr engine.SeqReplay
	if json.Unmarshal(rp, &sr) == nil && strings.HasPrefix(sr.Job, "seq:") {
		return engine.ReplaySeq(c17SeqCfg("quick", 0, 1, time.Time{}), sr.Ops)
	}
	var cr engine.CoopReplay
	if json.Unmarshal(rp, &cr) != nil {
		return nil
	}
	parts := strings.Split(cr.Job, ":")
	return engine.ReplayCoop(c17Harness(c17Progs[parts[2]]), cr.Choices)
}
