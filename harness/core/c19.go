package main

import (
	"encoding/json"
	"fmt"
	"strings"
	"time"

	"github.com/brewlin/net-protocol/pkg/sleep"

	"verif/engine"
	"verif/shim/vsched"
)

// C19: Sleeper/Waker. One fetching thread plus asserting/clearing threads; every atomic
// operation of the algorithm (incl. commitSleep) is a schedule point, park/ready are
// modelled by the scheduler.
//
// Job syntax: "b=<bound>;<family>" with families described in c19Programs.

func init() {
	engine.Register(&engine.Check{
		ID:        "C19",
		Technique: "stateless model checking of the real Sleeper/Waker code under a cooperative scheduler (DFS over schedules, preemption bounding) + brute-force linearizability of every history against a bit-per-waker reference",
		Rule:      "every schedule (next thread at each atomic op of pkg/sleep incl. commitSleep, park/ready modelled) of each harness program (fetcher + 1-3 asserter/clearer threads over 1-3 wakers, Done/AddWaker re-attachment); distinct = distinct schedule; non-trivial = deviates from the default schedule",
		Assumes: []string{
			"the portable Go commitSleep from the repository is explored (commit_amd64.s does not assemble on the pinned toolchain)",
			"gopark/goready replaced by a scheduler-level park/ready with the runtime's ordering (commit callback runs after the goroutine stopped)",
			"sequential consistency at schedule points",
		},
		Jobs:      c19Jobs,
		Run:       c19Run,
		Replay:    c19Replay,
		NeedRepro: true,
	})
}

// A program: per-thread op lists. Thread 0 is the fetcher (owner of the sleepers).
// Ops: "A<w>" assert, "C<w>" clear, "Fb" blocking fetch, "Fn" non-blocking fetch,
// "+<w>" AddWaker to current sleeper, "D" Done current sleeper and switch to the next
// one, "J" join all other threads.
var c19Programs = map[string][]string{
	// S1: each waker asserted once by its own thread
	"S1-1":    {"+0 Fb Fn", "A0"},
	"S1-2":    {"+0 +1 Fb Fb Fn", "A0", "A1"},
	"S1-3":    {"+0 +1 +2 Fb Fb Fb Fn", "A0", "A1", "A2"},
	"S1-2seq": {"+0 +1 Fb Fb Fn", "A0 A1"},
	"S1-3seq": {"+0 +1 +2 Fb Fb Fb Fn", "A0 A1", "A2"},
	// S2: repeated assertion, clearing
	"S2-twice2": {"+0 Fb Fn J Fn", "A0", "A0"},
	"S2-twice1": {"+0 Fb Fn J Fn", "A0 A0"},
	"S2-clear1": {"+0 +1 Fb Fn J Fn", "A0 C0 A1"},
	"S2-clear2": {"+0 +1 Fb Fn J Fn Fn", "A0 A1", "C0"},
	"S2-clear3": {"+0 +1 Fb J Fn Fn", "A0 C0 A0 A1"},
	"S2-clearX": {"+0 +1 Fb Fn J Fn Fn", "A0", "C0 A1", "A0"},
	// S3: non-blocking fetches racing asserts
	"S3-a": {"+0 +1 Fn Fn J Fn Fn Fn", "A0", "A1"},
	"S3-b": {"+0 Fn Fn J Fn Fn", "A0 C0 A0"},
	"S3-c": {"+0 +1 Fn Fb J Fn Fn", "A0", "A1"},
	// S4: Done racing an assert, waker re-attached to a second sleeper
	"S4-a": {"+0 D +0 A0 Fb J Fn", "A0"},
	"S4-b": {"+0 +1 D +0 +1 A0 Fb J Fn Fn", "A0", "A1"},
	"S4-c": {"+0 +1 Fn D +0 A0 Fb J Fn", "A0 A1"},
	"S4-d": {"+0 Fb D +0 A0 Fb J Fn", "A0 C0 A0"},
	// S5: AddWaker of a waker that is asserted / being asserted
	"S5-a": {"+0 Fb Fn", "A0"},
	"S5-b": {"A0 +0 Fb Fn"},
	"S5-c": {"+1 +0 Fb Fb Fn", "A0", "A1"},
	"S5-d": {"+0 Fb J D +0 A0 Fb Fn", "A0 A0"},
}

func c19Jobs(tier string) []string {
	var jobs []string
	b := 2
	if tier == "thorough" {
		b = 4
	}
	for name, prog := range c19Programs {
		bb := b
		if len(prog) <= 2 {
			bb = b + 2
		}
		jobs = append(jobs, fmt.Sprintf("b=%d;%s", bb, name))
	}
	return jobs
}

const c19None = -1

type c19Run1 struct {
	wakers  [3]sleep.Waker
	slp     [4]sleep.Sleeper
	cur     int
	clk     int
	ops     []engine.LinOp
	errs    []string
	doneSnp []string // snapshots of sleepers after Done
}

func (r *c19Run1) snap(i int) string {
	sh, wg, loc, all := sleep.VerifSleeperWords(&r.slp[i])
	return fmt.Sprint(sh, wg, loc, all)
}

func c19Harness(prog []string) engine.Harness {
	return func() (func(), func(*vsched.Sched) (*engine.Violation, uint64)) {
		r := &c19Run1{}
		rec := func(th int, name string, arg, arg2 int, f func() int) {
			r.clk++
			op := engine.LinOp{Thread: th, Call: r.clk, Name: name, Arg: arg, Arg2: arg2}
			op.Res = f()
			r.clk++
			op.Ret = r.clk
			r.ops = append(r.ops, op)
		}
		runOps := func(th int, script string, others *[]*vsched.Thread) {
			for _, tok := range strings.Fields(script) {
				switch tok[0] {
				case 'A':
					w := int(tok[1] - '0')
					rec(th, "A", w, 0, func() int { r.wakers[w].Assert(); return 0 })
				case 'C':
					w := int(tok[1] - '0')
					rec(th, "C", w, 0, func() int {
						if r.wakers[w].Clear() {
							return 1
						}
						return 0
					})
				case 'F':
					block := tok[1] == 'b'
					s := r.cur
					rec(th, "F", s, 0, func() int {
						id, ok := r.slp[s].Fetch(block)
						if !ok {
							return c19None
						}
						return id
					})
				case '+':
					w := int(tok[1] - '0')
					s := r.cur
					rec(th, "+", w, s, func() int { r.slp[s].AddWaker(&r.wakers[w], 100+w); return 0 })
				case 'D':
					s := r.cur
					rec(th, "D", s, 0, func() int { r.slp[s].Done(); return 0 })
					r.doneSnp = append(r.doneSnp, r.snap(s))
					r.cur++
				case 'J':
					vsched.Join(*others...)
				}
			}
		}
		body := func() {
			var ts []*vsched.Thread
			for i := 1; i < len(prog); i++ {
				i := i
				ts = append(ts, vsched.Go(func() { runOps(i, prog[i], nil) }))
			}
			runOps(0, prog[0], &ts)
			vsched.Join(ts...)
			// after everything: sleepers that were Done must not have been touched since
			for i, sn := range r.doneSnp {
				if r.snap(i) != sn {
					r.errs = append(r.errs, fmt.Sprintf("sleeper %d changed after Done returned: %s -> %s", i, sn, r.snap(i)))
				}
			}
		}
		check := func(s *vsched.Sched) (*engine.Violation, uint64) {
			var res []int
			for _, o := range r.ops {
				if o.Name == "F" || o.Name == "C" {
					res = append(res, o.Thread*1000+o.Res)
				}
			}
			out := engine.Hash(s.Outcome, res, len(r.errs))
			switch s.Outcome {
			case vsched.Deadlock:
				return &engine.Violation{Property: "C19", Kind: "deadlock", Key: "lost-wakeup", Detail: "a thread sleeps forever although every promised assertion completed (lost wake-up): " + s.Detail + " history=" + c19Hist(r.ops)}, out
			case vsched.Livelock:
				return &engine.Violation{Property: "C19", Kind: "livelock", Key: "livelock", Detail: s.Detail}, out
			case vsched.Panicked:
				return &engine.Violation{Property: "C19", Kind: "panic", Key: "panic", Detail: s.Detail}, out
			}
			if len(r.errs) > 0 {
				return &engine.Violation{Property: "C19", Kind: "touched-after-done", Key: "touched-after-done", Detail: strings.Join(r.errs, "; ")}, out
			}
			if !engine.Linearizable(append([]engine.LinOp(nil), r.ops...), 0, c19Model) {
				if relaxed, ok := c19Coalesce(r.ops); ok && engine.Linearizable(relaxed, 0, c19Model) {
					return &engine.Violation{Property: "C19", Kind: "nonblocking-fetch-missed-completed-assert", Key: "F1-coalesced-into-in-progress-assert", Detail: "a completed Assert was not reported by a non-blocking Fetch: an earlier-started Assert of the same waker from another thread is still between marking the waker and enqueueing it, and the completed one relied on it: " + c19Hist(r.ops)}, out
				}
				return &engine.Violation{Property: "C19", Kind: "not-linearizable", Key: "not-linearizable", Detail: "history has no sequential witness in the bit-per-waker model (a notification was lost, invented or duplicated): " + c19Hist(r.ops)}, out
			}
			return nil, out
		}
		return body, check
	}
}

// c19Coalesce builds the relaxed history used to recognise finding F1: an Assert X of waker
// w is treated as still in progress until an overlapping Assert Y of the same waker
// (one that began before X returned) returns, (X found the waker already marked, or cleared-but-unqueued, and relied on Y to enqueue it). Returns ok=false if no operation qualifies.
func c19Coalesce(ops []engine.LinOp) ([]engine.LinOp, bool) {
	out := append([]engine.LinOp(nil), ops...)
	changed := false
	for again := true; again; {
		again = false
		for i := range out {
			x := &out[i]
			if x.Name != "A" {
				continue
			}
			for _, y := range out {
				if y.Name != "A" || y.Arg != x.Arg || !(y.Call < x.Ret && y.Ret > x.Ret) {
					continue
				}
				cleared := true // any earlier-started, still running Assert of the same waker qualifies
				if cleared {
					x.Ret = y.Ret
					again, changed = true, true
				}
			}
		}
	}
	return out, changed
}

func c19Hist(ops []engine.LinOp) string {
	var sb strings.Builder
	for _, o := range ops {
		fmt.Fprintf(&sb, "[t%d %s(%d,%d)=%d @%d-%d] ", o.Thread, o.Name, o.Arg, o.Arg2, o.Res, o.Call, o.Ret)
	}
	return sb.String()
}

// c19Model: state bits 0..2 = waker asserted; bits 8+4w..8+4w+3 = sleeper the waker is
// attached to, plus one (0 = none).
func c19Model(st uint64, op engine.LinOp) (uint64, bool) {
	att := func(w int) int { return int(st>>(8+4*uint(w))) & 15 }
	switch op.Name {
	case "A":
		return st | 1<<uint(op.Arg), true
	case "C":
		was := st&(1<<uint(op.Arg)) != 0
		if (op.Res == 1) != was {
			return st, false
		}
		return st &^ (1 << uint(op.Arg)), true
	case "+":
		st &^= 15 << (8 + 4*uint(op.Arg))
		st |= uint64(op.Arg2+1) << (8 + 4*uint(op.Arg))
		return st, true
	case "D":
		for w := 0; w < 3; w++ {
			if att(w) == op.Arg+1 {
				st &^= 15 << (8 + 4*uint(w))
			}
		}
		return st, true
	case "F":
		if op.Res == c19None {
			for w := 0; w < 3; w++ {
				if att(w) == op.Arg+1 && st&(1<<uint(w)) != 0 {
					return st, false
				}
			}
			return st, true
		}
		w := op.Res - 100
		if w < 0 || w > 2 || att(w) != op.Arg+1 || st&(1<<uint(w)) == 0 {
			return st, false
		}
		return st &^ (1 << uint(w)), true
	}
	return st, false
}

func c19Parse(job string) (int, []string) {
	parts := strings.SplitN(job, ";", 2)
	var b int
	fmt.Sscanf(parts[0], "b=%d", &b)
	return b, c19Programs[parts[1]]
}

func c19Run(job, tier string, deadline time.Time) *engine.Result {
	r := &engine.Result{Exhaustive: true}
	b, prog := c19Parse(job)
	if prog == nil {
		r.Err = "unknown program " + job
		return r
	}
	st := engine.Explore(job, c19Harness(prog), engine.CoopCfg{Bound: b, Deadline: deadline})
	st.Into(r)
	r.Bound = fmt.Sprintf("preemptions<=%d", b)
	r.AddExtra("parks", int64(sleep.VerifParkCount))
	r.AddExtra("aborted_parks", int64(sleep.VerifAbortedParks))
	r.AddExtra("goready_calls", int64(sleep.VerifReadyCount))
	return r
}

func c19Replay(rp json.RawMessage) *engine.Violation {
	var cr engine.CoopReplay
	if json.Unmarshal(rp, &cr) != nil {
		return nil
	}
	_, prog := c19Parse(cr.Job)
	return engine.ReplayCoop(c19Harness(prog), cr.Choices)
}
