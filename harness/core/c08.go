package main

import (
	"bytes"
	"encoding/json"
	"fmt"
	"sort"
	"strconv"
	"strings"
	"time"

	"github.com/brewlin/net-protocol/pkg/buffer"
	"github.com/brewlin/net-protocol/protocol/header"
	"github.com/brewlin/net-protocol/protocol/network/fragmentation"
	"github.com/brewlin/net-protocol/protocol/network/hash"

	tcpip "github.com/brewlin/net-protocol/protocol"

	"verif/engine"
	"verif/ref"
	"verif/shim/vsched"
	"verif/shim/vtime"
)

// C08 (reassembler part): IPv4 reassembly through fragmentation.Process.
//   seq:n=<units>,tail=<bytes>,ids=<k>:<shard>/<n>   all arrival sequences (with repetition)
//       of consistent fragments of k interleaved datagrams + advance(31s), vs a reference
//   coop:<prog>   fragments of one/two datagrams fed concurrently from 2-3 threads

func init() {
	engine.Register(&engine.Check{
		ID:        "C08",
		Technique: "explicit-state search: every arrival sequence (with repetition) of 8-byte-aligned fragments on the real reassembler against an interval-coverage reference; stateless model checking of concurrent fragment delivery under a cooperative scheduler",
		Rule:      "seq: datagrams of 1-4 eight-byte units (+ partial tail), fragment alphabet = all unit intervals [a,b) with MF=(b<n), 1-2 interleaved datagram ids, advance(31 s) as an operation, all sequences to the depth bound; coop: every schedule of 2-3 threads feeding fragments of 1-2 datagrams; distinct = distinct sequence / schedule",
		Assumes:   []string{"fragments of one datagram agree on content and on where the datagram ends (consistent cuts; contradictory fragments are C07's alphabet)", "virtual clock for the reassembly timeout"},
		Jobs:      c08Jobs,
		Run:       c08Run,
		Replay:    c08Replay,
		NeedRepro: true,
	})
}

type c08Cfg struct{ n, tail, ids int }

func (c c08Cfg) total() int { return (c.n-1)*8 + c.tail }

func c08Content(id, gen, total int) []byte {
	b := make([]byte, total)
	for i := range b {
		b[i] = byte(17*id + 61*gen + 3*i + 1)
	}
	return b
}

type c08Frag struct{ id, a, b int }

type c08Seq struct {
	cfg     c08Cfg
	f       *fragmentation.Fragmentation
	ops     []c08Frag // a<0 = advance
	names   []string
	covered map[int][]bool
	last    map[int]bool
	born    map[int]time.Duration
	active  map[int]bool
	gen     map[int]int
}

func c08Alphabet(cfg c08Cfg) ([]c08Frag, []string) {
	var ops []c08Frag
	var names []string
	for id := 1; id <= cfg.ids; id++ {
		for a := 0; a < cfg.n; a++ {
			for b := a + 1; b <= cfg.n; b++ {
				ops = append(ops, c08Frag{id, a, b})
				names = append(names, fmt.Sprintf("frag(id%d,[%d,%d)%s)", id, a, b, map[bool]string{true: ",MF", false: ""}[b < cfg.n]))
			}
		}
	}
	ops = append(ops, c08Frag{0, -1, 0})
	names = append(names, "advance(31s)")
	// half a timeout and a bit: two of them outlast the timeout although no gap between
	// consecutive fragments does (the timeout runs from the first fragment, not the latest)
	ops = append(ops, c08Frag{0, -2, 0})
	names = append(names, "advance(16s)")
	return ops, names
}

func c08New(cfg c08Cfg) func() engine.SeqSys {
	return func() engine.SeqSys {
		vtime.EnableVirtual()
		s := &c08Seq{cfg: cfg, f: fragmentation.NewFragmentation(1<<20, 1<<19, 30*time.Second),
			covered: map[int][]bool{}, last: map[int]bool{}, born: map[int]time.Duration{}, active: map[int]bool{}, gen: map[int]int{}}
		s.ops, s.names = c08Alphabet(cfg)
		return s
	}
}

func (s *c08Seq) Enabled() []int {
	en := make([]int, len(s.ops))
	for i := range en {
		en[i] = i
	}
	return en
}

// c08Link hands fragments to the reassembler the way the repository's fd-based link endpoint
// does: the payload bytes are fresh for every packet, but the array of view headers is the
// endpoint's own and is refilled for the next packet, so whoever keeps the VectorisedView it
// was given (instead of a clone) sees the views of later packets.
type c08Link struct{ views [2]buffer.View }

var c08DefaultLink c08Link

func (l *c08Link) vv(p []byte, split int) buffer.VectorisedView {
	if split <= 0 || split >= len(p) {
		l.views[0], l.views[1] = buffer.View(append([]byte(nil), p...)), nil
		return buffer.NewVectorisedView(len(p), l.views[:1])
	}
	l.views[0] = buffer.View(append([]byte(nil), p[:split]...))
	l.views[1] = buffer.View(append([]byte(nil), p[split:]...))
	return buffer.NewVectorisedView(len(p), l.views[:2])
}

func c08VV(p []byte, split int) buffer.VectorisedView { return c08DefaultLink.vv(p, split) }

func (s *c08Seq) Apply(i int) *engine.Violation {
	o := s.ops[i]
	if o.a == -2 {
		vtime.Advance(16 * time.Second)
		return nil
	}
	if o.a < 0 {
		vtime.Advance(31 * time.Second)
		return nil
	}
	bad := func(key, f string, a ...interface{}) *engine.Violation {
		return &engine.Violation{Property: "C08", Kind: "reassembly", Key: "seq:" + key, Detail: s.names[i] + ": " + fmt.Sprintf(f, a...)}
	}
	total := s.cfg.total()
	// reference: a reassembly older than the timeout is discarded before the fragment is added
	if s.active[o.id] && vtime.Elapsed()-s.born[o.id] > 30*time.Second {
		s.active[o.id] = false
		s.gen[o.id]++ // the sender has moved on to a new datagram with the same key
	}
	if !s.active[o.id] {
		s.active[o.id] = true
		s.born[o.id] = vtime.Elapsed()
		s.covered[o.id] = make([]bool, s.cfg.n)
		s.last[o.id] = false
	}
	content := c08Content(o.id, s.gen[o.id], total)
	lo, hi := o.a*8, o.b*8
	if hi > total {
		hi = total
	}
	for u := o.a; u < o.b; u++ {
		s.covered[o.id][u] = true
	}
	if o.b == s.cfg.n {
		s.last[o.id] = true
	}
	wantDone := s.last[o.id]
	for _, c := range s.covered[o.id] {
		wantDone = wantDone && c
	}
	res, done := s.f.Process(uint32(o.id), uint16(lo), uint16(hi-1), o.b < s.cfg.n, c08VV(content[lo:hi], (hi-lo)/2))
	if done != wantDone {
		return bad("done-moment", "Process reported done=%v, reference (coverage %v, last seen %v) says %v", done, s.covered[o.id], s.last[o.id], wantDone)
	}
	if !done && res.Size() != 0 {
		return bad("partial-delivery", "returned %d bytes although the datagram is incomplete", res.Size())
	}
	if done {
		if got := res.ToView(); !bytes.Equal(got, content) || res.Size() != total {
			return bad("payload", "delivered %x (size %d), original datagram %x", []byte(got), res.Size(), content)
		}
		s.active[o.id] = false
		s.gen[o.id]++
	}
	return nil
}

func (s *c08Seq) Key() string { return "" }

func c08ParseSeq(job string) (c08Cfg, int, int) {
	var c c08Cfg
	var i, n int
	fmt.Sscanf(job, "seq:n=%d,tail=%d,ids=%d:%d/%d", &c.n, &c.tail, &c.ids, &i, &n)
	return c, i, n
}

func c08SeqCfg(job, tier string, deadline time.Time) engine.SeqCfg {
	c, i, n := c08ParseSeq(job)
	_, names := c08Alphabet(c)
	depth := 5
	if tier == "thorough" {
		depth = 6
		if len(names) > 15 {
			depth = 5
		}
	} else if len(names) > 15 {
		depth = 4
	}
	return engine.SeqCfg{Alphabet: names, New: c08New(c), FullDepth: depth, DedupDepth: depth, Deadline: deadline, ShardI: i, ShardN: n}
}

// ---------- concurrent delivery ----------

// program: per-thread lists of fragments "id:a-b"; datagrams have cfgN units.
type c08Prog struct {
	n       int
	threads []string
}

var c08Progs = map[string]c08Prog{
	"two-halves":      {2, []string{"1:0-1", "1:1-2"}},
	"three-parts":     {3, []string{"1:0-1 1:2-3", "1:1-2"}},
	"three-threads":   {3, []string{"1:0-1", "1:1-2", "1:2-3"}},
	"dup-last":        {2, []string{"1:0-1 1:1-2", "1:1-2"}},
	"dup-first":       {2, []string{"1:0-1 1:1-2", "1:0-1"}},
	"dup-all":         {2, []string{"1:0-1 1:1-2", "1:1-2 1:0-1"}},
	"overlap":         {3, []string{"1:0-2", "1:1-3"}},
	"overlap-dup":     {3, []string{"1:0-2 1:1-3", "1:0-3"}},
	"whole-twice":     {2, []string{"1:0-2", "1:0-2"}},
	"two-datagrams":   {2, []string{"1:0-1 2:1-2", "2:0-1 1:1-2"}},
	"two-datagrams-3": {2, []string{"1:0-1 1:1-2", "2:0-1 2:1-2", "1:1-2"}},
	"four-frags":      {4, []string{"1:0-1 1:2-3", "1:1-2 1:3-4"}},
	"four-frags-3":    {4, []string{"1:0-2", "1:1-3", "1:2-4"}},
}

func c08Harness(p c08Prog) engine.Harness {
	return func() (func(), func(*vsched.Sched) (*engine.Violation, uint64)) {
		vtime.EnableVirtual()
		f := fragmentation.NewFragmentation(1<<20, 1<<19, 30*time.Second)
		total := p.n * 8
		type rec struct {
			th, id int
			done   bool
			res    []byte
			size   int
		}
		var recs []rec
		body := func() {
			var ts []*vsched.Thread
			for ti, script := range p.threads {
				ti, script := ti+1, script
				ts = append(ts, vsched.Go(func() {
					var link c08Link // one link endpoint (dispatch goroutine) per thread
					for _, tok := range strings.Fields(script) {
						var id, a, b int
						fmt.Sscanf(tok, "%d:%d-%d", &id, &a, &b)
						content := c08Content(id, 0, total)
						vsched.Point()
						res, done := f.Process(uint32(id), uint16(a*8), uint16(b*8-1), b < p.n, link.vv(content[a*8:b*8], 3))
						recs = append(recs, rec{ti, id, done, append([]byte(nil), res.ToView()...), res.Size()})
					}
				}))
			}
			vsched.Join(ts...)
		}
		check := func(s *vsched.Sched) (*engine.Violation, uint64) {
			var sig []int
			for _, r := range recs {
				d := 0
				if r.done {
					d = 1
				}
				sig = append(sig, r.th*100+r.id*10+d)
			}
			out := engine.Hash(s.Outcome, sig)
			if s.Outcome != vsched.OK {
				key := "coop-" + s.Outcome.String()
				if s.Outcome == vsched.Panicked {
					key = "coop-panic:" + c08PanicKey(s.Detail)
				}
				return &engine.Violation{Property: "C08", Kind: s.Outcome.String(), Key: key, Detail: s.Detail}, out
			}
			// which datagrams were fully offered?
			offered := map[int][]bool{}
			lastSeen := map[int]bool{}
			for _, script := range p.threads {
				for _, tok := range strings.Fields(script) {
					var id, a, b int
					fmt.Sscanf(tok, "%d:%d-%d", &id, &a, &b)
					if offered[id] == nil {
						offered[id] = make([]bool, p.n)
					}
					for u := a; u < b; u++ {
						offered[id][u] = true
					}
					if b == p.n {
						lastSeen[id] = true
					}
				}
			}
			dones := map[int]int{}
			for _, r := range recs {
				if !r.done {
					if r.size != 0 {
						return &engine.Violation{Property: "C08", Kind: "reassembly", Key: "coop-partial-delivery", Detail: fmt.Sprintf("a call returned %d bytes without reporting completion", r.size)}, out
					}
					continue
				}
				dones[r.id]++
				if !bytes.Equal(r.res, c08Content(r.id, 0, total)) {
					return &engine.Violation{Property: "C08", Kind: "reassembly", Key: "coop-payload", Detail: fmt.Sprintf("datagram %d delivered as %x, original %x", r.id, r.res, c08Content(r.id, 0, total))}, out
				}
			}
			for id, cov := range offered {
				complete := lastSeen[id]
				for _, c := range cov {
					complete = complete && c
				}
				// duplicates may legitimately start a second, incomplete reassembly, but a complete
				// set must be delivered at least once and a datagram never more often than the
				// number of complete sets offered (1 here unless every fragment was offered twice)
				if complete && dones[id] == 0 {
					return &engine.Violation{Property: "C08", Kind: "reassembly", Key: "coop-lost", Detail: fmt.Sprintf("all fragments of datagram %d were delivered but no call returned it", id)}, out
				}
				if !complete && dones[id] > 0 {
					return &engine.Violation{Property: "C08", Kind: "reassembly", Key: "coop-incomplete-delivered", Detail: fmt.Sprintf("datagram %d delivered from an incomplete set", id)}, out
				}
			}
			return nil, out
		}
		return body, check
	}
}

func c08PanicKey(detail string) string {
	l := strings.SplitN(detail, "\n", 2)[0]
	if i := strings.Index(l, ": "); i >= 0 {
		l = l[i+2:]
	}
	if len(l) > 60 {
		l = l[:60]
	}
	return l
}

// ---------- plumbing ----------

func c08Jobs(tier string) []string {
	var jobs []string
	for name := range c08Progs {
		jobs = append(jobs, "coop:"+name)
	}
	cfgs := []string{"n=1,tail=8,ids=2", "n=1,tail=3,ids=2", "n=2,tail=8,ids=2", "n=2,tail=1,ids=2", "n=3,tail=5,ids=1", "n=3,tail=8,ids=2", "n=4,tail=8,ids=1"}
	if tier == "thorough" {
		cfgs = append(cfgs, "n=4,tail=7,ids=2", "n=3,tail=1,ids=2")
	}
	for i := 0; i < 4; i++ {
		jobs = append(jobs, fmt.Sprintf("churn:%d/4", i))
	}
	jobs = append(jobs, "keys")
	for i := 0; i < 8; i++ {
		jobs = append(jobs, fmt.Sprintf("ipv4:%d/8", i))
	}
	for _, n := range []int{17, 20, 25, 33} {
		strides := []int{2, 3, 4}
		if tier == "thorough" {
			strides = []int{2, 3, 4, 5, 6}
		}
		for _, st := range strides {
			jobs = append(jobs, fmt.Sprintf("many:%d:%d", n, st))
		}
	}
	for _, c := range cfgs {
		sh := 8
		for i := 0; i < sh; i++ {
			jobs = append(jobs, "seq:"+c+":"+strconv.Itoa(i)+"/"+strconv.Itoa(sh))
		}
	}
	return jobs
}

// c08Churn: long histories from non-initial states. One reassembly context with small memory
// limits serves 60 datagrams one after the other (never more than one in flight, so nothing
// may ever be evicted): every one must be handed up exactly when its last missing fragment
// arrives. Every ordered pair of arrival patterns from the menu is alternated.
var c08Patterns = [][][2]int{ // fragments as [from,to) in 8-byte units of a 4-unit datagram
	{{0, 4}},
	{{0, 2}, {2, 4}},
	{{2, 4}, {0, 2}},
	{{0, 1}, {1, 2}, {2, 3}, {3, 4}},
	{{3, 4}, {2, 3}, {1, 2}, {0, 1}},
	{{0, 2}, {0, 2}, {2, 4}},
	{{2, 4}, {2, 4}, {0, 2}},
	{{0, 3}, {1, 4}},
	{{1, 4}, {0, 3}},
	{{-1, 0}, {0, 2}, {2, 4}}, // a stale fragment of the same id, then the timeout, then the set
}

func c08Churn(i, n int, r *engine.Result) []engine.Violation {
	var out []engine.Violation
	k := 0
	for a := range c08Patterns {
		for b := range c08Patterns {
			k++
			if k%n != i {
				continue
			}
			vtime.EnableVirtual()
			f := fragmentation.NewFragmentation(256, 128, 30*time.Second)
			var hist []string
			fail := func(format string, args ...interface{}) {
				if len(out) < 3 {
					out = append(out, engine.Violation{Property: "C08", Kind: "reassembly", Key: "churn:" + strings.SplitN(format, " ", 3)[0], Detail: fmt.Sprintf("patterns %d/%d alternating, after %d datagrams: ", a, b, len(hist)) + fmt.Sprintf(format, args...), Replay: engine.MustJSON(map[string]interface{}{"churn": []int{a, b}})})
				}
			}
		round:
			for d := 0; d < 60; d++ {
				pat := c08Patterns[a]
				if d%2 == 1 {
					pat = c08Patterns[b]
				}
				id := uint32(1 + d%3) // identifications are reused, as on a real path
				content := c08Content(int(id)+d, 0, 32)
				got := make([]bool, 4)
				for _, fr := range pat {
					if fr[0] < 0 {
						f.Process(id, 8, 15, true, c08VV([]byte("stale!!!"), 0))
						vtime.Advance(31 * time.Second)
						continue
					}
					res, done := f.Process(id, uint16(fr[0]*8), uint16(fr[1]*8-1), fr[1] < 4, c08VV(content[fr[0]*8:fr[1]*8], 3))
					r.Transitions++
					for u := fr[0]; u < fr[1]; u++ {
						got[u] = true
					}
					complete := got[0] && got[1] && got[2] && got[3]
					switch {
					case complete && !done:
						fail("lost: the last missing fragment [%d,%d) arrived but nothing was handed up", fr[0]*8, fr[1]*8)
						break round
					case !complete && done:
						fail("early: handed up before the set was complete")
						break round
					case done && !bytes.Equal(res.ToView(), content):
						fail("payload: handed up %x, original %x", res.ToView(), content)
						break round
					}
					if done {
						got = make([]bool, 4)
					}
				}
				hist = append(hist, fmt.Sprint(d))
			}
			r.Execs++
			r.Nontrivial++
		}
	}
	return out
}

// c08Many: datagrams of many fragments (the hole list outgrows its initial capacity of 16).
// Arrival orders: the fragments are dealt into st residue classes (i mod st); every
// permutation of the classes, each class ascending or descending; and each such order again
// with one duplicate of any fragment inserted at any later position. The datagram must be
// handed up exactly when the last distinct fragment arrives, with the right content.
func c08ManyOne(n int, order []int, content []byte, r *engine.Result) string {
	vtime.EnableVirtual()
	f := fragmentation.NewFragmentation(1<<20, 1<<19, 30*time.Second)
	got := make([]bool, n)
	have := 0
	for k, u := range order {
		res, done := f.Process(77, uint16(u*8), uint16(u*8+7), u < n-1, c08VV(content[u*8:u*8+8], 3))
		r.Transitions++
		if !got[u] {
			got[u] = true
			have++
		}
		switch {
		case have == n && !done:
			return fmt.Sprintf("lost: fragment #%d (unit %d) completed the set of %d but nothing was handed up", k, u, n)
		case have < n && done:
			return fmt.Sprintf("early: %d bytes handed up after fragment #%d although only %d of %d fragments have arrived", res.Size(), k, have, n)
		case done && !bytes.Equal(res.ToView(), content):
			return "payload: the datagram handed up differs from the original"
		}
		if done {
			break
		}
	}
	return ""
}

func c08Many(n, st int, r *engine.Result) []engine.Violation {
	var out []engine.Violation
	content := c08Content(n, st, n*8)
	run := func(order []int, what string) bool {
		msg := c08ManyOne(n, order, content, r)
		if msg != "" {
			if len(out) < 3 {
				out = append(out, engine.Violation{Property: "C08", Kind: "reassembly", Key: "many:" + strings.SplitN(msg, ":", 2)[0], Detail: fmt.Sprintf("%s; arrival order (units) %v: %s", what, order, msg), Replay: engine.MustJSON(map[string]interface{}{"many": order, "n": n, "st": st})})
			}
			return false
		}
		r.Execs++
		r.Nontrivial++
		return true
	}
	classes := make([][]int, st)
	for u := 0; u < n; u++ {
		classes[u%st] = append(classes[u%st], u)
	}
	perm := make([]int, st)
	for i := range perm {
		perm[i] = i
	}
	var rec func(k int)
	rec = func(k int) {
		if len(out) >= 3 {
			return
		}
		if k == st {
			for dirs := 0; dirs < 1<<uint(st); dirs++ {
				var order []int
				for q, c := range perm {
					cl := classes[c]
					for j := range cl {
						if dirs&(1<<uint(q)) != 0 {
							order = append(order, cl[len(cl)-1-j])
						} else {
							order = append(order, cl[j])
						}
					}
				}
				if !run(order, "no duplicate") {
					return
				}
				if st >= 6 && n > 20 {
					continue // (duplicates: covered for these lengths with the smaller strides)
				}
				for i := 0; i < n-1; i++ {
					for j := i + 1; j < n; j++ {
						o2 := append(append(append([]int{}, order[:j]...), order[i]), order[j:]...)
						if !run(o2, fmt.Sprintf("fragment #%d repeated before #%d", i, j)) {
							return
						}
					}
				}
			}
			return
		}
		for i := k; i < st; i++ {
			perm[k], perm[i] = perm[i], perm[k]
			rec(k + 1)
			perm[k], perm[i] = perm[i], perm[k]
		}
	}
	rec(0)
	return out
}

// ---------- reassembly keys (what ipv4.HandlePacket hands to Process) ----------

func c08Hdr(src, dst [4]byte, id uint16, proto byte) header.IPv4 {
	b := make([]byte, header.IPv4MinimumSize)
	h := header.IPv4(b)
	h.Encode(&header.IPv4Fields{IHL: header.IPv4MinimumSize, TotalLength: 28, ID: id, TTL: 64, Protocol: proto,
		SrcAddr: tcpipAddr(src[:]), DstAddr: tcpipAddr(dst[:])})
	return h
}

// c08Keys: (1) for three base tuples, every tuple that differs from the base in exactly one
// octet of source / destination / identification / protocol (11 octets x 255 values) must get
// a different reassembly key - a key that ignores part of a field collides systematically;
// (2) the key is a 32-bit hash of 88 bits, so colliding tuples exist for every hash seed: one
// is searched for among 2^22 tuples and the two datagrams are fed interleaved to the real
// reassembler under the keys the real hash gives them.
func c08Keys(r *engine.Result) []engine.Violation {
	var out []engine.Violation
	bases := []struct {
		src, dst [4]byte
		id       uint16
		proto    byte
	}{
		{[4]byte{10, 0, 0, 2}, [4]byte{10, 0, 0, 1}, 0x1234, 17},
		{[4]byte{192, 168, 77, 200}, [4]byte{192, 168, 77, 1}, 0, 6},
		{[4]byte{255, 255, 255, 254}, [4]byte{1, 2, 3, 4}, 0xffff, 1},
	}
	for bi, b := range bases {
		base := hash.IPv4FragmentHash(c08Hdr(b.src, b.dst, b.id, b.proto))
		var hits []string
		for oct := 0; oct < 11; oct++ {
			for v := 0; v < 256; v++ {
				src, dst, id, proto := b.src, b.dst, b.id, b.proto
				var name string
				switch {
				case oct < 4:
					if int(src[oct]) == v {
						continue
					}
					src[oct] = byte(v)
					name = fmt.Sprintf("source octet %d = %d", oct, v)
				case oct < 8:
					if int(dst[oct-4]) == v {
						continue
					}
					dst[oct-4] = byte(v)
					name = fmt.Sprintf("destination octet %d = %d", oct-4, v)
				case oct == 8:
					if int(id>>8) == v {
						continue
					}
					id = id&0xff | uint16(v)<<8
					name = fmt.Sprintf("identification high byte = %d", v)
				case oct == 9:
					if int(id&0xff) == v {
						continue
					}
					id = id&0xff00 | uint16(v)
					name = fmt.Sprintf("identification low byte = %d", v)
				default:
					if int(proto) == v {
						continue
					}
					proto = byte(v)
					name = fmt.Sprintf("protocol = %d", v)
				}
				r.Transitions++
				if hash.IPv4FragmentHash(c08Hdr(src, dst, id, proto)) == base {
					hits = append(hits, name)
				}
			}
		}
		r.Execs++
		r.Nontrivial++
		if len(hits) >= 2 {
			out = append(out, engine.Violation{Property: "C08", Kind: "reassembly-key", Key: "key-ignores-field", Detail: fmt.Sprintf("base tuple %d (%v -> %v id %#x proto %d): %d tuples that differ from it in one octet get the same reassembly key, e.g. %s; %s - fragments of those datagrams are reassembled together", bi, b.src, b.dst, b.id, b.proto, len(hits), hits[0], hits[1]), Replay: engine.MustJSON(map[string]interface{}{"keys": true})})
		}
	}
	// (2) a colliding pair for this process's hash seed
	type ent struct {
		key uint32
		idx uint32
	}
	const N = 1 << 22
	ents := make([]ent, N)
	mk := func(i uint32) header.IPv4 {
		return c08Hdr([4]byte{10, 0, byte(i >> 16 & 0x3f), 2}, [4]byte{10, 0, 0, 1}, uint16(i), 17)
	}
	for i := uint32(0); i < N; i++ {
		ents[i] = ent{hash.IPv4FragmentHash(mk(i)), i}
	}
	sort.Slice(ents, func(a, b int) bool { return ents[a].key < ents[b].key })
	r.Transitions += N
	for i := 1; i < N; i++ {
		if ents[i].key != ents[i-1].key {
			continue
		}
		a, b := ents[i-1].idx, ents[i].idx
		vtime.EnableVirtual()
		f := fragmentation.NewFragmentation(1<<20, 1<<19, 30*time.Second)
		ca, cb := c08Content(1, 0, 32), c08Content(2, 0, 32)
		// datagram A's first half, then datagram B's second half: neither set is complete
		f.Process(hash.IPv4FragmentHash(mk(a)), 0, 15, true, c08VV(ca[:16], 3))
		res, done := f.Process(hash.IPv4FragmentHash(mk(b)), 16, 31, false, c08VV(cb[16:], 3))
		r.Execs++
		r.Nontrivial++
		if done {
			ha, hb := mk(a), mk(b)
			out = append(out, engine.Violation{Property: "C08", Kind: "reassembly-key", Key: "hash-collision-merges-datagrams", Detail: fmt.Sprintf("datagrams (%x -> %x id %#x proto 17) and (%x -> %x id %#x proto 17) get the same 32-bit reassembly key %#x: the first half of one and the second half of the other were handed up as one datagram %x although neither set is complete", string(ha.SourceAddress()), string(ha.DestinationAddress()), ha.ID(), string(hb.SourceAddress()), string(hb.DestinationAddress()), hb.ID(), ents[i].key, res.ToView()), Replay: engine.MustJSON(map[string]interface{}{"keys": true})})
		}
		break
	}
	return out
}

func tcpipAddr(b []byte) tcpip.Address { return tcpip.Address(string(b)) }

func c08Run(job, tier string, deadline time.Time) *engine.Result {
	r := &engine.Result{Exhaustive: true}
	if job == "keys" {
		r.Violations = c08Keys(r)
		for k := range r.Violations {
			r.Violations[k].Job = job
		}
		r.States = r.Execs + 1
		r.Outcomes = []uint64{engine.Hash(job, len(r.Violations) > 0)}
		r.Sample(map[string]interface{}{"keys": "3 base tuples x 2805 single-octet variants; collision search over 2^22 tuples"})
		return r
	}
	if strings.HasPrefix(job, "ipv4:") {
		var i, n int
		fmt.Sscanf(job, "ipv4:%d/%d", &i, &n)
		depth := 3
		if tier == "thorough" {
			depth = 4
		}
		r.Violations = c08IPJob(i, n, depth, r)
		for k := range r.Violations {
			r.Violations[k].Job = job
		}
		r.States = r.Execs + 1
		r.Outcomes = []uint64{engine.Hash(job, len(r.Violations))}
		r.Bound = fmt.Sprintf("all sequences of %d fragments over 16 symbols through ipv4.HandlePacket", depth)
		r.Sample(map[string]interface{}{"ipv4": "UDP datagram of four 8-byte units to a bound socket; unit-interval fragments, empty fragments with MF at every offset, fragments ending beyond 65535"})
		return r
	}
	if strings.HasPrefix(job, "many:") {
		var n, st int
		fmt.Sscanf(job, "many:%d:%d", &n, &st)
		r.Violations = c08Many(n, st, r)
		for k := range r.Violations {
			r.Violations[k].Job = job
		}
		r.States = r.Execs + 1
		r.Outcomes = []uint64{engine.Hash(job, len(r.Violations))}
		r.Bound = fmt.Sprintf("datagram of %d one-unit fragments; arrival orders = every permutation and direction of the %d residue classes mod %d, each also with one duplicate of any fragment inserted at any later position (not for stride 6 with more than 20 fragments)", n, st, st)
		r.Sample(map[string]interface{}{"many": r.Bound})
		return r
	}
	if strings.HasPrefix(job, "churn:") {
		var i, n int
		fmt.Sscanf(job, "churn:%d/%d", &i, &n)
		r.Violations = c08Churn(i, n, r)
		for k := range r.Violations {
			r.Violations[k].Job = job
		}
		r.States = r.Execs + 1
		r.Outcomes = []uint64{engine.Hash(job, len(r.Violations))}
		r.Sample(map[string]interface{}{"churn": "60 datagrams in sequence on one context with limits 256/128, every ordered pair of 10 arrival patterns alternating"})
		return r
	}
	if strings.HasPrefix(job, "coop:") {
		p := c08Progs[job[5:]]
		bound := -1
		if len(p.threads) > 2 {
			bound = 3
			if tier == "thorough" {
				bound = 5
			}
		}
		st := engine.Explore(job, c08Harness(p), engine.CoopCfg{Bound: bound, Deadline: deadline})
		st.Into(r)
		r.Bound = fmt.Sprintf("coop preemptions<=%d (-1 = unbounded)", bound)
		return r
	}
	cfg := c08SeqCfg(job, tier, deadline)
	st := engine.ExploreSeq(job, cfg)
	st.Into(r)
	r.States = st.Sequences + 1 // no state abstraction: every sequence end is a state
	r.Bound = fmt.Sprintf("all arrival sequences <=%d", cfg.FullDepth)
	return r
}

func c08Replay(rp json.RawMessage) *engine.Violation {
	var ch struct {
		Churn []int `json:"churn"`
	}
	var ky struct {
		Keys bool `json:"keys"`
	}
	if json.Unmarshal(rp, &ky) == nil && ky.Keys {
		for _, v := range c08Keys(&engine.Result{}) {
			if v.Key == "key-ignores-field" {
				vv := v
				return &vv
			}
		}
		return nil
	}
	var ipq struct {
		Seq []int `json:"ipv4seq"`
	}
	if json.Unmarshal(rp, &ipq) == nil && len(ipq.Seq) > 0 {
		src, dst := tcpip.Address("\x0a\x00\x00\x02"), tcpip.Address("\x0a\x00\x00\x01")
		payload := []byte("0123456789abcdefghijklmn")
		msg := ref.BuildUDP(4096, 5300, payload, []byte(src), []byte(dst))
		if m := c08IPRun(ipq.Seq, c08IPAlphabet(msg), msg, payload, src, dst); m != "" {
			return &engine.Violation{Property: "C08", Kind: "reassembly", Key: "ipv4:incomplete-set-delivered", Detail: m}
		}
		return nil
	}
	var mn struct {
		Many []int `json:"many"`
		N    int   `json:"n"`
		St   int   `json:"st"`
	}
	if json.Unmarshal(rp, &mn) == nil && len(mn.Many) > 0 {
		if msg := c08ManyOne(mn.N, mn.Many, c08Content(mn.N, mn.St, mn.N*8), &engine.Result{}); msg != "" {
			return &engine.Violation{Property: "C08", Kind: "reassembly", Key: "many:" + strings.SplitN(msg, ":", 2)[0], Detail: fmt.Sprintf("arrival order (units) %v: %s", mn.Many, msg)}
		}
		return nil
	}
	if json.Unmarshal(rp, &ch) == nil && len(ch.Churn) == 2 {
		// re-run exactly that pair
		k := ch.Churn[0]*len(c08Patterns) + ch.Churn[1] + 1
		n := len(c08Patterns)*len(c08Patterns) + 1
		if vs := c08Churn(k%n, n, &engine.Result{}); len(vs) > 0 {
			return &vs[0]
		}
		return nil
	}
	var sr engine.SeqReplay
	if json.Unmarshal(rp, &sr) == nil && strings.HasPrefix(sr.Job, "seq:") {
		return engine.ReplaySeq(c08SeqCfg(sr.Job, "quick", time.Time{}), sr.Ops)
	}
	var cr engine.CoopReplay
	if json.Unmarshal(rp, &cr) == nil && strings.HasPrefix(cr.Job, "coop:") {
		return engine.ReplayCoop(c08Harness(c08Progs[cr.Job[5:]]), cr.Choices)
	}
	return nil
}
