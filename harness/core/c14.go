package main

import (
	"encoding/json"
	"fmt"
	"time"

	"github.com/brewlin/net-protocol/pkg/seqnum"

	"verif/engine"
)

// C14: sequence-space arithmetic, exhaustive enumeration: for each base point every one
// of the 2^32 second operands, against the definition on 64-bit distances.

func init() {
	engine.Register(&engine.Check{
		ID:        "C14",
		Technique: "exhaustive enumeration (depth-1 explicit-state search): all 2^32 second operands from each base point, every seqnum function compared with the serial-number definition computed on 64-bit distances",
		Rule:      "for each base b in the base set and every w in [0,2^32): LessThan/LessThanEq both ways, Add/Size/UpdateForward inverse laws, InRange/InWindow for each size in the size set (value moving and range moving), Overlap for each pair of window sizes in [1,2^30]; distinct = distinct operand tuple; non-trivial = all",
		Assumes: []string{
			"Overlap is checked for non-empty windows no larger than 2^30 (the largest TCP window, RFC 7323); with an empty window or a combined span >= 2^31 serial arithmetic cannot order the edges (stated up front in DESIGN.md §5 C14)",
			"the 'every TCP property holds with wrap-adjacent ISS' half is exercised by the TCP checks (C01-C05) whose scenario sets include initial sequence numbers just below 2^31 and 2^32",
		},
		Jobs:      c14Jobs,
		Run:       c14Run,
		Replay:    c14Replay,
		NeedRepro: true,
	})
}

var c14BasesQuick = []uint32{0, 1 << 31, 0xffffffff}
var c14BasesThorough = []uint32{0, 1, 2, 1<<31 - 2, 1<<31 - 1, 1 << 31, 1<<31 + 1, 0xfffffffe, 0xffffffff, 0x12345678, 0xedcba987}
var c14SizesQuick = []uint32{0, 1, 0xffff, 1<<31 - 1, 1 << 31, 0xffffffff}
var c14SizesThorough = []uint32{0, 1, 2, 0xffff, 1 << 30, 1<<31 - 1, 1 << 31, 0xffffffff}
var c14WinQuick = []uint32{1, 1460, 1 << 30}
var c14WinThorough = []uint32{1, 2, 1460, 0xffff, 1 << 30}

const c14Chunks = 16

func c14Jobs(tier string) []string {
	bases := c14BasesQuick
	if tier == "thorough" {
		bases = c14BasesThorough
	}
	var jobs []string
	for _, b := range bases {
		for c := 0; c < c14Chunks; c++ {
			jobs = append(jobs, fmt.Sprintf("%d:%d", b, c))
		}
	}
	return jobs
}

func prec(v, w uint32) bool {
	d := (uint64(w) + 1<<32 - uint64(v)) & 0xffffffff
	return d >= 1 && d <= 1<<31-1
}

func inRange(v, a, b uint32) bool {
	dv := (uint64(v) + 1<<32 - uint64(a)) & 0xffffffff
	db := (uint64(b) + 1<<32 - uint64(a)) & 0xffffffff
	return dv < db
}

func overlapRef(a, bs, x, ys uint32) bool {
	d1 := (uint64(x) + 1<<32 - uint64(a)) & 0xffffffff
	d2 := (uint64(a) + 1<<32 - uint64(x)) & 0xffffffff
	return d1 < uint64(bs) || d2 < uint64(ys)
}

type c14Fail struct {
	Fn         string
	A, B, C, D uint32
	Got, Want  bool
}

func c14CheckOne(b, w uint32, sizes, wins []uint32, fail func(c14Fail)) int64 {
	var n int64
	bv, wv := seqnum.Value(b), seqnum.Value(w)
	if g, e := bv.LessThan(wv), prec(b, w); g != e {
		fail(c14Fail{"LessThan", b, w, 0, 0, g, e})
	}
	if g, e := wv.LessThan(bv), prec(w, b); g != e {
		fail(c14Fail{"LessThan", w, b, 0, 0, g, e})
	}
	if g, e := bv.LessThanEq(wv), b == w || prec(b, w); g != e {
		fail(c14Fail{"LessThanEq", b, w, 0, 0, g, e})
	}
	if g, e := wv.LessThanEq(bv), b == w || prec(w, b); g != e {
		fail(c14Fail{"LessThanEq", w, b, 0, 0, g, e})
	}
	sz := bv.Size(wv)
	if bv.Add(sz) != wv {
		fail(c14Fail{"Add(Size)", b, w, uint32(sz), 0, false, true})
	}
	x := bv
	x.UpdateForward(sz)
	if x != wv || uint32(sz) != w-b {
		fail(c14Fail{"UpdateForward/Size", b, w, uint32(sz), 0, false, true})
	}
	n += 6
	for _, s := range sizes {
		// value moving, range fixed at the base
		if g, e := wv.InRange(bv, bv.Add(seqnum.Size(s))), inRange(w, b, b+s); g != e {
			fail(c14Fail{"InRange", w, b, b + s, 0, g, e})
		}
		if g, e := wv.InWindow(bv, seqnum.Size(s)), inRange(w, b, b+s); g != e {
			fail(c14Fail{"InWindow", w, b, s, 0, g, e})
		}
		// value fixed at the base, range moving
		if g, e := bv.InRange(wv, wv.Add(seqnum.Size(s))), inRange(b, w, w+s); g != e {
			fail(c14Fail{"InRange", b, w, w + s, 0, g, e})
		}
		n += 3
	}
	for _, s1 := range wins {
		for _, s2 := range wins {
			if g, e := seqnum.Overlap(bv, seqnum.Size(s1), wv, seqnum.Size(s2)), overlapRef(b, s1, w, s2); g != e {
				fail(c14Fail{"Overlap", b, s1, w, s2, g, e})
			}
			n++
		}
	}
	return n
}

func c14Run(job, tier string, deadline time.Time) *engine.Result {
	r := &engine.Result{Exhaustive: true}
	var b uint32
	var chunk int
	fmt.Sscanf(job, "%d:%d", &b, &chunk)
	sizes, wins := c14SizesQuick, c14WinQuick
	if tier == "thorough" {
		sizes, wins = c14SizesThorough, c14WinThorough
	}
	per := uint64(1<<32) / c14Chunks
	lo, hi := uint64(chunk)*per, uint64(chunk+1)*per
	var evals int64
	fails := map[string]int{}
	fail := func(f c14Fail) {
		key := f.Fn
		if f.Fn == "LessThan" && f.B-f.A == 1<<31 {
			key = "LessThan-antipode"
		}
		if f.Fn == "LessThanEq" && f.B-f.A == 1<<31 {
			key = "LessThanEq-antipode"
		}
		fails[key]++
		if fails[key] > 1 || len(r.Violations) >= 8 {
			return
		}
		r.Violations = append(r.Violations, engine.Violation{Property: "C14", Kind: "arith-mismatch", Key: "seqnum:" + key,
			Detail: fmt.Sprintf("%s(%d, %d, %d, %d) = %v, serial-number definition says %v", f.Fn, f.A, f.B, f.C, f.D, f.Got, f.Want),
			Job:    job, Replay: engine.MustJSON(map[string]interface{}{"base": b, "w": f.opW(b), "tier": tier})})
	}
	for w := lo; w < hi; w++ {
		evals += c14CheckOne(b, uint32(w), sizes, wins, fail)
		if w&0xffffff == 0 && time.Now().After(deadline) {
			r.Exhaustive = false
			r.Caps = append(r.Caps, fmt.Sprintf("%s: deadline after %d operands", job, w-lo))
			hi = w + 1
			break
		}
	}
	r.Execs = int64(hi - lo)
	r.States = int64(hi - lo)
	r.Transitions = evals
	r.Nontrivial = int64(hi - lo)
	r.Outcomes = []uint64{engine.Hash(len(fails) == 0), engine.Hash(job)}
	r.AddExtra("function_evaluations", evals)
	if chunk == 0 {
		r.Sample(map[string]interface{}{"base": b, "w_range": []uint64{lo, hi - 1}, "functions": "LessThan, LessThanEq, Add, Size, UpdateForward, InRange, InWindow, Overlap", "sizes": sizes, "window_sizes": wins})
	}
	r.Bound = "all 2^32 operands per base"
	return r
}

// opW recovers the moving operand w of a failing tuple.
func (f c14Fail) opW(b uint32) uint32 {
	switch f.Fn {
	case "Overlap":
		return f.C
	}
	if f.A == b {
		return f.B
	}
	return f.A
}

func c14Replay(rp json.RawMessage) *engine.Violation {
	var p struct {
		Base, W uint32
		Tier    string
	}
	if json.Unmarshal(rp, &p) != nil {
		return nil
	}
	sizes, wins := c14SizesQuick, c14WinQuick
	if p.Tier == "thorough" {
		sizes, wins = c14SizesThorough, c14WinThorough
	}
	var v *engine.Violation
	c14CheckOne(p.Base, p.W, sizes, wins, func(f c14Fail) {
		if v == nil {
			v = &engine.Violation{Property: "C14", Kind: "arith-mismatch", Key: "seqnum:" + f.Fn, Detail: fmt.Sprintf("%s(%d, %d, %d, %d) = %v, want %v", f.Fn, f.A, f.B, f.C, f.D, f.Got, f.Want)}
		}
	})
	return v
}
