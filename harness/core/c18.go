package main

import (
	"encoding/json"
	"fmt"
	"strconv"
	"strings"
	"time"

	"github.com/brewlin/net-protocol/pkg/tmutex"

	"verif/engine"
	"verif/shim/vsched"
)

// C18: try-lock mutex. Threads run scripts over {L = Lock;cs;Unlock, T = TryLock→(cs;Unlock)}.
// Schedule points: every atomic operation of tmutex, its channel receive and select
// (instrumented), plus one explicit point inside the critical section.

func init() {
	engine.Register(&engine.Check{
		ID:        "C18",
		Technique: "stateless model checking of the real tmutex code under a cooperative scheduler: DFS over all schedules with iterative preemption bounding",
		Rule:      "every schedule (choice of next thread at each atomic op / channel op of pkg/tmutex) of every harness of 2-4 threads with scripts of <=2 ops over {Lock;cs;Unlock, TryLock}; distinct = distinct schedule; non-trivial = deviates from the default schedule",
		Assumes: []string{
			"sequential consistency at schedule points (sync/atomic is SC in Go); unsynchronised accesses are covered by the separate free-running -race pass in the thorough tier",
			"blocking channel receive in Lock modelled as: disabled until the buffered channel is non-empty",
		},
		Jobs:      c18Jobs,
		Run:       c18Run,
		Replay:    c18Replay,
		NeedRepro: true,
	})
}

func c18Scripts() []string {
	ops := []string{"L", "T"}
	var s []string
	for _, a := range ops {
		s = append(s, a)
	}
	for _, a := range ops {
		for _, b := range ops {
			s = append(s, a+b)
		}
	}
	return s
}

func c18Jobs(tier string) []string {
	var jobs []string
	sc := c18Scripts()
	bound := 3
	if tier == "thorough" {
		bound = 4
	}
	// 2 threads
	for i, a := range sc {
		for _, b := range sc[i:] {
			jobs = append(jobs, fmt.Sprintf("b=%d;%s,%s", bound+1, a, b))
		}
	}
	// 3 threads (unordered triples)
	for i, a := range sc {
		for j, b := range sc[i:] {
			for _, c := range sc[i+j:] {
				jobs = append(jobs, fmt.Sprintf("b=%d;%s,%s,%s", bound, a, b, c))
			}
		}
	}
	// 4 threads, one op each
	for _, a := range []string{"LLLL", "LLLT", "LLTT", "LTTT", "TTTT"} {
		jobs = append(jobs, fmt.Sprintf("b=%d;%s", bound, strings.Join(strings.Split(a, ""), ",")))
	}
	if tier == "thorough" {
		jobs = append(jobs, "race")
	}
	return jobs
}

func c18Parse(job string) (int, []string) {
	parts := strings.SplitN(job, ";", 2)
	b, _ := strconv.Atoi(strings.TrimPrefix(parts[0], "b="))
	return b, strings.Split(parts[1], ",")
}

type c18State struct {
	m        tmutex.Mutex
	occ      int
	maxOcc   int
	inOp     int
	opStarts int
	errs     []string
	acq      []int // per thread successful acquisitions
	tryFail  int
	trySucc  int
}

func c18Harness(scripts []string) engine.Harness {
	return func() (func(), func(*vsched.Sched) (*engine.Violation, uint64)) {
		st := &c18State{acq: make([]int, len(scripts))}
		st.m.Init()
		cs := func(i int) {
			st.occ++
			if st.occ > st.maxOcc {
				st.maxOcc = st.occ
			}
			st.acq[i]++
			vsched.Point()
			st.occ--
		}
		body := func() {
			var ts []*vsched.Thread
			for i, sc := range scripts {
				i, sc := i, sc
				ts = append(ts, vsched.Go(func() {
					for _, op := range sc {
						vsched.Point() // operation start is itself a decision point
						st.inOp++
						st.opStarts++
						switch op {
						case 'L':
							st.m.Lock()
							cs(i)
							st.m.Unlock()
						case 'T':
							alone := st.inOp == 1
							starts := st.opStarts
							free := st.occ == 0
							th := vsched.Self()
							blocksBefore := th.Blocks
							ok := st.m.TryLock()
							if th.Blocks != blocksBefore {
								st.errs = append(st.errs, "TryLock blocked")
							}
							if ok {
								st.trySucc++
								cs(i)
								st.m.Unlock()
							} else {
								st.tryFail++
								if alone && free && starts == st.opStarts {
									st.errs = append(st.errs, fmt.Sprintf("thread %d: TryLock failed although the mutex was free and no other operation overlapped it", i))
								}
							}
						}
						st.inOp--
					}
				}))
			}
			vsched.Join(ts...)
			// everything released: the mutex must be free now
			if !st.m.TryLock() {
				st.errs = append(st.errs, "final TryLock failed with all threads finished (mutex not free)")
			} else {
				st.m.Unlock()
			}
		}
		check := func(s *vsched.Sched) (*engine.Violation, uint64) {
			out := engine.Hash(s.Outcome, st.maxOcc, st.acq, st.tryFail, st.trySucc, len(st.errs))
			switch s.Outcome {
			case vsched.Deadlock:
				return &engine.Violation{Property: "C18", Kind: "deadlock", Key: "lost-wakeup", Detail: "no thread can run but some have not finished (lost wake-up): " + s.Detail}, out
			case vsched.Livelock:
				return &engine.Violation{Property: "C18", Kind: "livelock", Key: "livelock", Detail: s.Detail}, out
			case vsched.Panicked:
				return &engine.Violation{Property: "C18", Kind: "panic", Key: "panic", Detail: s.Detail}, out
			}
			if st.maxOcc > 1 {
				return &engine.Violation{Property: "C18", Kind: "mutual-exclusion", Key: "mutex-two-holders", Detail: fmt.Sprintf("%d threads inside the critical section at once", st.maxOcc)}, out
			}
			if len(st.errs) > 0 {
				return &engine.Violation{Property: "C18", Kind: "trylock", Key: "trylock:" + st.errs[0], Detail: strings.Join(st.errs, "; ")}, out
			}
			return nil, out
		}
		return body, check
	}
}

func c18Run(job, tier string, deadline time.Time) *engine.Result {
	r := &engine.Result{Exhaustive: true}
	if job == "race" {
		return c18Race(r)
	}
	bound, scripts := c18Parse(job)
	st := engine.Explore(job, c18Harness(scripts), engine.CoopCfg{Bound: bound, Deadline: deadline})
	st.Into(r)
	r.Bound = fmt.Sprintf("preemptions<=%d", bound)
	return r
}

func c18Replay(rp json.RawMessage) *engine.Violation {
	var cr engine.CoopReplay
	if json.Unmarshal(rp, &cr) != nil {
		return nil
	}
	_, scripts := c18Parse(cr.Job)
	return engine.ReplayCoop(c18Harness(scripts), cr.Choices)
}

// c18Race is the free-running pass (real goroutines, pass-through shims); meaningful when
// the harness was built with -race, and a plain stress run otherwise.
func c18Race(r *engine.Result) *engine.Result {
	var m tmutex.Mutex
	m.Init()
	shared := 0
	done := make(chan bool)
	const N = 4
	for g := 0; g < N; g++ {
		go func(g int) {
			for i := 0; i < 2000; i++ {
				if g%2 == 0 {
					m.Lock()
					shared++
					m.Unlock()
				} else if m.TryLock() {
					shared++
					m.Unlock()
				}
			}
			done <- true
		}(g)
	}
	for g := 0; g < N; g++ {
		<-done
	}
	r.Execs = 1
	r.States = 1
	r.Transitions = int64(shared)
	r.AddExtra("free_running_ops", int64(shared))
	return r
}
