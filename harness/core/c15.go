package main

import (
	"bytes"
	"encoding/binary"
	"encoding/json"
	"fmt"
	"strings"
	"time"

	"github.com/brewlin/net-protocol/pkg/seqnum"
	tcpip "github.com/brewlin/net-protocol/protocol"
	"github.com/brewlin/net-protocol/protocol/header"

	"verif/engine"
	"verif/ref"
)

// C15: header codecs and the Internet checksum, exhaustive enumeration of bounded input
// domains against the independent reference (RFC bit layouts, ref.Sum).

func init() {
	engine.Register(&engine.Check{
		ID:        "C15",
		Technique: "exhaustive enumeration of finite input domains (depth-1 explicit-state search) of the real codecs against an independent RFC-layout reference",
		Rule:      "fields: every value of every field <=16 bits (<=20 for the flow label) of every header the library builds, others at all-zero and all-ones background, 32-bit fields over a boundary menu (quick) or all 2^32 values (thorough); options: every byte string of length <=6 over an 11-symbol alphabet and every encoder output truncated at every length; checksum: all 2^16 initial values x all buffers of length <=2, every length 0..65535 x 4 fills x 4 initial values, all even split points, all 2^32 ChecksumCombine pairs; distinct = distinct input; all non-trivial",
		Assumes:   []string{"field domains are the representable values (IPv4 header length in 4-byte units, fragment offsets in 8-byte units, ...)"},
		Jobs:      c15Jobs,
		Run:       c15Run,
		Replay:    c15Replay,
		NeedRepro: true,
		DeadlineT: 75 * time.Minute,
	})
}

type c15Field struct {
	name   string
	off    int // bit offset
	width  int // bits; 0 = end marker
	fixed  bool
	fixedV uint64
}

type c15Hdr struct {
	name   string
	size   int
	fields []c15Field
	// encode writes the header into a zeroed buffer of hdr.size using the repository's encoder
	encode func(v []uint64) []byte
	// decode reads every field back through the repository's accessors; ok[i]=false if there is no accessor
	decode func(b []byte) (v []uint64, ok []bool)
}

func refEncode(h *c15Hdr, v []uint64) []byte {
	b := make([]byte, h.size)
	for i, f := range h.fields {
		val := v[i]
		if f.fixed {
			val = f.fixedV
		}
		for k := 0; k < f.width; k++ {
			bit := (val >> uint(f.width-1-k)) & 1
			pos := f.off + k
			if bit != 0 {
				b[pos/8] |= 1 << uint(7-pos%8)
			}
		}
	}
	return b
}

func addr(hi, lo uint64, n int) tcpip.Address {
	var b [16]byte
	binary.BigEndian.PutUint64(b[0:], hi)
	binary.BigEndian.PutUint64(b[8:], lo)
	return tcpip.Address(b[16-n:])
}

func u48(v uint64) []byte {
	var b [8]byte
	binary.BigEndian.PutUint64(b[:], v)
	return b[2:]
}

func beU(b []byte) uint64 {
	var v uint64
	for _, x := range b {
		v = v<<8 | uint64(x)
	}
	return v
}

func c15Headers() []*c15Hdr {
	var hs []*c15Hdr
	F := func(name string, off, width int) c15Field { return c15Field{name: name, off: off, width: width} }
	X := func(name string, off, width int, v uint64) c15Field {
		return c15Field{name: name, off: off, width: width, fixed: true, fixedV: v}
	}
	all := func(n int) []bool {
		o := make([]bool, n)
		for i := range o {
			o[i] = true
		}
		return o
	}
	// Ethernet II
	hs = append(hs, &c15Hdr{name: "ethernet", size: 14,
		fields: []c15Field{F("dst", 0, 48), F("src", 48, 48), F("type", 96, 16)},
		encode: func(v []uint64) []byte {
			b := make([]byte, 14)
			header.Ethernet(b).Encode(&header.EthernetFields{DstAddr: tcpip.LinkAddress(u48(v[0])), SrcAddr: tcpip.LinkAddress(u48(v[1])), Type: tcpip.NetworkProtocolNumber(v[2])})
			return b
		},
		decode: func(b []byte) ([]uint64, []bool) {
			e := header.Ethernet(b)
			return []uint64{beU([]byte(e.DestinationAddress())), beU([]byte(e.SourceAddress())), uint64(e.Type())}, all(3)
		}})
	// ARP (IPv4 over Ethernet)
	hs = append(hs, &c15Hdr{name: "arp", size: 28,
		fields: []c15Field{X("htype", 0, 16, 1), X("ptype", 16, 16, 0x0800), X("hlen", 32, 8, 6), X("plen", 40, 8, 4), F("op", 48, 16), F("sha", 64, 48), F("spa", 112, 32), F("tha", 144, 48), F("tpa", 192, 32)},
		encode: func(v []uint64) []byte {
			b := make([]byte, 28)
			a := header.ARP(b)
			a.SetIpv4OverEthernet()
			a.SetOp(header.ARPOp(v[4]))
			copy(a.HardwareAddressSender(), u48(v[5]))
			copy(a.ProtocolAddressSender(), u48(v[6])[2:])
			copy(a.HardwareAddressTarget(), u48(v[7]))
			copy(a.ProtocolAddressTarget(), u48(v[8])[2:])
			return b
		},
		decode: func(b []byte) ([]uint64, []bool) {
			a := header.ARP(b)
			ok := all(9)
			if !a.IsValid() {
				return []uint64{0, 0, 0, 0, 0, 0, 0, 0, 0}, make([]bool, 9)
			}
			return []uint64{1, 0x0800, 6, 4, uint64(a.Op()), beU(a.HardwareAddressSender()), beU(a.ProtocolAddressSender()), beU(a.HardwareAddressTarget()), beU(a.ProtocolAddressTarget())}, ok
		}})
	// IPv4
	hs = append(hs, &c15Hdr{name: "ipv4", size: 20,
		fields: []c15Field{X("version", 0, 4, 4), F("ihl", 4, 4), F("tos", 8, 8), F("totlen", 16, 16), F("id", 32, 16), F("flags", 48, 3), F("fragoff", 51, 13), F("ttl", 64, 8), F("proto", 72, 8), F("cksum", 80, 16), F("src", 96, 32), F("dst", 128, 32)},
		encode: func(v []uint64) []byte {
			b := make([]byte, 20)
			header.IPv4(b).Encode(&header.IPv4Fields{IHL: uint8(v[1] * 4), TOS: uint8(v[2]), TotalLength: uint16(v[3]), ID: uint16(v[4]), Flags: uint8(v[5]), FragmentOffset: uint16(v[6] * 8), TTL: uint8(v[7]), Protocol: uint8(v[8]), Checksum: uint16(v[9]), SrcAddr: addr(0, v[10], 4), DstAddr: addr(0, v[11], 4)})
			return b
		},
		decode: func(b []byte) ([]uint64, []bool) {
			h := header.IPv4(b)
			tos, _ := h.TOS()
			return []uint64{uint64(header.IPVersion(b)), uint64(h.HeaderLength()) / 4, uint64(tos), uint64(h.TotalLength()), uint64(h.ID()), uint64(h.Flags()), uint64(h.FragmentOffset()) / 8, uint64(h.TTL()), uint64(h.Protocol()), uint64(h.Checksum()), beU([]byte(h.SourceAddress())), beU([]byte(h.DestinationAddress()))}, all(12)
		}})
	// IPv6
	hs = append(hs, &c15Hdr{name: "ipv6", size: 40,
		fields: []c15Field{X("version", 0, 4, 6), F("tclass", 4, 8), F("flow", 12, 20), F("plen", 32, 16), F("next", 48, 8), F("hop", 56, 8), F("src.hi", 64, 64), F("src.lo", 128, 64), F("dst.hi", 192, 64), F("dst.lo", 256, 64)},
		encode: func(v []uint64) []byte {
			b := make([]byte, 40)
			header.IPv6(b).Encode(&header.IPv6Fields{TrafficClass: uint8(v[1]), FlowLabel: uint32(v[2]), PayloadLength: uint16(v[3]), NextHeader: uint8(v[4]), HopLimit: uint8(v[5]), SrcAddr: addr(v[6], v[7], 16), DstAddr: addr(v[8], v[9], 16)})
			return b
		},
		decode: func(b []byte) ([]uint64, []bool) {
			h := header.IPv6(b)
			tc, fl := h.TOS()
			s, d := []byte(h.SourceAddress()), []byte(h.DestinationAddress())
			return []uint64{uint64(header.IPVersion(b)), uint64(tc), uint64(fl), uint64(h.PayloadLength()), uint64(h.NextHeader()), uint64(h.HopLimit()), beU(s[:8]), beU(s[8:]), beU(d[:8]), beU(d[8:])}, all(10)
		}})
	// IPv6 fragment header
	hs = append(hs, &c15Hdr{name: "ipv6frag", size: 8,
		fields: []c15Field{F("next", 0, 8), X("reserved", 8, 8, 0), F("offset", 16, 13), X("res2", 29, 2, 0), F("more", 31, 1), F("id", 32, 32)},
		encode: func(v []uint64) []byte {
			b := make([]byte, 8)
			header.IPv6Fragment(b).Encode(&header.IPv6FragmentFields{NextHeader: uint8(v[0]), FragmentOffset: uint16(v[2]), M: v[4] != 0, Identification: uint32(v[5])})
			return b
		},
		decode: func(b []byte) ([]uint64, []bool) {
			h := header.IPv6Fragment(b)
			m := uint64(0)
			if h.More() {
				m = 1
			}
			return []uint64{uint64(h.NextHeader()), 0, uint64(h.FragmentOffset()), 0, m, uint64(h.ID())}, all(6)
		}})
	// ICMPv4 / ICMPv6 common header
	hs = append(hs, &c15Hdr{name: "icmpv4", size: 4,
		fields: []c15Field{F("type", 0, 8), F("code", 8, 8), F("cksum", 16, 16)},
		encode: func(v []uint64) []byte {
			b := make([]byte, 4)
			h := header.ICMPv4(b)
			h.SetType(header.ICMPv4Type(v[0]))
			h.SetCode(byte(v[1]))
			h.SetChecksum(uint16(v[2]))
			return b
		},
		decode: func(b []byte) ([]uint64, []bool) {
			h := header.ICMPv4(b)
			return []uint64{uint64(h.Type()), uint64(h.Code()), uint64(h.Checksum())}, all(3)
		}})
	hs = append(hs, &c15Hdr{name: "icmpv6", size: 4,
		fields: []c15Field{F("type", 0, 8), F("code", 8, 8), F("cksum", 16, 16)},
		encode: func(v []uint64) []byte {
			b := make([]byte, 4)
			h := header.ICMPv6(b)
			h.SetType(header.ICMPv6Type(v[0]))
			h.SetCode(byte(v[1]))
			h.SetChecksum(uint16(v[2]))
			return b
		},
		decode: func(b []byte) ([]uint64, []bool) {
			h := header.ICMPv6(b)
			return []uint64{uint64(h.Type()), uint64(h.Code()), uint64(h.Checksum())}, all(3)
		}})
	// UDP
	hs = append(hs, &c15Hdr{name: "udp", size: 8,
		fields: []c15Field{F("sport", 0, 16), F("dport", 16, 16), F("len", 32, 16), F("cksum", 48, 16)},
		encode: func(v []uint64) []byte {
			b := make([]byte, 8)
			header.UDP(b).Encode(&header.UDPFields{SrcPort: uint16(v[0]), DstPort: uint16(v[1]), Length: uint16(v[2]), Checksum: uint16(v[3])})
			return b
		},
		decode: func(b []byte) ([]uint64, []bool) {
			h := header.UDP(b)
			return []uint64{uint64(h.SourcePort()), uint64(h.DestinationPort()), uint64(h.Length()), uint64(h.Checksum())}, all(4)
		}})
	// TCP
	hs = append(hs, &c15Hdr{name: "tcp", size: 20,
		fields: []c15Field{F("sport", 0, 16), F("dport", 16, 16), F("seq", 32, 32), F("ack", 64, 32), F("doff", 96, 4), X("reserved", 100, 4, 0), F("flags", 104, 8), F("window", 112, 16), F("cksum", 128, 16), F("urgent", 144, 16)},
		encode: func(v []uint64) []byte {
			b := make([]byte, 20)
			header.TCP(b).Encode(&header.TCPFields{SrcPort: uint16(v[0]), DstPort: uint16(v[1]), SeqNum: uint32(v[2]), AckNum: uint32(v[3]), DataOffset: uint8(v[4] * 4), Flags: uint8(v[6]), WindowSize: uint16(v[7]), Checksum: uint16(v[8]), UrgentPointer: uint16(v[9])})
			return b
		},
		decode: func(b []byte) ([]uint64, []bool) {
			h := header.TCP(b)
			ok := all(10)
			ok[9] = false // no accessor for the urgent pointer
			return []uint64{uint64(h.SourcePort()), uint64(h.DestinationPort()), uint64(h.SequenceNumber()), uint64(h.AckNumber()), uint64(h.DataOffset()) / 4, 0, uint64(h.Flags()), uint64(h.WindowSize()), uint64(h.Checksum()), 0}, ok
		}})
	// DNS query header: id, flags (RD only, as Setheader builds it), counts
	hs = append(hs, &c15Hdr{name: "dns", size: 12,
		fields: []c15Field{F("id", 0, 16), X("flags", 16, 16, 0x0100), F("qd", 32, 16), F("an", 48, 16), F("ns", 64, 16), F("ar", 80, 16)},
		encode: func(v []uint64) []byte {
			b := make([]byte, 12)
			d := header.DNS(b)
			d.Setheader(uint16(v[0]))
			d.SetCount(uint16(v[2]), uint16(v[3]), uint16(v[4]), uint16(v[5]))
			return b
		},
		decode: func(b []byte) ([]uint64, []bool) {
			d := header.DNS(b)
			ok := all(6)
			ok[1] = false
			return []uint64{uint64(d.GetId()), 0, uint64(d.GetQDCount()), uint64(d.GetANCount()), uint64(d.GetNSCount()), uint64(d.GetARCount())}, ok
		}})
	return hs
}

func c15Menu(width int) []uint64 {
	max := uint64(1)<<uint(width) - 1
	if width == 64 {
		max = ^uint64(0)
	}
	m := map[uint64]bool{0: true, 1: true, max: true, max - 1: true, max >> 1: true, max>>1 + 1: true, 0x0102030405060708 & max: true, 0xa5a5a5a5a5a5a5a5 & max: true}
	for k := 0; k < width; k++ {
		m[uint64(1)<<uint(k)] = true
		m[max&^(uint64(1)<<uint(k))] = true
	}
	var out []uint64
	for v := range m {
		out = append(out, v)
	}
	return out
}

func c15Jobs(tier string) []string {
	var jobs []string
	for _, h := range c15Headers() {
		for i, f := range h.fields {
			if f.fixed {
				continue
			}
			if tier == "thorough" && f.width == 32 {
				for c := 0; c < 8; c++ {
					jobs = append(jobs, fmt.Sprintf("field:%s:%d:%d/8", h.name, i, c))
				}
				continue
			}
			jobs = append(jobs, fmt.Sprintf("field:%s:%d:0/1", h.name, i))
		}
	}
	for c := 0; c < 16; c++ {
		jobs = append(jobs, fmt.Sprintf("combine:%d", c))
		jobs = append(jobs, fmt.Sprintf("cksum-small:%d", c))
		jobs = append(jobs, fmt.Sprintf("cksum-len:%d", c))
	}
	jobs = append(jobs, "opts-strings:0", "opts-strings:1", "opts-strings:2", "opts-strings:3", "opts-encoders", "dns-question", "partial", "pseudo:1", "pseudo:6", "pseudo:17", "pseudo:58")
	return jobs
}

func c15Run(job, tier string, deadline time.Time) *engine.Result {
	r := &engine.Result{Exhaustive: true}
	parts := strings.Split(job, ":")
	bad := func(key, f string, a ...interface{}) {
		if len(r.Violations) < 6 {
			r.Violations = append(r.Violations, engine.Violation{Property: "C15", Kind: "codec-mismatch", Key: key, Detail: fmt.Sprintf(f, a...), Job: job, Replay: engine.MustJSON(map[string]string{"job": job, "tier": tier})})
		}
	}
	switch parts[0] {
	case "field":
		c15Field1(r, parts, tier, bad)
	case "combine":
		var c uint32
		fmt.Sscan(parts[1], &c)
		for a := c << 12; a < (c+1)<<12; a++ {
			for b := uint32(0); b < 1<<16; b++ {
				if g, e := header.ChecksumCombine(uint16(a), uint16(b)), ref.Combine(uint16(a), uint16(b)); g != e {
					bad("combine", "ChecksumCombine(%#x,%#x)=%#x, one's-complement sum is %#x", a, b, g, e)
				}
			}
		}
		r.Execs, r.States, r.Transitions, r.Nontrivial = 1<<28, 1<<28, 1<<28, 1<<28
		r.Sample(map[string]interface{}{"ChecksumCombine": "all pairs a in chunk, b in 0..65535", "chunk": c})
	case "cksum-small":
		var c int
		fmt.Sscan(parts[1], &c)
		var n int64
		bufs := [][]byte{}
		if c == 0 {
			bufs = append(bufs, []byte{})
			for x := 0; x < 256; x++ {
				bufs = append(bufs, []byte{byte(x)})
			}
		}
		for x := c * 16; x < (c+1)*16; x++ {
			for y := 0; y < 256; y++ {
				bufs = append(bufs, []byte{byte(x), byte(y)})
			}
		}
		for _, buf := range bufs {
			for init := 0; init < 1<<16; init++ {
				if g, e := header.Checksum(buf, uint16(init)), ref.Sum(buf, uint16(init)); g != e {
					bad("checksum-small", "Checksum(%x, %#x)=%#x, RFC 1071 sum is %#x", buf, init, g, e)
				}
				n++
			}
		}
		r.Execs, r.States, r.Transitions, r.Nontrivial = n, n, n, n
		r.Sample(map[string]interface{}{"Checksum": "all initial values x buffers", "example_buffer": fmt.Sprintf("%x", bufs[len(bufs)-1])})
	case "cksum-len":
		c15CksumLen(r, parts, tier, bad, deadline)
	case "opts-strings":
		c15OptStrings(r, parts, bad)
	case "opts-encoders":
		c15OptEncoders(r, tier, bad)
	case "dns-question":
		c15DNS(r, bad)
	case "partial":
		c15Partial(r, bad)
	case "pseudo":
		c15Pseudo(r, parts, bad)
	default:
		r.Err = "unknown job " + job
	}
	r.Outcomes = []uint64{engine.Hash(job, len(r.Violations))}
	return r
}

func c15Field1(r *engine.Result, parts []string, tier string, bad func(string, string, ...interface{})) {
	var hdr *c15Hdr
	for _, h := range c15Headers() {
		if h.name == parts[1] {
			hdr = h
		}
	}
	var fi, chunk, nchunk int
	fmt.Sscan(parts[2], &fi)
	fmt.Sscanf(parts[3], "%d/%d", &chunk, &nchunk)
	f := hdr.fields[fi]
	var n int64
	one := func(vals []uint64) {
		got := hdr.encode(vals)
		want := refEncode(hdr, vals)
		n++
		if !bytes.Equal(got, want) {
			bad("field:"+hdr.name+"."+f.name, "%s: encoding %s=%#x (others %#x...) gives %x, RFC layout gives %x", hdr.name, f.name, vals[fi], vals[(fi+1)%len(vals)], got, want)
			return
		}
		dec, ok := hdr.decode(got)
		for i := range dec {
			w := vals[i]
			if hdr.fields[i].fixed {
				w = hdr.fields[i].fixedV
			}
			if ok[i] && dec[i] != w {
				bad("field:"+hdr.name+"."+hdr.fields[i].name+":read", "%s: field %s read back as %#x after encoding %#x (while sweeping %s=%#x)", hdr.name, hdr.fields[i].name, dec[i], w, f.name, vals[fi])
				return
			}
		}
	}
	for bg := 0; bg < 2; bg++ {
		vals := make([]uint64, len(hdr.fields))
		for i, g := range hdr.fields {
			if bg == 1 && !g.fixed {
				vals[i] = uint64(1)<<uint(g.width) - 1
				if g.width == 64 {
					vals[i] = ^uint64(0)
				}
			}
		}
		switch {
		case f.width <= 20:
			for v := uint64(0); v < 1<<uint(f.width); v++ {
				vals[fi] = v
				one(vals)
			}
		case f.width == 32 && tier == "thorough":
			per := uint64(1<<32) / uint64(nchunk)
			for v := uint64(chunk) * per; v < uint64(chunk+1)*per; v++ {
				vals[fi] = v
				one(vals)
			}
		default:
			for _, v := range c15Menu(f.width) {
				vals[fi] = v
				one(vals)
			}
		}
	}
	r.Execs, r.States, r.Transitions, r.Nontrivial = n, n, 2*n, n
	r.Sample(map[string]interface{}{"header": hdr.name, "field": f.name, "bits": f.width, "values_swept": n})
}

func c15Fill(kind, n int) []byte {
	b := make([]byte, n)
	for i := range b {
		switch kind {
		case 1:
			b[i] = 0xff
		case 2:
			b[i] = 0x01
		case 3:
			b[i] = byte(i*7 + 3)
		}
	}
	return b
}

func c15CksumLen(r *engine.Result, parts []string, tier string, bad func(string, string, ...interface{}), deadline time.Time) {
	var c int
	fmt.Sscan(parts[1], &c)
	var n int64
	inits := []uint16{0, 1, 0x7fff, 0xffff}
	for l := c; l <= 65535; l += 16 {
		if tier != "thorough" && l > 4200 && l < 65535-80 {
			continue
		}
		for kind := 0; kind < 4; kind++ {
			buf := c15Fill(kind, l)
			for _, init := range inits {
				g, e := header.Checksum(buf, init), ref.Sum(buf, init)
				n++
				if g != e {
					bad("checksum-len", "Checksum(len %d fill %d, init %#x)=%#x, RFC 1071 sum is %#x", l, kind, init, g, e)
				}
			}
			// incremental use over even split points (all of them for short buffers)
			step := 2
			if l > 128 {
				step = 2 * (l/64 + 1)
			}
			for k := 0; k <= l; k += step {
				if g, e := header.Checksum(buf[k:], header.Checksum(buf[:k], 0x1234)), ref.Sum(buf, 0x1234); g != e {
					bad("checksum-split", "Checksum(b[%d:], Checksum(b[:%d], init)) = %#x, whole-buffer sum %#x (len %d fill %d)", k, k, g, e, l, kind)
				}
				n++
			}
			// a packet carrying the complemented sum verifies
			if l >= 4 {
				p := append([]byte(nil), buf...)
				p[2], p[3] = 0, 0
				cs := ^header.Checksum(p, 0)
				binary.BigEndian.PutUint16(p[2:], cs)
				if v := ref.Sum(p, 0); v != 0xffff && !(v == 0 && allZero(p)) {
					bad("checksum-verify", "packet of %d bytes (fill %d) carrying ^Checksum=%#x sums to %#x, not 0xffff", l, kind, cs, v)
				}
				n++
			}
		}
	}
	r.Execs, r.States, r.Transitions, r.Nontrivial = n, n, n, n
	r.Sample(map[string]interface{}{"Checksum": "lengths c, c+16, ... x fills {00,ff,01,incrementing} x initial {0,1,7fff,ffff}", "first_length": c})
}

func allZero(b []byte) bool {
	for _, x := range b {
		if x != 0 {
			return false
		}
	}
	return true
}

var c15OptAlphabet = []byte{0, 1, 2, 3, 4, 5, 8, 10, 34, 254, 255}

// refSyn mirrors what a correct SYN-option reader must recover from a WELL-FORMED area.
func c15CheckOptString(o []byte, bad func(string, string, ...interface{})) {
	var syn, synAck header.TCPSynOptions
	var to header.TCPOptions
	func() {
		defer func() {
			if e := recover(); e != nil {
				bad("opts-panic", "option parser panicked on %x: %v", o, e)
			}
		}()
		syn = header.ParseSynOptions(o, false)
		synAck = header.ParseSynOptions(o, true)
		to = header.ParseTCPOptions(o)
	}()
	w := ref.WalkTCPOptions(o)
	if w.Malformed != "" {
		return // only absence of out-of-range reads is demanded for malformed areas
	}
	// well-formed: every option present must be recovered. An MSS option with value 0 is
	// not a value any encoder in the stack produces for a SYN; the SYN reader treats it as
	// invalid and stops there, so the SYN-side comparison is skipped for such areas.
	synComparable := !(w.HasMSS && w.MSS == 0) && !c15HasZeroMSS(o)
	if !synComparable {
		syn = header.TCPSynOptions{MSS: 536, WS: -1}
		if w.HasWS {
			syn.WS = int(w.WS)
			if syn.WS > 14 {
				syn.WS = 14
			}
		}
		if w.HasMSS && w.MSS != 0 {
			syn.MSS = w.MSS
		}
		syn.SACKPermitted, syn.TS, syn.TSVal = w.SACKPerm, w.HasTS, w.TSVal
		synAck.TSEcr = w.TSEcr
	}
	if w.HasMSS && w.MSS != 0 && syn.MSS != w.MSS {
		bad("opts-mss", "ParseSynOptions(%x): MSS %d, option says %d", o, syn.MSS, w.MSS)
	}
	if !w.HasMSS && syn.MSS != 536 {
		bad("opts-mss-default", "ParseSynOptions(%x): MSS %d without an MSS option (default is 536)", o, syn.MSS)
	}
	if w.HasWS {
		e := int(w.WS)
		if e > 14 {
			e = 14
		}
		if syn.WS != e {
			bad("opts-ws", "ParseSynOptions(%x): WS %d, option says %d", o, syn.WS, w.WS)
		}
	} else if syn.WS != -1 {
		bad("opts-ws-absent", "ParseSynOptions(%x): WS %d without a WS option", o, syn.WS)
	}
	if syn.SACKPermitted != w.SACKPerm {
		bad("opts-sackperm", "ParseSynOptions(%x): SACKPermitted %v, option area says %v", o, syn.SACKPermitted, w.SACKPerm)
	}
	if syn.TS != w.HasTS || (w.HasTS && (syn.TSVal != w.TSVal || synAck.TSEcr != w.TSEcr || syn.TSEcr != 0)) {
		bad("opts-ts-syn", "ParseSynOptions(%x): TS %v val %d ecr %d/%d, option area says %v %d %d", o, syn.TS, syn.TSVal, syn.TSEcr, synAck.TSEcr, w.HasTS, w.TSVal, w.TSEcr)
	}
	if to.TS != w.HasTS || (w.HasTS && (to.TSVal != w.TSVal || to.TSEcr != w.TSEcr)) {
		bad("opts-ts", "ParseTCPOptions(%x): TS %v %d %d, option area says %v %d %d", o, to.TS, to.TSVal, to.TSEcr, w.HasTS, w.TSVal, w.TSEcr)
	}
	if len(to.SACKBlocks) != len(w.SACK) {
		bad("opts-sack", "ParseTCPOptions(%x): %d SACK blocks, option area has %d", o, len(to.SACKBlocks), len(w.SACK))
	} else {
		for i := range w.SACK {
			if uint32(to.SACKBlocks[i].Start) != w.SACK[i].Start || uint32(to.SACKBlocks[i].End) != w.SACK[i].End {
				bad("opts-sack", "ParseTCPOptions(%x): SACK block %d = %v, option area says %v", o, i, to.SACKBlocks[i], w.SACK[i])
			}
		}
	}
}

// c15HasZeroMSS reports whether any MSS option in a well-formed area carries the value 0
// (the walker keeps only the last one).
func c15HasZeroMSS(o []byte) bool {
	for i := 0; i < len(o); {
		switch o[i] {
		case 0:
			return false
		case 1:
			i++
		default:
			if i+1 >= len(o) || o[i+1] < 2 {
				return false
			}
			if o[i] == 2 && o[i+1] == 4 && i+3 < len(o) && o[i+2] == 0 && o[i+3] == 0 {
				return true
			}
			i += int(o[i+1])
		}
	}
	return false
}

func c15OptStrings(r *engine.Result, parts []string, bad func(string, string, ...interface{})) {
	var shard int
	fmt.Sscan(parts[1], &shard)
	var n int64
	A := c15OptAlphabet
	var rec func(cur []byte, depth int)
	rec = func(cur []byte, depth int) {
		c15CheckOptString(cur, bad)
		n++
		if depth == 6 {
			return
		}
		for i, a := range A {
			if depth == 0 && i%4 != shard {
				continue
			}
			rec(append(cur, a), depth+1)
		}
	}
	rec(nil, 0)
	r.Execs, r.States, r.Transitions, r.Nontrivial = n, n, 3*n, n
	r.Sample(map[string]interface{}{"option_strings": "all strings of length <=6 over", "alphabet": A})
}

func c15OptEncoders(r *engine.Result, tier string, bad func(string, string, ...interface{})) {
	var n int64
	buf := make([]byte, 64)
	check := func(o []byte) {
		// the full output and every truncation
		for k := 0; k <= len(o); k++ {
			c15CheckOptString(append([]byte(nil), o[:k]...), bad)
			n++
		}
	}
	tsv := []uint32{0, 1, 0x7fffffff, 0x80000000, 0xffffffff, 0x01020304}
	for mss := 0; mss < 1<<16; mss++ {
		k := header.EncodeMSSOption(uint32(mss), buf)
		o := append([]byte(nil), buf[:k]...)
		w := ref.WalkTCPOptions(o)
		if k != 4 || w.Malformed != "" || !w.HasMSS || int(w.MSS) != mss {
			bad("enc-mss", "EncodeMSSOption(%d) wrote %x", mss, o)
		}
		if mss%257 == 0 {
			check(o)
		}
		n++
	}
	for ws := 0; ws < 256; ws++ {
		k := header.EncodeWSOption(ws, buf)
		o := append([]byte(nil), buf[:k]...)
		w := ref.WalkTCPOptions(o)
		if k != 3 || w.Malformed != "" || !w.HasWS || int(w.WS) != ws {
			bad("enc-ws", "EncodeWSOption(%d) wrote %x", ws, o)
		}
		check(o)
	}
	// every combination a SYN / data segment can carry, in the stack's order
	for mss := range []int{0, 1} {
		for ws := range []int{0, 1} {
			for ts := range []int{0, 1} {
				for sp := range []int{0, 1} {
					for nb := 0; nb <= 4; nb++ {
						for _, tv := range tsv {
							off := 0
							if mss == 1 {
								off += header.EncodeMSSOption(1460, buf[off:])
							}
							if ws == 1 {
								off += header.EncodeWSOption(7, buf[off:])
							}
							if ts == 1 {
								off += header.EncodeNOP(buf[off:])
								off += header.EncodeNOP(buf[off:])
								off += header.EncodeTSOption(tv, ^tv, buf[off:])
							}
							if sp == 1 {
								off += header.EncodeNOP(buf[off:])
								off += header.EncodeNOP(buf[off:])
								off += header.EncodeSACKPermittedOption(buf[off:])
							}
							var blocks []header.SACKBlock
							for b := 0; b < nb; b++ {
								blocks = append(blocks, header.SACKBlock{Start: seqnum.Value(tv + uint32(b)*100), End: seqnum.Value(tv + uint32(b)*100 + 50)})
							}
							if nb > 0 {
								off += header.EncodeNOP(buf[off:])
								off += header.EncodeNOP(buf[off:])
								off += header.EncodeSACKBlocks(blocks, buf[off:40])
							}
							off += header.AddTCPOptionPadding(buf, off)
							o := append([]byte(nil), buf[:off]...)
							if off%4 != 0 || off > 40 {
								bad("enc-padding", "option area of %d bytes after padding: %x", off, o)
							}
							w := ref.WalkTCPOptions(o)
							if w.Malformed != "" {
								bad("enc-malformed", "encoders produced a malformed option area %x: %s", o, w.Malformed)
							}
							if w.HasMSS != (mss == 1) || w.HasWS != (ws == 1) || w.HasTS != (ts == 1) || w.SACKPerm != (sp == 1) || (ts == 1 && (w.TSVal != tv || w.TSEcr != ^tv)) {
								bad("enc-roundtrip", "option area %x decodes as %+v", o, w)
							}
							check(o)
						}
					}
				}
			}
		}
	}
	for off := 0; off <= 40; off++ {
		b := make([]byte, 48)
		for i := range b {
			b[i] = 0xEE
		}
		p := header.AddTCPOptionPadding(b, off)
		if (off+p)%4 != 0 || p < 0 || p > 3 {
			bad("enc-padding", "AddTCPOptionPadding(offset %d) = %d", off, p)
		}
		for i := range b {
			want := byte(0xEE)
			if i >= off && i < off+p {
				want = 1
			}
			if b[i] != want {
				bad("enc-padding", "AddTCPOptionPadding(offset %d) wrote byte %d = %#x", off, i, b[i])
			}
		}
		n++
	}
	r.Execs, r.States, r.Transitions, r.Nontrivial = n, n, n, n
	r.Sample(map[string]interface{}{"encoders": "MSS all 2^16, WS 0..255, every SYN/data option combination x TS values x 0..4 SACK blocks, each truncated at every length"})
}

func c15DNS(r *engine.Result, bad func(string, string, ...interface{})) {
	var n int64
	labels := []string{"a", "bc", "def"}
	var names []string
	for _, a := range labels {
		names = append(names, a)
		for _, b := range labels {
			names = append(names, a+"."+b)
			for _, c := range labels {
				names = append(names, a+"."+b+"."+c)
			}
		}
	}
	names = append(names, strings.Repeat("x", 63), strings.Repeat("x", 63)+".com")
	// absolute names (RFC 1035 5.1: a trailing dot marks the root, it is not another label)
	names = append(names, "a.", "a.bc.", "a.bc.def.")
	vals := []uint16{0, 1, 15, 255, 256, 0x7fff, 0x8000, 0xffff}
	for _, name := range names {
		for _, qt := range vals {
			for _, qc := range vals {
				d := header.DNS(make([]byte, 12))
				d.Setheader(0xbeef)
				d.SetCount(1, 0, 0, 0)
				d.SetQuestion(name, qt, qc)
				// independent rendering: header, labels, 0, qtype, qclass
				want := []byte{0xbe, 0xef, 0x01, 0x00, 0, 1, 0, 0, 0, 0, 0, 0}
				for _, l := range strings.Split(strings.TrimSuffix(name, "."), ".") {
					want = append(want, byte(len(l)))
					want = append(want, l...)
				}
				want = append(want, 0, byte(qt>>8), byte(qt), byte(qc>>8), byte(qc))
				n++
				if !bytes.Equal(d, want) {
					bad("dns-question", "DNS query for %q type %d class %d encodes as %x, RFC 1035 layout is %x", name, qt, qc, []byte(d), want)
				}
				if wl := len(strings.TrimSuffix(name, ".")) + 2; d.GetDomainLen() != wl {
					bad("dns-domainlen", "GetDomainLen()=%d for %q, encoded name is %d bytes", d.GetDomainLen(), name, wl)
				}
			}
		}
	}
	r.Execs, r.States, r.Transitions, r.Nontrivial = n, n, n, n
	r.Sample(map[string]interface{}{"dns": "names of 1-3 labels x qtype x qclass menus", "names": len(names)})
}

// c15Partial: the incremental checksum helpers agree with a full recomputation.
func c15Partial(r *engine.Result, bad func(string, string, ...interface{})) {
	var n int64
	src, dst := []byte{10, 0, 0, 1}, []byte{10, 0, 0, 2}
	for l := 0; l <= 300; l++ {
		payload := c15Fill(3, l)
		// UDP: CalculateChecksum(partial, totalLen)
		u := make([]byte, 8+l)
		header.UDP(u).Encode(&header.UDPFields{SrcPort: 0x1234, DstPort: 0xabcd, Length: uint16(8 + l)})
		copy(u[8:], payload)
		xsum := header.PseudoHeaderChecksum(header.UDPProtocolNumber, tcpip.Address(src), tcpip.Address(dst))
		xsum = header.Checksum(payload, xsum)
		cs := ^header.UDP(u).CalculateChecksum(xsum, uint16(8+l))
		header.UDP(u).SetChecksum(cs)
		if s := ref.Sum(u, ref.PseudoSum(src, dst, 17, uint32(len(u)))); s != 0xffff {
			bad("partial-udp", "UDP datagram with payload %d built via CalculateChecksum does not verify (sum %#x)", l, s)
		}
		// TCP: CalculateChecksum over the header + payload sum
		t := make([]byte, 20+l)
		header.TCP(t).Encode(&header.TCPFields{SrcPort: 1, DstPort: 2, SeqNum: 0xfffffff0, AckNum: 77, DataOffset: 20, Flags: 0x18, WindowSize: 0xffff})
		copy(t[20:], payload)
		x2 := header.PseudoHeaderChecksum(header.TCPProtocolNumber, tcpip.Address(src), tcpip.Address(dst))
		x2 = header.Checksum(payload, x2)
		header.TCP(t).SetChecksum(^header.TCP(t).CalculateChecksum(x2, uint16(20+l)))
		if s := ref.Sum(t, ref.PseudoSum(src, dst, 6, uint32(len(t)))); s != 0xffff {
			bad("partial-tcp", "TCP segment with payload %d built via CalculateChecksum does not verify (sum %#x)", l, s)
		}
		// IPv4: CalculateChecksum
		ip := make([]byte, 20)
		header.IPv4(ip).Encode(&header.IPv4Fields{IHL: 20, TotalLength: uint16(20 + l), ID: uint16(l * 31), TTL: 64, Protocol: 17, SrcAddr: tcpip.Address(src), DstAddr: tcpip.Address(dst)})
		header.IPv4(ip).SetChecksum(^header.IPv4(ip).CalculateChecksum())
		if s := ref.Sum(ip, 0); s != 0xffff {
			bad("partial-ipv4", "IPv4 header (total length %d) with CalculateChecksum does not verify (sum %#x)", 20+l, s)
		}
		n += 3
	}
	r.Execs, r.States, r.Transitions, r.Nontrivial = n, n, n, n
	r.Sample(map[string]interface{}{"partial": "UDP/TCP/IPv4 CalculateChecksum for payload lengths 0..300"})
}

// c15Pseudo: PseudoHeaderChecksum(proto, src, dst) against the RFC 1071 sum of
// src | dst | 0 | proto for IPv4 pairs (one 16-bit word swept over all values, the other
// three over boundary values) and IPv6 pairs (every pattern of all-zero / all-one words, low
// word over boundary values): every carry out of the address sum is covered.
func c15Pseudo(r *engine.Result, parts []string, bad func(string, string, ...interface{})) {
	var proto int
	fmt.Sscan(parts[1], &proto)
	norm := func(v uint16) uint16 {
		if v == 0xffff {
			return 0
		}
		return v
	}
	var n int64
	check := func(src, dst []byte) {
		g := header.PseudoHeaderChecksum(tcpip.TransportProtocolNumber(proto), tcpip.Address(src), tcpip.Address(dst))
		buf := append(append(append([]byte{}, src...), dst...), 0, byte(proto))
		if e := ref.Sum(buf, 0); norm(g) != norm(e) {
			bad("pseudo-header", "PseudoHeaderChecksum(%d, %x, %x)=%#x, RFC 1071 sum of the pseudo-header words is %#x", proto, src, dst, g, e)
		}
		n++
	}
	bv := []uint16{0, 1, 0x00ff, 0x8000, 0xfffe, 0xffff}
	w := func(b []byte, v uint16) { b[0], b[1] = byte(v>>8), byte(v) }
	src, dst := make([]byte, 4), make([]byte, 4)
	for pos := 0; pos < 4; pos++ {
		for a := 0; a < 1<<16; a++ {
			for _, x := range bv {
				for _, y := range bv {
					for _, z := range bv {
						vals := []uint16{x, y, z}
						k := 0
						for q := 0; q < 4; q++ {
							v := uint16(a)
							if q != pos {
								v = vals[k]
								k++
							}
							if q < 2 {
								w(src[2*q:], v)
							} else {
								w(dst[2*(q-2):], v)
							}
						}
						check(src, dst)
					}
				}
			}
		}
	}
	s6, d6 := make([]byte, 16), make([]byte, 16)
	for pat := 0; pat < 1<<15; pat++ {
		for _, low := range []uint16{0, 1, 0x00ff, 0xff00, uint16(0xffff - proto), uint16(0xfffe - proto), 0xfffe, 0xffff} {
			for q := 0; q < 15; q++ {
				v := uint16(0)
				if pat&(1<<uint(q)) != 0 {
					v = 0xffff
				}
				if q < 8 {
					w(s6[2*q:], v)
				} else {
					w(d6[2*(q-8):], v)
				}
			}
			w(d6[14:], low)
			check(s6, d6)
		}
	}
	r.Execs, r.States, r.Transitions, r.Nontrivial = n, n, n, n
	r.Sample(map[string]interface{}{"pseudo": "PseudoHeaderChecksum: IPv4 pairs with one word swept over 0..65535 and three boundary words, IPv6 pairs over all zero/one word patterns", "protocol": proto})
}

func c15Replay(rp json.RawMessage) *engine.Violation {
	var p struct{ Job, Tier string }
	if json.Unmarshal(rp, &p) != nil {
		return nil
	}
	r := c15Run(p.Job, p.Tier, time.Now().Add(10*time.Minute))
	if len(r.Violations) > 0 {
		return &r.Violations[0]
	}
	return nil
}
