package main

import (
	"bytes"
	"fmt"

	"github.com/brewlin/net-protocol/pkg/buffer"
	"github.com/brewlin/net-protocol/pkg/waiter"
	tcpip "github.com/brewlin/net-protocol/protocol"
	"github.com/brewlin/net-protocol/protocol/link/channel"
	"github.com/brewlin/net-protocol/protocol/network/ipv4"
	"github.com/brewlin/net-protocol/protocol/transport/udp"
	"github.com/brewlin/net-protocol/stack"

	"verif/engine"
	"verif/ref"
)

// C08 through the real IPv4 receive path (ipv4.HandlePacket computes first/last/more for the
// reassembler): a UDP datagram of 24 payload bytes (32 bytes of IP payload, four 8-byte units)
// to a bound socket, cut into fragments. Alphabet: every unit interval [a,b) as a fragment
// (MF set unless it ends the datagram), plus degenerate fragments a hostile or broken sender
// can produce: an empty fragment (no payload) at every unit offset with MF set, and fragments
// at the top of the offset range whose end passes 65535. Every sequence of up to `depth`
// fragments: the socket gets the datagram exactly once, byte for byte, as soon as - and only
// when - the fragments received so far cover [0,32) including the one with MF clear.

type c08IPFrag struct {
	name string
	off  int // byte offset in the IP payload
	data []byte
	more bool
	a, b int // covered units (a==b: covers nothing)
	last bool
}

func c08IPAlphabet(msg []byte) []c08IPFrag {
	var fs []c08IPFrag
	n := len(msg) / 8
	for a := 0; a < n; a++ {
		for b := a + 1; b <= n; b++ {
			if a == 0 && b == n {
				continue // not a fragment: the whole datagram
			}
			fs = append(fs, c08IPFrag{fmt.Sprintf("[%d,%d)", a*8, b*8), a * 8, msg[a*8 : b*8], b < n, a, b, b == n})
		}
	}
	for a := 0; a < n; a++ {
		fs = append(fs, c08IPFrag{fmt.Sprintf("empty@%d+MF", a*8), a * 8, nil, true, a, a, false})
	}
	fs = append(fs, c08IPFrag{"empty@32(last)", 32, nil, false, n, n, false})
	fs = append(fs, c08IPFrag{"[65528,+8)+MF", 65528, []byte("ZZZZZZZZ"), true, n, n, false})
	fs = append(fs, c08IPFrag{"[65528,+16)", 65528, []byte("ZZZZZZZZZZZZZZZZ"), false, n, n, false})
	return fs
}

func c08IPRun(seq []int, alphabet []c08IPFrag, msg, payload []byte, src, dst tcpip.Address) string {
	id, linkEP := channel.New(64, 1500, "")
	s := stack.New([]string{ipv4.ProtocolName}, []string{udp.ProtocolName}, stack.Options{})
	if err := s.CreateNIC(1, id); err != nil {
		return "CreateNIC: " + err.String()
	}
	s.AddAddress(1, ipv4.ProtocolNumber, dst)
	s.SetRouteTable([]tcpip.Route{{Destination: "\x00\x00\x00\x00", Mask: "\x00\x00\x00\x00", NIC: 1}})
	defer s.RemoveAddress(1, dst)
	var wq waiter.Queue
	ep, err := s.NewEndpoint(udp.ProtocolNumber, ipv4.ProtocolNumber, &wq)
	if err != nil {
		return "NewEndpoint: " + err.String()
	}
	defer ep.Close()
	if err := ep.Bind(tcpip.FullAddress{Port: 5300}, nil); err != nil {
		return "Bind: " + err.String()
	}
	covered := make([]bool, len(msg)/8)
	haveLast := false
	hostile := false // a degenerate fragment was seen: the set may be poisoned (dropped), that is not demanded
	delivered := 0
	var hist []string
	for _, k := range seq {
		f := alphabet[k]
		hist = append(hist, f.name)
		fl := uint8(0)
		if f.more {
			fl = 1
		}
		pk := ref.BuildIPv4([]byte(src), []byte(dst), ref.ProtoUDP, 4242, fl, f.off, 64, f.data)
		linkEP.Inject(ipv4.ProtocolNumber, buffer.NewViewFromBytes(pk).ToVectorisedView())
		if f.a == f.b {
			hostile = true
		}
		for u := f.a; u < f.b; u++ {
			covered[u] = true
		}
		if f.last {
			haveLast = true
		}
		complete := haveLast
		for _, c := range covered {
			complete = complete && c
		}
		v, _, rerr := ep.Read(nil)
		switch {
		case rerr == nil && !complete:
			return fmt.Sprintf("fragments %v: %d bytes were delivered to the socket although the fragments received do not make up the datagram (covered units %v, last fragment seen: %v)", hist, len(v), covered, haveLast)
		case rerr == nil && !bytes.Equal(v, payload):
			return fmt.Sprintf("fragments %v: delivered %x, sent %x", hist, []byte(v), payload)
		case rerr == nil:
			delivered++
			covered = make([]bool, len(covered)) // later fragments belong to a new (incomplete) set
			haveLast = false
		case complete && !hostile:
			return fmt.Sprintf("fragments %v: the set is complete but nothing was delivered (%v)", hist, rerr)
		}
	}
	return ""
}

func c08IPJob(shard, of, depth int, r *engine.Result) []engine.Violation {
	src, dst := tcpip.Address("\x0a\x00\x00\x02"), tcpip.Address("\x0a\x00\x00\x01")
	payload := []byte("0123456789abcdefghijklmn")
	msg := ref.BuildUDP(4096, 5300, payload, []byte(src), []byte(dst))
	al := c08IPAlphabet(msg)
	var out []engine.Violation
	total := 1
	for d := 0; d < depth; d++ {
		total *= len(al)
	}
	for code := shard; code < total; code += of {
		seq := make([]int, depth)
		c := code
		for d := 0; d < depth; d++ {
			seq[d] = c % len(al)
			c /= len(al)
		}
		r.Execs++
		r.Nontrivial++
		r.Transitions += int64(depth)
		if m := c08IPRun(seq, al, msg, payload, src, dst); m != "" && len(out) < 3 {
			key := "ipv4:incomplete-set-delivered"
			if bytes.Contains([]byte(m), []byte("nothing was delivered")) {
				key = "ipv4:complete-set-lost"
			}
			out = append(out, engine.Violation{Property: "C08", Kind: "reassembly", Key: key, Detail: m, Replay: engine.MustJSON(map[string]interface{}{"ipv4seq": seq})})
		}
	}
	return out
}
