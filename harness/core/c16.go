package main

import (
	"bytes"
	"encoding/json"
	"fmt"
	"strconv"
	"strings"
	"time"

	"github.com/brewlin/net-protocol/pkg/buffer"

	"verif/engine"
)

// C16: buffer views behave like the byte string they represent. Explicit-state search
// over operation sequences on the real types against a plain-[]byte reference.
//   vv:<chunk lens>   VectorisedView with that initial chunking (+ up to one clone)
//   view:<n>          View of n bytes
//   prep:<size>       Prependable of that size (and one built from a view)

func init() {
	engine.Register(&engine.Check{
		ID:        "C16",
		Technique: "explicit-state search: every operation sequence up to a depth on the real buffer types (then state-deduplicated BFS deeper) compared step by step with a plain byte-string reference",
		Rule:      "all chunkings of n<=N distinct bytes into <=4 chunks (empty chunks included) x all sequences over {TrimFront(c), CapLength(l), RemoveFirst, Clone(nil|small|large|empty scratch with capacity|used scratch with stale views), read-backs} on the original and its clone; View and Prependable likewise; distinct = distinct sequence, all non-trivial",
		Assumes:   []string{"View.TrimFront/CapLength are only called with counts within the current length (beyond it a plain byte slice panics as well)"},
		Jobs:      c16Jobs,
		Run:       c16Run,
		Replay:    c16Replay,
		NeedRepro: true,
	})
}

func c16Chunkings(maxN, maxK int) []string {
	var out []string
	var rec func(rem, k int, cur []int)
	rec = func(rem, k int, cur []int) {
		if k == 1 {
			c := append(append([]int(nil), cur...), rem)
			s := make([]string, len(c))
			for i, x := range c {
				s[i] = strconv.Itoa(x)
			}
			out = append(out, strings.Join(s, ","))
			return
		}
		for x := 0; x <= rem; x++ {
			rec(rem-x, k-1, append(cur, x))
		}
	}
	for n := 0; n <= maxN; n++ {
		for k := 1; k <= maxK; k++ {
			rec(n, k, nil)
		}
	}
	return out
}

func c16Jobs(tier string) []string {
	var jobs []string
	maxN := 4
	if tier == "thorough" {
		maxN = 6
	}
	for _, c := range c16Chunkings(maxN, 4) {
		jobs = append(jobs, "vv:"+c)
	}
	for n := 0; n <= maxN+2; n++ {
		jobs = append(jobs, fmt.Sprintf("view:%d", n))
	}
	for n := 0; n <= maxN+2; n++ {
		jobs = append(jobs, fmt.Sprintf("prep:%d", n))
	}
	return jobs
}

// ---- VectorisedView system ----

type c16Obj struct {
	vv     buffer.VectorisedView
	ref    [][]byte // reference: list of chunks (plain byte strings)
	alive  bool
	capped bool // a CapLength within the size has been applied: the last chunk must not be re-extendable
}

type c16VV struct {
	n     int
	objs  [2]c16Obj
	ops   []c16Op
	names []string
}

type c16Op struct {
	kind byte // 'T','C','R','K'(clone)
	obj  int
	arg  int
}

func c16Content(n int) []byte {
	b := make([]byte, n)
	for i := range b {
		b[i] = byte(0xA0 + i)
	}
	return b
}

func c16NewVV(chunks []int) func() engine.SeqSys {
	return func() engine.SeqSys {
		s := &c16VV{}
		for _, c := range chunks {
			s.n += c
		}
		content := c16Content(s.n)
		var views []buffer.View
		var ref [][]byte
		off := 0
		for _, c := range chunks {
			// each chunk in its own allocation with slack capacity behind it, so that a
			// re-extension past a cap would expose foreign bytes
			backing := make([]byte, c, c+3)
			copy(backing, content[off:off+c])
			backing = append(backing, 0xEE, 0xEE, 0xEE)[:c]
			views = append(views, buffer.View(backing))
			ref = append(ref, append([]byte(nil), content[off:off+c]...))
			off += c
		}
		s.objs[0] = c16Obj{vv: buffer.NewVectorisedView(s.n, views), ref: ref, alive: true}
		for obj := 0; obj < 2; obj++ {
			for c := 0; c <= s.n+1; c++ {
				s.ops = append(s.ops, c16Op{'T', obj, c})
				s.names = append(s.names, fmt.Sprintf("o%d.TrimFront(%d)", obj, c))
			}
			for l := -1; l <= s.n+1; l++ {
				s.ops = append(s.ops, c16Op{'C', obj, l})
				s.names = append(s.names, fmt.Sprintf("o%d.CapLength(%d)", obj, l))
			}
			s.ops = append(s.ops, c16Op{'R', obj, 0})
			s.names = append(s.names, fmt.Sprintf("o%d.RemoveFirst()", obj))
		}
		for k := 0; k < 5; k++ {
			s.ops = append(s.ops, c16Op{'K', 0, k})
			s.names = append(s.names, fmt.Sprintf("o1=o0.Clone(%s)", []string{"nil", "small buffer", "large buffer", "empty scratch slice with capacity 8", "used scratch slice of length 1, capacity 6, stale views behind it"}[k]))
		}
		return s
	}
}

func (s *c16VV) Enabled() []int {
	var en []int
	for i, o := range s.ops {
		if !s.objs[o.obj].alive {
			continue
		}
		en = append(en, i)
	}
	return en
}

func refSize(r [][]byte) int {
	n := 0
	for _, c := range r {
		n += len(c)
	}
	return n
}

func refFlat(r [][]byte) []byte {
	var b []byte
	for _, c := range r {
		b = append(b, c...)
	}
	return b
}

func (s *c16VV) Apply(i int) *engine.Violation {
	o := s.ops[i]
	x := &s.objs[o.obj]
	switch o.kind {
	case 'T':
		x.vv.TrimFront(o.arg)
		// reference: drop min(arg, size) bytes from the front of the byte string
		c := o.arg
		for c > 0 && len(x.ref) > 0 {
			if c < len(x.ref[0]) {
				x.ref[0] = x.ref[0][c:]
				c = 0
				break
			}
			c -= len(x.ref[0])
			x.ref = x.ref[1:]
		}
	case 'C':
		if o.arg > 0 && o.arg <= refSize(x.ref) {
			x.capped = true
		}
		x.vv.CapLength(o.arg)
		l := o.arg
		if l < 0 {
			l = 0
		}
		if l <= refSize(x.ref) {
			var nr [][]byte
			for _, ch := range x.ref {
				if l == 0 {
					break
				}
				if len(ch) >= l {
					nr = append(nr, ch[:l])
					l = 0
					break
				}
				nr = append(nr, ch)
				l -= len(ch)
			}
			x.ref = nr
		}
	case 'R':
		x.vv.RemoveFirst()
		if len(x.ref) > 0 {
			x.ref = x.ref[1:]
		}
	case 'K':
		var buf []buffer.View
		switch o.arg {
		case 1:
			buf = make([]buffer.View, 1)
		case 2:
			buf = make([]buffer.View, 8)
		case 3:
			buf = make([]buffer.View, 0, 8)
		case 4:
			scratch := make([]buffer.View, 6)
			for i := range scratch {
				scratch[i] = buffer.View("STALE")
			}
			buf = scratch[:1]
		}
		s.objs[1] = c16Obj{vv: x.vv.Clone(buf), alive: true, capped: x.capped}
		for _, ch := range x.ref {
			s.objs[1].ref = append(s.objs[1].ref, ch)
		}
	}
	// read-backs on every live object (the clone must still equal ITS reference)
	for k := range s.objs {
		y := &s.objs[k]
		if !y.alive {
			continue
		}
		bad := func(f string, a ...interface{}) *engine.Violation {
			return &engine.Violation{Property: "C16", Kind: "vv-mismatch", Key: "vv:" + string(o.kind), Detail: fmt.Sprintf("%s: object o%d: ", s.names[i], k) + fmt.Sprintf(f, a...)}
		}
		want := refFlat(y.ref)
		if y.vv.Size() != len(want) {
			return bad("Size()=%d, byte string has %d bytes", y.vv.Size(), len(want))
		}
		if got := y.vv.ToView(); !bytes.Equal(got, want) {
			return bad("ToView()=%x, byte string is %x", []byte(got), want)
		}
		var cat []byte
		for _, v := range y.vv.Views() {
			cat = append(cat, v...)
		}
		if !bytes.Equal(cat, want) {
			return bad("concatenated Views()=%x, byte string is %x", cat, want)
		}
		if f := y.vv.First(); len(y.vv.Views()) > 0 && !bytes.Equal(f, y.vv.Views()[0]) {
			return bad("First()=%x differs from Views()[0]", []byte(f))
		}
		if len(y.vv.Views()) == 0 && y.vv.First() != nil {
			return bad("First() non-nil on an empty vectorised view")
		}
		if vs := y.vv.Views(); y.capped && len(vs) > 0 {
			if last := vs[len(vs)-1]; cap(last) != len(last) {
				return bad("after CapLength the last chunk can be re-extended: it exposes %x beyond the cap", []byte(last[:cap(last)][len(last):]))
			}
		}
	}
	return nil
}

func (s *c16VV) Key() string {
	var sb strings.Builder
	for k := range s.objs {
		y := &s.objs[k]
		if !y.alive {
			sb.WriteString("-|")
			continue
		}
		fmt.Fprintf(&sb, "%d:", y.vv.Size())
		for _, v := range y.vv.Views() {
			fmt.Fprintf(&sb, "%x/%d,", []byte(v), cap(v)-len(v))
		}
		sb.WriteString("|")
	}
	return sb.String()
}

// ---- View system ----

type c16View struct {
	v     buffer.View
	ref   []byte
	n     int
	ops   []c16Op
	names []string
}

func c16NewView(n int) func() engine.SeqSys {
	return func() engine.SeqSys {
		s := &c16View{n: n}
		backing := append(c16Content(n), 0xEE, 0xEE)
		s.v = buffer.View(backing[:n])
		s.ref = c16Content(n)
		for c := 0; c <= n; c++ {
			s.ops = append(s.ops, c16Op{'T', 0, c}, c16Op{'C', 0, c}, c16Op{'N', 0, c})
			s.names = append(s.names, fmt.Sprintf("TrimFront(%d)", c), fmt.Sprintf("CapLength(%d)", c), fmt.Sprintf("NextBytes(%d)", c))
		}
		return s
	}
}

func (s *c16View) Enabled() []int {
	var en []int
	for i, o := range s.ops {
		if o.arg <= len(s.ref) {
			en = append(en, i)
		}
	}
	return en
}

func (s *c16View) Apply(i int) *engine.Violation {
	o := s.ops[i]
	bad := func(f string, a ...interface{}) *engine.Violation {
		return &engine.Violation{Property: "C16", Kind: "view-mismatch", Key: "view:" + string(o.kind), Detail: s.names[i] + ": " + fmt.Sprintf(f, a...)}
	}
	switch o.kind {
	case 'T':
		s.v.TrimFront(o.arg)
		s.ref = s.ref[o.arg:]
	case 'C':
		s.v.CapLength(o.arg)
		s.ref = s.ref[:o.arg]
		if cap(s.v) != len(s.v) {
			return bad("after CapLength the view can be re-extended: v[:cap(v)] = %x exposes bytes beyond the cap", []byte(s.v[:cap(s.v)]))
		}
	case 'N':
		got := s.v.NextBytes(o.arg)
		if !bytes.Equal(got, s.ref[:o.arg]) {
			return bad("returned %x, want %x", got, s.ref[:o.arg])
		}
		s.ref = s.ref[o.arg:]
	}
	if !bytes.Equal(s.v, s.ref) {
		return bad("view is %x, byte string is %x", []byte(s.v), s.ref)
	}
	vv := s.v.ToVectorisedView()
	if vv.Size() != len(s.ref) || !bytes.Equal(vv.ToView(), s.ref) {
		return bad("ToVectorisedView(): size %d content %x, byte string %x", vv.Size(), []byte(vv.ToView()), s.ref)
	}
	return nil
}

func (s *c16View) Key() string { return fmt.Sprintf("%x/%d", []byte(s.v), cap(s.v)-len(s.v)) }

// ---- Prependable system ----

type c16Prep struct {
	p     buffer.Prependable
	ref   []byte
	size  int
	next  byte
	fromV bool
	ops   []c16Op
	names []string
}

func c16NewPrep(size int) func() engine.SeqSys {
	return func() engine.SeqSys {
		s := &c16Prep{size: size, p: buffer.NewPrependable(size), next: 1}
		for k := 0; k <= size+1; k++ {
			s.ops = append(s.ops, c16Op{'P', 0, k})
			s.names = append(s.names, fmt.Sprintf("Prepend(%d)", k))
		}
		s.ops = append(s.ops, c16Op{'V', 0, 0})
		s.names = append(s.names, "p=NewPrependableFromView(p.View())")
		return s
	}
}

func (s *c16Prep) Enabled() []int {
	en := make([]int, len(s.ops))
	for i := range en {
		en[i] = i
	}
	return en
}

func (s *c16Prep) Apply(i int) *engine.Violation {
	o := s.ops[i]
	bad := func(f string, a ...interface{}) *engine.Violation {
		return &engine.Violation{Property: "C16", Kind: "prependable-mismatch", Key: "prep:" + string(o.kind), Detail: s.names[i] + ": " + fmt.Sprintf(f, a...)}
	}
	switch o.kind {
	case 'P':
		free := s.size - len(s.ref)
		if s.fromV {
			free = 0
		}
		got := s.p.Prepend(o.arg)
		if o.arg > free {
			if got != nil {
				return bad("returned a %d-byte slice although only %d bytes are free", len(got), free)
			}
		} else {
			if got == nil || len(got) != o.arg {
				return bad("returned %v (len %d), want a %d-byte slice (%d free)", got == nil, len(got), o.arg, free)
			}
			if cap(got) != len(got) {
				return bad("returned slice can be extended over already prepended data (cap %d > len %d)", cap(got), len(got))
			}
			chunk := make([]byte, o.arg)
			for k := range chunk {
				chunk[k] = s.next
				s.next++
			}
			copy(got, chunk)
			s.ref = append(chunk, s.ref...)
		}
	case 'V':
		s.p = buffer.NewPrependableFromView(s.p.View())
		s.fromV = true
	}
	if s.p.UsedLength() != len(s.ref) {
		return bad("UsedLength()=%d, byte string has %d", s.p.UsedLength(), len(s.ref))
	}
	if !bytes.Equal(s.p.View(), s.ref) {
		return bad("View()=%x, byte string %x", []byte(s.p.View()), s.ref)
	}
	return nil
}

func (s *c16Prep) Key() string { return fmt.Sprintf("%x/%v", s.ref, s.fromV) }

// ---- plumbing ----

func c16Cfg(job, tier string, deadline time.Time) (engine.SeqCfg, bool) {
	full, dd := 3, 5
	if tier == "thorough" {
		full, dd = 4, 7
	}
	parts := strings.SplitN(job, ":", 2)
	var mk func() engine.SeqSys
	switch parts[0] {
	case "vv":
		var chunks []int
		for _, f := range strings.Split(parts[1], ",") {
			n, _ := strconv.Atoi(f)
			chunks = append(chunks, n)
		}
		mk = c16NewVV(chunks)
	case "view":
		n, _ := strconv.Atoi(parts[1])
		mk = c16NewView(n)
		full, dd = full+2, dd+3
	case "prep":
		n, _ := strconv.Atoi(parts[1])
		mk = c16NewPrep(n)
		full, dd = full+1, dd+2
	default:
		return engine.SeqCfg{}, false
	}
	var names []string
	switch s := mk().(type) {
	case *c16VV:
		names = s.names
	case *c16View:
		names = s.names
	case *c16Prep:
		names = s.names
	}
	return engine.SeqCfg{Alphabet: names, New: mk, FullDepth: full, DedupDepth: dd, Deadline: deadline}, true
}

func c16Run(job, tier string, deadline time.Time) *engine.Result {
	r := &engine.Result{Exhaustive: true}
	cfg, ok := c16Cfg(job, tier, deadline)
	if !ok {
		r.Err = "bad job " + job
		return r
	}
	st := engine.ExploreSeq(job, cfg)
	st.Into(r)
	r.Bound = fmt.Sprintf("all sequences <=%d (+dedup BFS)", cfg.FullDepth)
	return r
}

func c16Replay(rp json.RawMessage) *engine.Violation {
	var sr engine.SeqReplay
	if json.Unmarshal(rp, &sr) != nil {
		return nil
	}
	cfg, ok := c16Cfg(sr.Job, "quick", time.Time{})
	if !ok {
		return nil
	}
	return engine.ReplaySeq(cfg, sr.Ops)
}
