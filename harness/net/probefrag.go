package main

import (
	"fmt"

	"github.com/brewlin/net-protocol/protocol/network/ipv4"

	"verif/ref"
)

// probeFragWrap: fragments whose offset+length exceeds 65535 (developer probe).
func probeFragWrap() {
	w := c13NewWorld()
	defer w.close()
	src, dst := []byte(addrB4), []byte(addrA4)
	msgLen := 65528 + 16
	data := make([]byte, msgLen-8)
	for i := range data {
		data[i] = byte(i * 7)
	}
	msg := ref.BuildICMPv4Echo(8, 1, 2, data)
	cuts := []int{0, 32768, 65528, msgLen}
	for i := 0; i+1 < len(cuts); i++ {
		fl := uint8(1)
		if i+2 == len(cuts) {
			fl = 0
		}
		pk := ref.BuildIPv4(src, dst, ref.ProtoICMP, 777, fl, cuts[i], 64, msg[cuts[i]:cuts[i+1]])
		func() {
			defer func() {
				if e := recover(); e != nil {
					fmt.Println("PANIC on fragment", i, e)
				}
			}()
			w.r.w.Inject(w.r.n, 1, ipv4.ProtocolNumber, pk, "", "")
		}()
	}
	w.r.w.Settle()
	for _, f := range w.r.w.InFlight() {
		fmt.Printf("emitted %d bytes: %x...\n", len(f.Data), f.Data[:28])
		if _, err := w.r.mon.Check(f, w.r.Local); err != nil {
			fmt.Println("  monitor:", err)
		}
	}
	fmt.Println("monerr", w.r.MonErr)
	// still alive?
	f := w.round([]c13Req{{Ident: 5, Seq: 6, Len: 10}}, false)
	fmt.Println("echo afterwards:", f)
}
