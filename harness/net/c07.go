package main

import (
	"bytes"
	"encoding/json"
	"fmt"
	"os"
	"runtime"
	"strings"
	"syscall"
	"time"

	tcpip "github.com/brewlin/net-protocol/protocol"
	"github.com/brewlin/net-protocol/protocol/link/fdbased"
	"github.com/brewlin/net-protocol/protocol/network/arp"
	"github.com/brewlin/net-protocol/protocol/network/ipv4"
	"github.com/brewlin/net-protocol/protocol/network/ipv6"
	"github.com/brewlin/net-protocol/protocol/transport/tcp"
	"github.com/brewlin/net-protocol/protocol/transport/udp"
	"github.com/brewlin/net-protocol/stack"

	"verif/engine"
	"verif/ref"
	"verif/shim/vtime"
)

// C07: no inbound frame sequence can crash the stack or stop it serving. A victim stack with
// a TCP listener, an established TCP connection, a bound and a connected UDP socket,
// IPv4 + IPv6 + ARP receives exhaustively enumerated hostile input; after every sequence three
// liveness probes must succeed (echo answered, new TCP connection + 10 bytes echoed, UDP
// datagram delivered intact). Panics in the injecting goroutine are recovered and reported;
// a panic in a stack goroutine kills the worker, which the orchestrator confirms in isolation.

func init() {
	engine.Register(&engine.Check{
		ID:         "C07",
		Technique:  "exhaustive enumeration of hostile inbound frame sequences (small-scope fragment sequences, all single field mutations and truncations of valid packets, short noise) against the real stack in the deterministic world, worker-isolated; liveness probes after every sequence",
		Rule:       "fragments: all sequences of length <=2 (thorough 3) over offset {0,8,16,65528} x length {0,8,16,24} x MF {0,1} x id {1,2}; mutations: for each of 15 valid templates (ARP, ICMPv4 echo / unreachable, UDP, TCP SYN/ACK/data/RST to listener, connection and closed port, IPv6 counterparts incl. NS/NA and packet-too-big) every length/offset/count/flag field set to each boundary value, every value of every byte of the TCP sequence and acknowledgement numbers, and every truncation length; noise: every byte string of length <=2 and fills of every length 0..80 under each ethertype; each template and each of its field mutations delivered in two views cut at every byte (quick: mutations cut within bytes 20..104) and, for IPv4, as two fragments cut at every 8-byte boundary in both arrival orders; every 3-byte (thorough: 4-byte) TCP option area over a 12-symbol alphabet on a SYN to the listener and on a data segment of the connection; pairs of a 24-letter digest; the same runt/short frames through the repository's fd-based Ethernet endpoint over a socketpair; distinct = distinct sequence; all non-trivial",
		Assumes:    []string{"inputs are injected at the link layer of one NIC; reassembly timeouts are not advanced inside a sequence"},
		Jobs:       c07Jobs,
		Run:        c07Run,
		Replay:     c07Replay,
		NeedRepro:  true,
		StuckAfter: 60 * time.Second,
		Isolated:   true,
		WorkerJobs: 20,
	})
}

type c07World struct {
	r       *Raw
	lst     tcpip.Endpoint
	conn    tcpip.Endpoint
	udpB    tcpip.Endpoint
	udpC    tcpip.Endpoint
	connSeq uint32 // peer's next sequence number on the established connection
	connAck uint32
	probeN  int
}

const (
	c07ListenPort = 80
	c07UDPPort    = 53
	c07UDPConn    = 5353
)

func c07NewWorld() (*c07World, error) {
	r := NewRaw(false, 1500)
	ScriptRand(0x01010101, 0x02020202, 0x03030303)
	must(r.n.S.AddAddress(1, arp.ProtocolNumber, arp.ProtocolAddress))
	must(r.n.S.AddAddress(1, ipv6.ProtocolNumber, solicitedNode(addrA6)))
	c := &c07World{r: r}
	ls := r.n.NewSock(tcp.ProtocolNumber, ipv4.ProtocolNumber)
	must(ls.EP.Bind(tcpip.FullAddress{Port: c07ListenPort}, nil))
	must(ls.EP.Listen(16))
	c.lst = ls.EP
	c.udpB = r.n.NewSock(udp.ProtocolNumber, ipv4.ProtocolNumber).EP
	must(c.udpB.Bind(tcpip.FullAddress{Port: c07UDPPort}, nil))
	c.udpC = r.n.NewSock(udp.ProtocolNumber, ipv4.ProtocolNumber).EP
	must(c.udpC.Bind(tcpip.FullAddress{Port: c07UDPConn}, nil))
	must(c.udpC.Connect(tcpip.FullAddress{Addr: addrB4, Port: 7777}))
	r.w.Settle()
	// established connection from the peer (port 40000)
	ep, seq, ack, err := c.handshake(40000)
	if err != nil {
		return nil, err
	}
	c.conn, c.connSeq, c.connAck = ep, seq, ack
	return c, nil
}

func (c *c07World) handshake(pport uint16) (tcpip.Endpoint, uint32, uint32, error) {
	iss := uint32(100000 + int(pport)*7)
	c.r.SendTCP(pport, c07ListenPort, iss, 0, ref.SYN, 30000, ref.PadOpts(ref.OptMSS(1460)), nil)
	var sa *ref.TCP
	for _, d := range c.r.Collect() {
		if d.TCP != nil && d.TCP.Flags == ref.SYN|ref.ACK && d.TCP.DstPort == pport {
			sa = d.TCP
		}
	}
	if sa == nil {
		return nil, 0, 0, fmt.Errorf("SYN to the listener was not answered with a SYN-ACK")
	}
	c.r.SendTCP(pport, c07ListenPort, iss+1, sa.Seq+1, ref.ACK, 30000, nil, nil)
	c.r.Collect()
	ep, _, err := c.lst.Accept()
	if err != nil {
		return nil, 0, 0, fmt.Errorf("Accept after a complete handshake: %v", err)
	}
	return ep, iss + 1, sa.Seq + 1, nil
}

func (c *c07World) close() {
	for _, ep := range []tcpip.Endpoint{c.conn, c.lst, c.udpB, c.udpC} {
		if ep != nil {
			ep.Close()
		}
	}
	c.r.w.Settle()
	for i := 0; i < 20 && vtime.FireNext(); i++ {
		c.r.w.Settle()
	}
	for _, a := range []tcpip.Address{addrA4, addrA6, solicitedNode(addrA6)} {
		c.r.n.S.RemoveAddress(1, a)
	}
	c.r.w.Settle()
}

type c07Frame struct {
	Proto uint16
	Data  []byte
	Split int `json:",omitempty"` // > 0: delivered as two views cut at this byte
}

// inject delivers one hostile frame; a panic in the injecting goroutine is returned.
func (c *c07World) inject(f c07Frame) (perr string) {
	defer func() {
		if e := recover(); e != nil {
			perr = fmt.Sprintf("%v", e)
		}
	}()
	if f.Split > 0 && f.Split < len(f.Data) {
		c.r.w.InjectSplit(c.r.n, 1, tcpip.NetworkProtocolNumber(f.Proto), f.Data, f.Split, "\x02\x00\x00\x00\x00\x02", "\x02\x00\x00\x00\x00\x01")
	} else {
		c.r.w.Inject(c.r.n, 1, tcpip.NetworkProtocolNumber(f.Proto), f.Data, "\x02\x00\x00\x00\x00\x02", "\x02\x00\x00\x00\x00\x01")
	}
	c.r.Collect()
	return ""
}

// probes: the three liveness checks. Returns "" if the stack still serves.
func (c *c07World) probes() (msg string) {
	defer func() {
		if e := recover(); e != nil {
			msg = fmt.Sprintf("panic during liveness probe: %v", e)
		}
	}()
	if dl := DeadlockedGoroutines(); len(dl) > 0 {
		return "deadlock: a goroutine waits for a lock while the world is quiescent:\n" + dl[0]
	}
	c.probeN++
	// 1. echo
	data := []byte(fmt.Sprintf("ping-%d", c.probeN))
	c.r.InjectIP(ref.ProtoICMP, ref.BuildICMPv4Echo(8, 77, uint16(c.probeN), data))
	ok := false
	for _, d := range c.r.Collect() {
		if d.ICMP != nil && !d.V6 && d.ICMP.Type == 0 && bytes.Equal(d.ICMP.Data, data) {
			ok = true
		}
	}
	if !ok {
		return "liveness: an echo request is no longer answered"
	}
	// 2. UDP
	c.r.InjectIP(ref.ProtoUDP, ref.BuildUDP(9000, c07UDPPort, data, c.r.pAddr, c.r.sAddr))
	found := false
	for {
		v, _, err := c.udpB.Read(nil)
		if err != nil {
			break
		}
		if bytes.Equal(v, data) {
			found = true
		}
	}
	if !found {
		return "liveness: a UDP datagram to the bound socket is no longer delivered intact"
	}
	// 3. new TCP connection + 10 bytes echoed by the application
	pport := uint16(41000 + c.probeN%20000)
	ep, seq, ack, err := c.handshake(pport)
	if err != nil {
		return "liveness: a new TCP connection cannot be established: " + err.Error()
	}
	defer ep.Close()
	ten := []byte("0123456789")
	c.r.SendTCP(pport, c07ListenPort, seq, ack, ref.ACK|ref.PSH, 30000, nil, ten)
	c.r.Collect()
	v, _, rerr := ep.Read(nil)
	if rerr != nil || !bytes.Equal(v, ten) {
		return fmt.Sprintf("liveness: 10 bytes sent on a new connection are not delivered (read %q, %v)", v, rerr)
	}
	if _, _, werr := ep.Write(tcpip.SlicePayload(append([]byte(nil), ten...)), tcpip.WriteOptions{}); werr != nil {
		return fmt.Sprintf("liveness: cannot write on a new connection: %v", werr)
	}
	c.r.w.Settle()
	echoed := false
	for _, d := range c.r.Collect() {
		if d.TCP != nil && d.TCP.DstPort == pport && bytes.Equal(d.TCP.Payload, ten) {
			echoed = true
		}
	}
	if !echoed {
		return "liveness: 10 bytes written on a new connection never leave the stack"
	}
	// reset the probe connection so that it does not linger
	c.r.SendTCP(pport, c07ListenPort, seq+10, ack+10, ref.RST|ref.ACK, 0, nil, nil)
	c.r.Collect()
	return ""
}

// ---------- alphabets ----------

func c07FragLetters() []c07Frame {
	var ls []c07Frame
	for _, id := range []uint16{1, 2} {
		for _, off := range []int{0, 8, 16, 65528} {
			for _, n := range []int{0, 8, 16, 24} {
				for _, mf := range []uint8{0, 1} {
					payload := bytes.Repeat([]byte{byte(off/8 + n)}, n)
					ls = append(ls, c07Frame{Proto: ref.EtherIPv4, Data: ref.BuildIPv4([]byte(addrB4), []byte(addrA4), ref.ProtoUDP, id, mf, off, 64, payload)})
				}
			}
		}
	}
	return ls
}

type c07Template struct {
	name  string
	proto uint16
	data  []byte
	// fields to mutate: offset, width (1 or 2 bytes)
	fields [][2]int
	fix    func(b []byte)
}

func c07Templates(c *c07World) []c07Template {
	s4, p4 := c.r.sAddr, c.r.pAddr
	s6, p6 := []byte(addrA6), []byte(addrB6)
	ip4 := func(proto uint8, payload []byte) []byte { return ref.BuildIPv4(p4, s4, proto, 99, 0, 0, 64, payload) }
	ip6 := func(next uint8, payload []byte) []byte { return ref.BuildIPv6(p6, s6, next, 64, payload) }
	ipFields := [][2]int{{0, 1}, {2, 2}, {6, 2}, {8, 1}, {9, 1}}
	tcpAt := func(base int) [][2]int {
		return [][2]int{{base + 12, 1}, {base + 13, 1}, {base + 14, 2}, {base + 20, 1}, {base + 21, 1}}
	}
	fix4 := func(b []byte) { ref.FixIPv4Checksum(b) }
	opts := ref.PadOpts(ref.OptMSS(1460), ref.OptWS(7), ref.OptSACKPerm(), ref.OptTS(1, 0))
	quoted := ref.BuildIPv4(s4, p4, ref.ProtoUDP, 7, 2, 0, 64, ref.BuildUDP(c07UDPConn, 7777, []byte("abcdefgh"), s4, p4))
	quoted6 := ref.BuildIPv6(s6, p6, ref.ProtoFrag6, 64, ref.BuildIPv6Frag(ref.ProtoUDP, 0, true, 9, ref.BuildUDP(5, 6, []byte("abcdefgh"), s6, p6)))
	ns := make([]byte, 20)
	copy(ns[4:], s6)
	ns = append(ns, 1, 1, 2, 0, 0, 0, 0, 2)
	ts := []c07Template{
		{"arp-request", ref.EtherARP, ref.BuildARP(1, []byte{2, 0, 0, 0, 0, 2}, p4, make([]byte, 6), s4), [][2]int{{0, 2}, {2, 2}, {4, 1}, {5, 1}, {6, 2}}, nil},
		{"arp-reply", ref.EtherARP, ref.BuildARP(2, []byte{2, 0, 0, 0, 0, 2}, p4, []byte{2, 0, 0, 0, 0, 1}, s4), [][2]int{{4, 1}, {5, 1}, {6, 2}}, nil},
		{"icmp-echo", ref.EtherIPv4, ip4(ref.ProtoICMP, ref.BuildICMPv4Echo(8, 1, 2, []byte("payload!"))), append(append([][2]int{}, ipFields...), [2]int{20, 1}, [2]int{21, 1}), fix4},
		{"icmp-port-unreachable", ref.EtherIPv4, ip4(ref.ProtoICMP, ref.BuildICMPv4Error(3, 3, 0, quoted)), append(append([][2]int{}, ipFields...), [2]int{20, 1}, [2]int{21, 1}, [2]int{28, 1}, [2]int{30, 2}, [2]int{34, 2}, [2]int{37, 1}), fix4},
		{"icmp-frag-needed", ref.EtherIPv4, ip4(ref.ProtoICMP, ref.BuildICMPv4Error(3, 4, 296, quoted)), append(append([][2]int{}, ipFields...), [2]int{26, 2}, [2]int{28, 1}, [2]int{30, 2}, [2]int{34, 2}), fix4},
		{"udp", ref.EtherIPv4, ip4(ref.ProtoUDP, ref.BuildUDP(9000, c07UDPPort, []byte("hello-udp"), p4, s4)), append(append([][2]int{}, ipFields...), [2]int{24, 2}, [2]int{22, 2}), fix4},
		{"tcp-syn-listener", ref.EtherIPv4, ip4(ref.ProtoTCP, ref.BuildTCP(45000, c07ListenPort, 5, 0, ref.SYN, 1000, opts, nil, p4, s4)), append(append(append([][2]int{}, ipFields...), tcpAt(20)...), [2]int{20 + 24, 1}, [2]int{20 + 25, 1}, [2]int{20 + 27, 1}), fix4},
		{"tcp-ack-listener", ref.EtherIPv4, ip4(ref.ProtoTCP, ref.BuildTCP(45001, c07ListenPort, 5, 9, ref.ACK, 1000, nil, nil, p4, s4)), append(append([][2]int{}, ipFields...), tcpAt(20)[:3]...), fix4},
		{"tcp-data-connection", ref.EtherIPv4, ip4(ref.ProtoTCP, ref.BuildTCP(40000, c07ListenPort, c.connSeq, c.connAck, ref.ACK|ref.PSH, 1000, ref.PadOpts(ref.OptSACK(ref.SACKBlock{Start: 1, End: 2})), []byte("data"), p4, s4)), append(append([][2]int{}, ipFields...), tcpAt(20)...), fix4},
		{"tcp-rst-closed-port", ref.EtherIPv4, ip4(ref.ProtoTCP, ref.BuildTCP(45002, 81, 5, 9, ref.RST, 0, nil, nil, p4, s4)), append(append([][2]int{}, ipFields...), tcpAt(20)[:3]...), fix4},
		{"udp6", ref.EtherIPv6, ip6(ref.ProtoUDP, ref.BuildUDP(9000, c07UDPPort, []byte("hello-udp6"), p6, s6)), [][2]int{{0, 1}, {4, 2}, {6, 1}, {7, 1}, {44, 2}}, nil},
		{"tcp6-syn", ref.EtherIPv6, ip6(ref.ProtoTCP, ref.BuildTCP(45003, c07ListenPort, 5, 0, ref.SYN, 1000, opts, nil, p6, s6)), append([][2]int{{4, 2}, {6, 1}}, tcpAt(40)...), nil},
		{"icmp6-echo", ref.EtherIPv6, ip6(ref.ProtoICMPv6, ref.BuildICMPv6Echo(128, 1, 2, []byte("payload6"), p6, s6)), [][2]int{{4, 2}, {6, 1}, {40, 1}, {41, 1}}, nil},
		{"icmp6-ns", ref.EtherIPv6, ip6(ref.ProtoICMPv6, ref.BuildICMPv6(135, 0, ns, p6, s6)), [][2]int{{4, 2}, {40, 1}, {64, 1}, {65, 1}}, nil},
		{"icmp6-too-big", ref.EtherIPv6, ip6(ref.ProtoICMPv6, ref.BuildICMPv6(2, 0, append([]byte{0, 0, 5, 0}, quoted6...), p6, s6)), [][2]int{{4, 2}, {40, 1}, {44, 2}, {46, 2}, {48 + 4, 2}, {48 + 6, 1}, {48 + 40, 1}, {48 + 42, 2}}, nil},
	}
	return ts
}

func c07Values(width int, actual int) []int {
	if width == 1 {
		return []int{0, 1, 4, 5, 0x0f, 0x40, 0x44, 0x46, 0x4f, 0x50, 0x60, 0x7f, 0x80, 0xf0, 0xff, actual - 1, actual + 1}
	}
	return []int{0, 1, 7, 8, 19, 20, 21, 27, 28, 39, 40, actual - 1, actual + 1, actual + 8, 0x1fff, 0x2000, 0x3fff, 0x7fff, 0x8000, 0xfff8, 0xffff}
}

// mutations of one template: all single field mutations and all truncations.
func c07Mutations(t c07Template) []c07Frame {
	var out []c07Frame
	for _, f := range t.fields {
		off, w := f[0], f[1]
		if off+w > len(t.data) {
			continue
		}
		actual := int(t.data[off])
		if w == 2 {
			actual = int(t.data[off])<<8 | int(t.data[off+1])
		}
		for _, v := range c07Values(w, actual) {
			if v < 0 {
				continue
			}
			b := append([]byte(nil), t.data...)
			if w == 1 {
				b[off] = byte(v)
			} else {
				b[off], b[off+1] = byte(v>>8), byte(v)
			}
			if t.fix != nil {
				t.fix(b)
			}
			out = append(out, c07Frame{Proto: t.proto, Data: b})
			// the same mutation without repairing the header checksum
			if t.fix != nil && off >= 20 {
				continue
			}
		}
	}
	for l := 0; l <= len(t.data); l++ {
		out = append(out, c07Frame{Proto: t.proto, Data: append([]byte(nil), t.data[:l]...)})
	}
	return out
}

// c07Splits: a packet delivered in pieces. Every cut of the packet into two views (the way
// a link endpoint with small receive buffers hands it over), and for IPv4 every cut of its
// payload at an 8-byte boundary into two fragments, in both arrival orders (the reassembled
// packet then reaches the transport layer as two views).
func c07Splits(f c07Frame) [][]c07Frame {
	var out [][]c07Frame
	for k := 1; k < len(f.Data); k++ {
		out = append(out, []c07Frame{{Proto: f.Proto, Data: f.Data, Split: k}})
	}
	if f.Proto == ref.EtherIPv4 && len(f.Data) > 28 && f.Data[0] == 0x45 && f.Data[6]&0x3f == 0 && f.Data[7] == 0 {
		payload := f.Data[20:]
		id := uint16(f.Data[4])<<8 | uint16(f.Data[5])
		for k := 8; k < len(payload); k += 8 {
			a := ref.BuildIPv4(f.Data[12:16], f.Data[16:20], f.Data[9], id, 1, 0, 64, payload[:k])
			b := ref.BuildIPv4(f.Data[12:16], f.Data[16:20], f.Data[9], id, 0, k, 64, payload[k:])
			out = append(out, []c07Frame{{Proto: f.Proto, Data: a}, {Proto: f.Proto, Data: b}}, []c07Frame{{Proto: f.Proto, Data: b}, {Proto: f.Proto, Data: a}})
		}
	}
	return out
}

func c07Noise() []c07Frame {
	var out []c07Frame
	for _, et := range []uint16{ref.EtherIPv4, ref.EtherIPv6, ref.EtherARP, 0} {
		out = append(out, c07Frame{Proto: et, Data: nil})
		for a := 0; a < 256; a++ {
			out = append(out, c07Frame{Proto: et, Data: []byte{byte(a)}})
		}
		for a := 0; a < 256; a++ {
			for _, b := range []byte{0x00, 0x14, 0x45, 0xff} {
				out = append(out, c07Frame{Proto: et, Data: []byte{byte(a), b}})
			}
		}
		for l := 0; l <= 80; l++ {
			for _, fill := range []byte{0x00, 0xff, 0x45, 0x60} {
				out = append(out, c07Frame{Proto: et, Data: bytes.Repeat([]byte{fill}, l)})
			}
		}
	}
	return out
}

// ---------- running sequences ----------

type c07Fail struct {
	key, msg string
	seq      []c07Frame
}

// runSeqs feeds the sequences to victim worlds in batches of 100 (a world survives benign
// input, so rebuilding it per sequence only costs time). When a sequence fails it is re-run
// alone on a fresh victim; if it fails there too it is reported by itself, otherwise the
// whole batch prefix is the (exactly replayable) failing input.
func c07RunSeqs(seqs [][]c07Frame, r *engine.Result, deadline time.Time) []c07Fail {
	var fails []c07Fail
	const batch = 100
	for start := 0; start < len(seqs); start += batch {
		if time.Now().After(deadline) {
			r.Exhaustive = false
			r.Caps = append(r.Caps, "deadline")
			break
		}
		end := start + batch
		if end > len(seqs) {
			end = len(seqs)
		}
		k, f := c07RunBatch(seqs[start:end], r, true)
		if r.Err != "" {
			return fails
		}
		if f == nil {
			continue
		}
		// minimise: the failing sequence alone on a fresh victim
		if _, f1 := c07RunBatch(seqs[start+k:start+k+1], &engine.Result{}, false); f1 != nil {
			fails = append(fails, *f1)
		} else {
			var all []c07Frame
			for _, sq := range seqs[start : start+k+1] {
				all = append(all, sq...)
			}
			f.seq = all
			f.msg += fmt.Sprintf(" (after %d earlier benign sequences on the same victim; the replay feeds all of them)", k)
			fails = append(fails, *f)
		}
		if len(fails) >= 4 {
			break
		}
		// continue with the rest of this batch on a fresh victim
		rest := seqs[start+k+1 : end]
		if len(rest) > 0 {
			if _, f2 := c07RunBatch(rest, r, true); f2 != nil && len(fails) < 4 {
				fails = append(fails, *f2)
			}
		}
	}
	return fails
}

// c07RunBatch runs sequences on one fresh victim, probing after each; returns the index of
// the first failing sequence.
func c07RunBatch(seqs [][]c07Frame, r *engine.Result, count bool) (int, *c07Fail) {
	c, err := c07NewWorld()
	if err != nil {
		r.Err = "harness: cannot build the victim world: " + err.Error()
		return 0, nil
	}
	defer func() {
		defer func() { recover() }()
		c.close()
	}()
	for k, sq := range seqs {
		engine.Tick()
		if os.Getenv("VERIF_C07_TRACE") != "" {
			fmt.Fprintf(os.Stderr, "seq %d:%s\n", k, c07Describe(sq))
		}
		bad, key := "", ""
		for _, f := range sq {
			if p := c.inject(f); p != "" {
				bad, key = "panic while processing an inbound frame: "+p, "panic:"+keyOf(fmt.Errorf("%s", p))
				break
			}
		}
		if bad == "" {
			if m := c.probes(); m != "" {
				bad, key = m, "wedged:"+keyOf(fmt.Errorf("%s", strings.SplitN(m, "\n", 2)[0]))
			}
		}
		if count {
			r.Execs++
			r.Transitions += int64(len(sq))
			r.Nontrivial++
		}
		if bad != "" {
			return k, &c07Fail{key, bad, sq}
		}
	}
	return 0, nil
}

func c07Describe(sq []c07Frame) string {
	var sb strings.Builder
	for i, f := range sq {
		d := f.Data
		if len(d) > 60 {
			d = d[:60]
		}
		fmt.Fprintf(&sb, " #%d ethertype %#04x %d bytes %x", i+1, f.Proto, len(f.Data), d)
		if f.Proto == ref.EtherIPv4 && len(f.Data) >= 20 {
			ff := int(f.Data[6])<<8 | int(f.Data[7])
			fmt.Fprintf(&sb, " (ipv4 id %d off %d MF %d len %d)", int(f.Data[4])<<8|int(f.Data[5]), (ff&0x1fff)*8, (ff>>13)&1, len(f.Data)-20)
		}
	}
	return sb.String()
}

// ---------- fd-based endpoint over a socketpair ----------

func c07FdBased() []c07Fail {
	var fails []c07Fail
	fds, err := syscall.Socketpair(syscall.AF_UNIX, syscall.SOCK_DGRAM, 0)
	if err != nil {
		return []c07Fail{{"harness-socketpair", "socketpair: " + err.Error(), nil}}
	}
	defer syscall.Close(fds[1])
	vtime.DisableVirtual()
	defer vtime.EnableVirtual()
	s := stack.New(allNet, allTrans, stack.Options{})
	mac := tcpip.LinkAddress("\x02\x00\x00\x00\x00\x01")
	id := fdbased.New(&fdbased.Options{FD: fds[0], MTU: 1500, ResolutionRequired: true, Address: mac})
	must(s.CreateNIC(1, id))
	must(s.AddAddress(1, ipv4.ProtocolNumber, addrA4))
	must(s.AddAddress(1, arp.ProtocolNumber, arp.ProtocolAddress))
	s.SetRouteTable([]tcpip.Route{{Destination: "\x00\x00\x00\x00", Mask: "\x00\x00\x00\x00", NIC: 1}})
	peerMAC := []byte{2, 0, 0, 0, 0, 2}
	echo := func(n int) []byte {
		return ref.BuildEth([]byte(mac), peerMAC, ref.EtherIPv4, ref.BuildIPv4([]byte(addrB4), []byte(addrA4), ref.ProtoICMP, uint16(n), 0, 0, 64, ref.BuildICMPv4Echo(8, 9, uint16(n), []byte("fd"))))
	}
	answered := func(n int) bool {
		syscall.Write(fds[1], echo(n))
		buf := make([]byte, 2048)
		deadline := time.Now().Add(3 * time.Second)
		for time.Now().Before(deadline) {
			syscall.SetNonblock(fds[1], true)
			k, err := syscall.Read(fds[1], buf)
			if err == nil && k > 14 {
				e, _ := ref.ParseEth(buf[:k])
				if e.Type == ref.EtherARP { // the stack asks for our MAC first
					a, aerr := ref.ParseARP(e.Payload)
					if aerr == nil && a.Op == 1 {
						syscall.Write(fds[1], ref.BuildEth(e.Src[:], peerMAC, ref.EtherARP, ref.BuildARP(2, peerMAC, []byte(addrB4), a.SHA[:], a.SPA[:])))
					}
					continue
				}
				if e.Type == ref.EtherIPv4 {
					if h, herr := ref.ParseIPv4(e.Payload, true); herr == nil && h.Proto == ref.ProtoICMP {
						if m, merr := ref.ParseICMPv4(h.Payload); merr == nil && m.Type == 0 && int(m.Seq) == n {
							return true
						}
					}
				}
				continue
			}
			time.Sleep(2 * time.Millisecond)
		}
		return false
	}
	if !answered(1) {
		return []c07Fail{{"harness-fdbased", "fd-based endpoint does not answer an echo request in the first place", nil}}
	}
	n := 1
	for l := 1; l <= 20; l++ { // a zero-length read is end-of-file on the descriptor, not a frame
		for _, fill := range []byte{0x00, 0xff, 0x45} {
			frame := bytes.Repeat([]byte{fill}, l)
			syscall.Write(fds[1], frame)
			engine.Tick()
			n++
			if !answered(n) {
				fails = append(fails, c07Fail{"fdbased-dispatch-stopped", fmt.Sprintf("after a %d-byte frame (fill %#02x) on the fd-based Ethernet endpoint the stack no longer answers echo requests: the dispatch loop has stopped", l, fill), []c07Frame{{Proto: 0, Data: frame}}})
				return fails
			}
		}
	}
	return fails
}

// ---------- jobs ----------

func c07Jobs(tier string) []string {
	jobs := []string{"noise", "fdbased", "accept"}
	for i := 0; i < 16; i++ {
		jobs = append(jobs, fmt.Sprintf("frag:%d/16", i))
	}
	for i := 0; i < 15; i++ {
		jobs = append(jobs, fmt.Sprintf("mut:%d", i))
	}
	for i := 0; i < 8; i++ {
		jobs = append(jobs, fmt.Sprintf("digest:%d/8", i))
	}
	for i := 0; i < 15; i++ {
		jobs = append(jobs, fmt.Sprintf("split:%d", i))
	}
	for i := 0; i < 16; i++ {
		jobs = append(jobs, fmt.Sprintf("opts:%d/16", i))
	}
	return jobs
}

func c07Seqs(job, tier string) ([][]c07Frame, string) {
	parts := strings.Split(job, ":")
	var seqs [][]c07Frame
	switch parts[0] {
	case "frag":
		var i, n int
		fmt.Sscanf(parts[1], "%d/%d", &i, &n)
		L := c07FragLetters()
		k := 0
		for a := range L {
			if a%n == i {
				seqs = append(seqs, []c07Frame{L[a]})
			}
			for b := range L {
				k++
				if k%n == i {
					seqs = append(seqs, []c07Frame{L[a], L[b]})
				}
				if tier == "thorough" && k%n == i {
					for d := range L {
						seqs = append(seqs, []c07Frame{L[a], L[b], L[d]})
					}
				}
			}
		}
		return seqs, "fragment sequences over 64 letters"
	case "mut":
		var ti int
		fmt.Sscan(parts[1], &ti)
		c, err := c07NewWorld()
		if err != nil {
			return nil, "harness: " + err.Error()
		}
		ts := c07Templates(c)
		c.close()
		if ti >= len(ts) {
			return nil, ""
		}
		for _, m := range c07Mutations(ts[ti]) {
			seqs = append(seqs, []c07Frame{m})
		}
		if strings.HasPrefix(ts[ti].name, "tcp-") {
			// sequence and acknowledgement numbers: every value of each of their bytes (the
			// listener derives table indices from them - SYN cookies)
			for off := 24; off < 32; off++ {
				for v := 0; v < 256; v++ {
					b := append([]byte(nil), ts[ti].data...)
					b[off] = byte(v)
					ref.FixIPv4Checksum(b)
					seqs = append(seqs, []c07Frame{{Proto: ts[ti].proto, Data: b}})
				}
			}
		}
		return seqs, "single field mutations and truncations of template " + ts[ti].name
	case "split":
		var ti int
		fmt.Sscan(parts[1], &ti)
		c, err := c07NewWorld()
		if err != nil {
			return nil, "harness: " + err.Error()
		}
		ts := c07Templates(c)
		c.close()
		if ti >= len(ts) {
			return nil, ""
		}
		seqs = append(seqs, c07Splits(c07Frame{Proto: ts[ti].proto, Data: ts[ti].data})...)
		// every field mutation as well: quick cuts it at the boundaries of the first 64 bytes
		// after the network header, thorough everywhere
		ms := c07Mutations(ts[ti])
		for _, m := range ms[:len(ms)-len(ts[ti].data)-1] {
			for _, sq := range c07Splits(m) {
				if tier != "thorough" && len(sq) == 1 && (sq[0].Split < 20 || sq[0].Split > 104) {
					continue
				}
				seqs = append(seqs, sq)
			}
		}
		return seqs, "template " + ts[ti].name + " and its field mutations delivered in two views / two IPv4 fragments at every cut"
	case "opts":
		// every TCP option area of 4 bytes over a 12-symbol alphabet (all kinds the parsers know,
		// unknown kinds, length bytes 0/1/2/3/4/10/40/255), on a SYN to the listener, on a SYN to
		// a closed port and on a data segment of the established connection
		var i, n int
		fmt.Sscanf(parts[1], "%d/%d", &i, &n)
		c, err := c07NewWorld()
		if err != nil {
			return nil, "harness: " + err.Error()
		}
		s4, p4 := c.r.sAddr, c.r.pAddr
		connSeq, connAck := c.connSeq, c.connAck
		c.close()
		alpha := []byte{0, 1, 2, 3, 4, 5, 8, 10, 40, 0xfd, 0xfe, 0xff}
		k := 0
		for a := range alpha {
			for b := range alpha {
				for d := range alpha {
					for e := range alpha {
						if tier != "thorough" && alpha[e] != 0 && alpha[e] != 1 {
							continue // quick: every 3-byte area, closed by an end-of-list or a no-op byte
						}
						k++
						if k%n != i {
							continue
						}
						o := []byte{alpha[a], alpha[b], alpha[d], alpha[e]}
						ip4 := func(payload []byte) []byte { return ref.BuildIPv4(p4, s4, ref.ProtoTCP, 99, 0, 0, 64, payload) }
						seqs = append(seqs,
							[]c07Frame{{Proto: ref.EtherIPv4, Data: ip4(ref.BuildTCP(uint16(46000+k%1000), c07ListenPort, 5, 0, ref.SYN, 1000, o, nil, p4, s4))}},
							[]c07Frame{{Proto: ref.EtherIPv4, Data: ip4(ref.BuildTCP(40000, c07ListenPort, connSeq, connAck, ref.ACK|ref.PSH, 1000, o, []byte("d"), p4, s4))}})
						if tier == "thorough" {
							seqs = append(seqs, []c07Frame{{Proto: ref.EtherIPv4, Data: ip4(ref.BuildTCP(uint16(46000+k%1000), 81, 5, 0, ref.SYN, 1000, o, nil, p4, s4))}})
						}
					}
				}
			}
		}
		if i == 0 {
			// every symbol as the very last byte of the option area, behind no-ops and behind a
			// complete option (4- and 8-byte areas)
			for _, x := range alpha {
				for _, o := range [][]byte{{1, 1, 1, x}, {2, 4, 5, 180, 1, 1, 1, x}, {1, 1, 1, 1, 1, 1, 1, x}, {3, 3, 2, x}} {
					ip4 := func(payload []byte) []byte { return ref.BuildIPv4(p4, s4, ref.ProtoTCP, 99, 0, 0, 64, payload) }
					seqs = append(seqs,
						[]c07Frame{{Proto: ref.EtherIPv4, Data: ip4(ref.BuildTCP(uint16(47000+int(x)), c07ListenPort, 5, 0, ref.SYN, 1000, o, nil, p4, s4))}},
						[]c07Frame{{Proto: ref.EtherIPv4, Data: ip4(ref.BuildTCP(40000, c07ListenPort, connSeq, connAck, ref.ACK|ref.PSH, 1000, o, []byte("d"), p4, s4))}},
						[]c07Frame{{Proto: ref.EtherIPv4, Data: ip4(ref.BuildTCP(uint16(47000+int(x)), 81, 5, 0, ref.SYN, 1000, o, nil, p4, s4))}})
				}
			}
		}
		return seqs, "all 4-byte TCP option areas over a 12-symbol alphabet on SYNs and data segments"
	case "noise":
		for _, f := range c07Noise() {
			seqs = append(seqs, []c07Frame{f})
		}
		return seqs, "noise"
	case "digest":
		var i, n int
		fmt.Sscanf(parts[1], "%d/%d", &i, &n)
		c, err := c07NewWorld()
		if err != nil {
			return nil, "harness: " + err.Error()
		}
		ts := c07Templates(c)
		c.close()
		var D []c07Frame
		for _, t := range ts {
			ms := c07Mutations(t)
			D = append(D, ms[0], ms[len(ms)/2])
		}
		fl := c07FragLetters()
		D = append(D, fl[1], fl[17], fl[20], fl[36])
		k := 0
		for a := range D {
			for b := range D {
				k++
				if k%n == i {
					seqs = append(seqs, []c07Frame{D[a], D[b]})
				}
			}
		}
		return seqs, "pairs over a digest of mutated templates and fragments"
	}
	return nil, ""
}

func c07Run(job, tier string, deadline time.Time) *engine.Result {
	r := &engine.Result{Exhaustive: true}
	defer func() {
		r.Recycle = r.Recycle || runtime.NumGoroutine() > 100
		if r.States == 0 {
			r.States = r.Execs + 1
		}
		r.Outcomes = append(r.Outcomes, engine.Hash(job, len(r.Violations)))
	}()
	if job == "fdbased" {
		for _, f := range c07FdBased() {
			if strings.HasPrefix(f.key, "harness") {
				r.Err = f.msg
				continue
			}
			r.Violations = append(r.Violations, engine.Violation{Property: "C07", Kind: "wedged", Key: f.key, Detail: f.msg, Job: job, Replay: engine.MustJSON(map[string]interface{}{"job": job})})
		}
		r.Execs, r.Transitions, r.Nontrivial = 60, 120, 60
		r.Sample(map[string]interface{}{"fdbased": "frames of 1..20 bytes x fills {00,ff,45} written to the socketpair, echo probe after each"})
		r.Recycle = true // the dispatcher goroutine of the fd-based endpoint stays behind: do not reuse this worker
		return r
	}
	if job == "accept" {
		for backlog := 1; backlog <= 3; backlog++ {
			for conns := 0; conns <= backlog+3; conns++ {
				for _, op := range c07AcceptOps {
					engine.Tick()
					r.Execs++
					r.Nontrivial++
					r.Transitions += int64(2*conns + 2)
					if m := c07AcceptOverflow(backlog, conns, op); m != "" {
						r.Recycle = true
						if len(r.Violations) < 3 {
							r.Violations = append(r.Violations, engine.Violation{Property: "C07", Kind: "deadlock", Key: "accept-queue:" + keyOf(fmt.Errorf("%s", m[strings.Index(m, ": ")+2:])), Detail: m, Job: job, Replay: engine.MustJSON(map[string]interface{}{"job": job, "accept": []int{backlog, conns}, "op": op})})
						}
					}
				}
			}
		}
		r.Sample(map[string]interface{}{"accept": "backlog 1..3 x 0..backlog+3 handshakes completed by the raw peer x {close, shutdown, listen-again, accept-all-then-close, accept-one-then-close}: every call returns, a new listener works afterwards"})
		return r
	}
	seqs, what := c07Seqs(job, tier)
	if strings.HasPrefix(what, "harness:") {
		r.Err = what
		return r
	}
	for _, f := range c07RunSeqs(seqs, r, deadline) {
		r.Violations = append(r.Violations, engine.Violation{Property: "C07", Kind: strings.SplitN(f.key, ":", 2)[0], Key: f.key, Detail: f.msg + "\n  input:" + c07Describe(f.seq), Job: job, Replay: engine.MustJSON(map[string]interface{}{"job": job, "seq": f.seq})})
	}
	if len(seqs) > 0 {
		r.Sample(map[string]interface{}{"job": job, "what": what, "sequences": len(seqs), "example": c07Describe(seqs[len(seqs)/2])})
	}
	return r
}

func c07Replay(rp json.RawMessage) *engine.Violation {
	var p struct {
		Job    string
		Seq    []c07Frame
		Accept []int
		Op     string
	}
	if json.Unmarshal(rp, &p) != nil {
		return nil
	}
	if p.Job == "accept" && len(p.Accept) == 2 {
		if m := c07AcceptOverflow(p.Accept[0], p.Accept[1], p.Op); m != "" {
			return &engine.Violation{Property: "C07", Kind: "deadlock", Key: "accept-queue:" + keyOf(fmt.Errorf("%s", m[strings.Index(m, ": ")+2:])), Detail: m}
		}
		return nil
	}
	if p.Job == "fdbased" {
		if f := c07FdBased(); len(f) > 0 && !strings.HasPrefix(f[0].key, "harness") {
			return &engine.Violation{Property: "C07", Kind: "wedged", Key: f[0].key, Detail: f[0].msg}
		}
		return nil
	}
	r := &engine.Result{}
	fails := c07RunSeqs([][]c07Frame{p.Seq}, r, time.Now().Add(time.Minute))
	if len(fails) == 0 {
		if r.Err != "" {
			fmt.Fprintln(os.Stderr, r.Err)
		}
		return nil
	}
	return &engine.Violation{Property: "C07", Kind: "robustness", Key: fails[0].key, Detail: fails[0].msg}
}
