// Harness binary for the checks that run the real network stack in a deterministic world
// (virtual clock, scripted wire, quiescence barrier). Built by /verif/check with the
// overlay generated from /repo.
package main

import (
	"fmt"
	"os"
	"time"

	"verif/engine"
)

func main() {
	if len(os.Args) > 2 && os.Args[1] == "leak" {
		probeLeak(os.Args[2])
		return
	}
	if len(os.Args) > 2 && os.Args[1] == "leak2" {
		probeLeak2(os.Args[2])
		return
	}
	if len(os.Args) > 2 && os.Args[1] == "det" {
		probeDet(os.Args[2])
		return
	}
	if len(os.Args) > 2 && os.Args[1] == "rawtrace" {
		probeRawTrace(os.Args[2])
		return
	}
	if len(os.Args) > 2 && os.Args[1] == "trace" {
		probeTrace(os.Args[2])
		return
	}
	if len(os.Args) > 2 && os.Args[1] == "farrx" {
		var n uint64
		fmt.Sscan(os.Args[2], &n)
		t0 := time.Now()
		fmt.Println("result:", c14FarRx(n), time.Since(t0))
		return
	}
	if len(os.Args) > 2 && os.Args[1] == "far" {
		var n uint64
		fmt.Sscan(os.Args[2], &n)
		t0 := time.Now()
		fmt.Println("result:", c14FarRecover(n), time.Since(t0))
		return
	}
	if len(os.Args) > 1 && os.Args[1] == "fragwrap" {
		probeFragWrap()
		return
	}
	if len(os.Args) > 1 && os.Args[1] == "probe" {
		t0 := time.Now()
		probe()
		fmt.Println("probe wall", time.Since(t0))
		return
	}
	engine.Main()
}
