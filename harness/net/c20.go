package main

import (
	"bytes"
	"crypto/sha1"
	"encoding/base64"
	"encoding/binary"
	"encoding/json"
	"fmt"
	"os"
	"runtime"
	"sort"
	"strings"
	"sync"
	"sync/atomic"
	"time"

	"github.com/brewlin/net-protocol/pkg/waiter"
	tcpip "github.com/brewlin/net-protocol/protocol"
	"github.com/brewlin/net-protocol/protocol/application/http"
	"github.com/brewlin/net-protocol/protocol/application/websocket"
	"github.com/brewlin/net-protocol/protocol/network/ipv4"
	"github.com/brewlin/net-protocol/protocol/transport/tcp"
	tcpclient "github.com/brewlin/net-protocol/protocol/transport/tcp/client"

	"verif/engine"
	"verif/shim/vtime"
)

// C20: HTTP requests and WebSocket messages survive the round trip through the stack's own
// TCP. One real stack, loopback over the tapping wire port, the bundled server and the
// bundled clients (plus a raw RFC 6455 client for masked frames). The application layer
// blocks on real channels, so its goroutines run freely; the explorer only pumps frames
// and waits at the quiescence barrier. Exhaustive over the stated input product.

func init() {
	engine.Register(&engine.Check{
		ID:         "C20",
		Technique:  "exhaustive enumeration of the request / message input product through the real bundled HTTP and WebSocket code over the real stack in the deterministic world (frames pumped at a quiescence barrier; the pacing of application reads against segment arrival enumerated as environment choices), compared with what was sent and with an independent RFC 6455 frame codec and accept-key computation",
		Rule:       "HTTP: methods {GET,HEAD,POST,PUT} x 4 paths (3 registered, 1 not) x all subsets of a 4-header menu x bodies {empty, 1 byte, 1 KiB, largest that fits one segment, 7 bodies with line breaks / spaces at the front, in the middle, at the end}; sequences of <=3 requests on fresh connections; WebSocket: accept key for 8 client keys; every message length 0..130 and 65530..65540 plus {200 KiB, 300 KiB}, unmasked (bundled client) and masked with keys {00000000, ffffffff, 01020304, 80000001} (raw client), sequences of <=3 messages in both directions; pacing: for 2-message exchanges (single- and multi-segment, with and without server pushes) every vector over {at once, after 1 frame, after 2 frames, when idle} for the server's three reads x client reads {at once, when idle} x frames delivered {1, 2, all} per barrier x pipelined / lock-step client; distinct = distinct input tuple and pacing; all non-trivial",
		Assumes:    []string{"bodies and header values are in the grammar the bundled parser carries (no ': ' anywhere; header values without CRLF)", "a request fits one TCP segment (the HTTP layer reads a message with a single receive); MTU 65535 on the loopback wire"},
		Jobs:       c20Jobs,
		Run:        c20Run,
		Replay:     c20Replay,
		NeedRepro:  true,
		WorkerJobs: 4,
	})
}

// ---------- the world: one stack talking to itself ----------

type c20Call struct {
	Path, Method, Body string
	Headers            map[string]string
}

var (
	c20Once   sync.Once
	c20Mu     sync.Mutex
	c20Calls  []c20Call
	c20Reply  func(path string) string
	c20Status int // != 0: the handler reports this status (Response.Error) before it ends the response
	c20WSEcho int // number of messages the ws handler echoes before it waits for close
	c20WSGot  [][]byte
	c20WSPush [][]byte // messages the server pushes first
)

// Application pacing: the handler (before every ReadData) and the client goroutine (before
// every Recv) pass a gate. The explorer decides per gate whether the application gets to run
// at once (0), only after k more frames have been delivered (k > 0), or only when nothing
// else can move (-1): "the application is slow" is an environment answer like any other.
type c20Gate struct {
	mu      sync.Mutex
	idx     int
	policy  []int
	epoch   int64
	pending []*c20Waiter
}

type c20Waiter struct {
	ch   chan struct{}
	need int
	at   int64
}

// reset starts a new exchange: goroutines left over from an earlier exchange (a handler
// still waiting for its close frame) pass freely and do not consume this exchange's policy.
func (g *c20Gate) reset(policy []int) int64 {
	g.mu.Lock()
	defer g.mu.Unlock()
	g.epoch++
	g.idx, g.policy = 0, policy
	for _, w := range g.pending {
		close(w.ch)
	}
	g.pending = nil
	return g.epoch
}

func (g *c20Gate) current() int64 {
	g.mu.Lock()
	defer g.mu.Unlock()
	return g.epoch
}

func (g *c20Gate) pass(epoch int64) {
	g.mu.Lock()
	if epoch != g.epoch {
		g.mu.Unlock()
		return
	}
	i := g.idx
	g.idx++
	mode := 0
	if i < len(g.policy) {
		mode = g.policy[i]
	}
	if mode == 0 {
		g.mu.Unlock()
		return
	}
	w := &c20Waiter{ch: make(chan struct{}), need: mode, at: atomic.LoadInt64(&c20Delivered)}
	g.pending = append(g.pending, w)
	g.mu.Unlock()
	<-w.ch
}

// due releases the waiters whose condition holds (idle = nothing else can move).
func (g *c20Gate) due(idle bool) bool {
	g.mu.Lock()
	defer g.mu.Unlock()
	released := false
	keep := g.pending[:0]
	for _, w := range g.pending {
		if idle || (w.need > 0 && atomic.LoadInt64(&c20Delivered)-w.at >= int64(w.need)) {
			close(w.ch)
			released = true
		} else {
			keep = append(keep, w)
		}
	}
	g.pending = keep
	return released
}

var (
	c20Delivered int64
	c20SGate     c20Gate
	c20CGate     c20Gate
)

const c20Port = 8080

var c20HeaderMenu = [][2]string{{"X-Token", "abc123"}, {"Content-Type", "text/plain"}, {"X-Empty-Like", "-"}, {"Accept-Language", "de"}}

type c20World struct {
	w                *World
	n                *Node
	frames           int
	burst            int    // frames delivered between two barriers (1 = the application runs after every frame; 0 = all in flight)
	upgradeCoalesced bool   // the 101 response and a later server frame were delivered before the client could run
	tcpPayload       []byte // concatenated TCP payload server->client of the last exchange (status line check)
}

func c20RegisterHandlers(srv *http.Server) {
	c20Once.Do(func() {
		for _, p := range []string{"/a", "/b/c", "/echo"} {
			p := p
			srv.HandleFunc(p, func(r *http.Request, w *http.Response) {
				c20Mu.Lock()
				hs := map[string]string{}
				for _, h := range c20HeaderMenu {
					if v := r.GetHeader(h[0]); v != "" {
						hs[h[0]] = v
					}
				}
				c20Calls = append(c20Calls, c20Call{Path: p, Method: r.GetMethod(), Body: r.GetBody(), Headers: hs})
				reply := c20Reply(p)
				status := c20Status
				c20Mu.Unlock()
				if status != 0 {
					w.Error(status)
				}
				w.End(reply)
			})
		}
		srv.HandleFunc("/ws", func(r *http.Request, w *http.Response) {
			c, err := websocket.Upgrade(r, w)
			if err != nil {
				return
			}
			c20Mu.Lock()
			push := c20WSPush
			n := c20WSEcho
			c20Mu.Unlock()
			ep := c20SGate.current()
			for _, m := range push {
				c.SendData(m)
			}
			for i := 0; i < n; i++ {
				c20SGate.pass(ep)
				d, err := c.ReadData()
				if err != nil {
					return
				}
				c20Mu.Lock()
				c20WSGot = append(c20WSGot, append([]byte(nil), d...))
				c20Mu.Unlock()
				c.SendData(d)
			}
			c20SGate.pass(ep)
			c.ReadData() // wait for the close frame
		})
	})
}

func c20NewWorld() *c20World { return c20NewWorldMTU(65535) }

// c20NewWorldMTU: with an Ethernet-sized MTU a large message leaves in many segments and is
// still (partly) queued in the TCP sender when the application goes on to its next message.
func c20NewWorldMTU(mtu uint32) *c20World {
	w := NewWorld()
	ScriptRand(11, 22, 33, 44, 55, 66)
	c := &c20World{w: w, burst: 1}
	c.n = w.AddNode(NodeCfg{Name: "S", V4: []tcpip.Address{addrA4}, MTU: mtu})
	srv := http.NewHTTP("tap-unused", "10.0.0.0/24", "10.0.0.1", fmt.Sprint(c20Port))
	c20RegisterHandlers(srv)
	go srv.ListenAndServ()
	w.Settle()
	return c
}

// pump delivers every frame back to the same stack until done() or nothing moves any more.
func (c *c20World) pump(done func() bool) bool {
	for i := 0; i < 400000; i++ {
		c.w.Settle()
		if done() {
			return true
		}
		if c20SGate.due(false) || c20CGate.due(false) {
			continue
		}
		fl := c.w.InFlight()
		if len(fl) > 0 {
			n := c.burst
			if n <= 0 || n > len(fl) {
				n = len(fl)
			}
			saw101 := false
			for _, f := range fl[:n] {
				c.w.Take(f)
				c.frames++
				atomic.AddInt64(&c20Delivered, 1)
				if d, err := DecodeFrame(f); err == nil && d.TCP != nil && d.TCP.SrcPort == c20Port {
					c.tcpPayload = append(c.tcpPayload, d.TCP.Payload...)
					if saw101 && len(d.TCP.Payload) > 0 {
						c.upgradeCoalesced = true
					}
					if bytes.HasPrefix(d.TCP.Payload, []byte("HTTP/1.1 101")) {
						saw101 = true
					}
				}
				p := c.n.Ports[1]
				p.disp.DeliverNetworkPacket(p, f.SrcMAC, f.DstMAC, f.Proto, chunked(f.Data))
			}
			continue
		}
		if c20SGate.due(true) || c20CGate.due(true) {
			continue
		}
		if !vtime.FireNext() {
			c.w.Settle()
			return done()
		}
	}
	return done()
}

func (c *c20World) close() {
	c.w.Settle()
	c.n.S.RemoveAddress(1, addrA4)
	c.w.Settle()
}

type c20Fail struct{ key, msg string }

// ---------- HTTP ----------

type c20Req struct {
	Method  string
	Path    string
	Headers []int // indices into the header menu
	BodyLen int
	Idx     int `json:",omitempty"` // ordinal in the job (selects body fill and the handler's reply variant); kept for the replay
}

// bodies with line breaks at the front, in the middle and at the end (negative "lengths"): the
// bundled parser carries them as long as no ": " occurs
var c20SpecialBodies = []string{"\nsecond line", "\r", "\r\n\r\npayload", "first\r\nsecond", "tail\r\n", "\n", " leading space", "{\"a\": 1}", "key: value", "first: line\r\nsecond line", "no colon-space but a:colon"}

func c20Body(n int, seed int) string {
	if n < 0 {
		return c20SpecialBodies[(-n-1)%len(c20SpecialBodies)]
	}
	const alpha = "abcdefghijklmnopqrstuvwxyzABCDEFGHIJKLMNOPQRSTUVWXYZ0123456789 .,;-_/"
	b := make([]byte, n)
	for i := range b {
		b[i] = alpha[(i*7+seed)%len(alpha)]
	}
	return string(b)
}

func (c *c20World) doHTTP(q c20Req, idx int) *c20Fail {
	name := fmt.Sprintf("%s %s headers %v body %d bytes", q.Method, q.Path, q.Headers, q.BodyLen)
	if q.BodyLen < 0 {
		name = fmt.Sprintf("%s %s headers %v body %q", q.Method, q.Path, q.Headers, c20Body(q.BodyLen, 0))
	}
	body := c20Body(q.BodyLen, idx)
	wantReply := "reply-to-" + q.Path + "-" + fmt.Sprint(idx)
	switch idx % 7 {
	case 3:
		wantReply = "" // a handler may answer with an empty body
	case 5:
		wantReply = "two\r\nlines\r\n"
	case 6:
		wantReply = "{\"status\": \"ok\", \"path\": \"" + q.Path + "\"}" // ": " inside a body is not a header
	}
	wantStatus := "200 OK"
	c20Mu.Lock()
	c20Calls = nil
	c20Reply = func(p string) string { return wantReply }
	c20Status = 0
	if idx%7 == 2 { // the handler answers with a status of its own
		c20Status = 404
		wantStatus = "404 Not Found"
	}
	c20Mu.Unlock()
	c.tcpPayload = nil
	var result string
	var rerr error
	fin := make(chan struct{})
	go func() {
		defer close(fin)
		defer func() {
			if e := recover(); e != nil {
				rerr = fmt.Errorf("client panicked: %v", e)
			}
		}()
		cl, err := http.NewClient(fmt.Sprintf("http://10.0.0.1:%d%s", c20Port, q.Path))
		if err != nil {
			rerr = err
			return
		}
		cl.SetMethod(q.Method)
		hs := map[string]string{}
		for _, h := range q.Headers {
			hs[c20HeaderMenu[h][0]] = c20HeaderMenu[h][1]
		}
		cl.SetHeaders(hs)
		cl.SetData(body)
		result, rerr = cl.GetResult()
	}()
	finished := func() bool {
		select {
		case <-fin:
			return true
		default:
			return false
		}
	}
	if !c.pump(finished) {
		return &c20Fail{"http-stuck", name + ": the client never got an answer (world idle)"}
	}
	c.pump(func() bool { return false }) // let the close exchange finish
	if rerr != nil {
		return &c20Fail{"http-client-error", name + ": client error: " + rerr.Error()}
	}
	c20Mu.Lock()
	calls := append([]c20Call(nil), c20Calls...)
	c20Mu.Unlock()
	registered := q.Path != "/nope"
	if !registered {
		if len(calls) != 0 {
			return &c20Fail{"http-unregistered-invoked", name + fmt.Sprintf(": nobody registered the path, yet handler %s was invoked", calls[0].Path)}
		}
		return nil
	}
	if len(calls) != 1 {
		return &c20Fail{"http-handler-count", name + fmt.Sprintf(": the handler was invoked %d times, want exactly once", len(calls))}
	}
	k := calls[0]
	if k.Path != q.Path || k.Method != q.Method {
		return &c20Fail{"http-method-path", name + fmt.Sprintf(": handler of %s saw method %q", k.Path, k.Method)}
	}
	for _, h := range q.Headers {
		if k.Headers[c20HeaderMenu[h][0]] != c20HeaderMenu[h][1] {
			return &c20Fail{"http-header", name + fmt.Sprintf(": header %s reached the handler as %q, sent %q", c20HeaderMenu[h][0], k.Headers[c20HeaderMenu[h][0]], c20HeaderMenu[h][1])}
		}
	}
	if len(k.Headers) != len(q.Headers) {
		return &c20Fail{"http-header-invented", name + fmt.Sprintf(": handler saw menu headers %v, sent indices %v", k.Headers, q.Headers)}
	}
	if k.Body != body {
		return &c20Fail{"http-body", name + fmt.Sprintf(": body reached the handler as %q, sent %q", clipS(k.Body), clipS(body))}
	}
	if result != wantReply {
		return &c20Fail{"http-result", name + fmt.Sprintf(": client result is %q, the handler produced %q", clipS(result), wantReply)}
	}
	if !bytes.HasPrefix(c.tcpPayload, []byte("HTTP/1.1 "+wantStatus+"\r\n")) {
		l := c.tcpPayload
		if len(l) > 40 {
			l = l[:40]
		}
		key := "http-status-line"
		if wantStatus != "200 OK" {
			key = "http-handler-status-lost"
		}
		return &c20Fail{key, name + fmt.Sprintf(": status line on the wire is %q, the handler produced %s", l, wantStatus)}
	}
	return nil
}

func clipS(s string) string {
	if len(s) > 48 {
		return s[:24] + "..." + s[len(s)-16:] + fmt.Sprintf(" (%d bytes)", len(s))
	}
	return s
}

// ---------- WebSocket ----------

func c20AcceptKey(key string) string {
	h := sha1.New()
	h.Write([]byte(key))
	h.Write([]byte("258EAFA5-E914-47DA-95CA-C5AB0DC85B11"))
	return base64.StdEncoding.EncodeToString(h.Sum(nil))
}

// wsFrame encodes one text frame per RFC 6455 (independent of the repository).
func wsFrame(payload []byte, masked bool, key [4]byte, opcode byte) []byte {
	b := []byte{0x80 | opcode}
	m := byte(0)
	if masked {
		m = 0x80
	}
	n := len(payload)
	switch {
	case n <= 125:
		b = append(b, m|byte(n))
	case n <= 65535:
		b = append(b, m|126, byte(n>>8), byte(n))
	default:
		var l [8]byte
		binary.BigEndian.PutUint64(l[:], uint64(n))
		b = append(b, m|127)
		b = append(b, l[:]...)
	}
	if masked {
		b = append(b, key[:]...)
		p := make([]byte, n)
		for i := range payload {
			p[i] = payload[i] ^ key[i%4]
		}
		return append(b, p...)
	}
	return append(b, payload...)
}

// wsParse decodes one unmasked server frame from buf; returns payload and bytes consumed (0 = incomplete).
func wsParse(buf []byte) ([]byte, int, error) {
	if len(buf) < 2 {
		return nil, 0, nil
	}
	if buf[0] != 0x81 {
		return nil, 0, fmt.Errorf("first frame byte %#02x, want 0x81 (FIN + text)", buf[0])
	}
	if buf[1]&0x80 != 0 {
		return nil, 0, fmt.Errorf("server frame is masked")
	}
	n := int(buf[1] & 0x7f)
	off := 2
	switch n {
	case 126:
		if len(buf) < 4 {
			return nil, 0, nil
		}
		n = int(binary.BigEndian.Uint16(buf[2:]))
		off = 4
		if n <= 125 {
			return nil, 0, fmt.Errorf("length %d encoded in the 16-bit form", n)
		}
	case 127:
		if len(buf) < 10 {
			return nil, 0, nil
		}
		n = int(binary.BigEndian.Uint64(buf[2:]))
		off = 10
		if n <= 65535 {
			return nil, 0, fmt.Errorf("length %d encoded in the 64-bit form", n)
		}
	}
	if len(buf) < off+n {
		return nil, 0, nil
	}
	return buf[off : off+n], off + n, nil
}

func c20Msg(n, seed int) []byte {
	b := make([]byte, n)
	for i := range b {
		b[i] = byte('a' + (i*11+seed)%26)
	}
	return b
}

type c20WS struct {
	Lens   []int  // messages client -> server (echoed back)
	Push   []int  // messages server -> client first
	Masked bool   // raw client with masking
	Key    uint32 // masking key
	WSKey  string // Sec-WebSocket-Key (raw client)
	Mask   []bool `json:",omitempty"` // raw client: message k is masked iff Mask[k] (key Key+k); nil = all masked
	// pacing (see c20Gate)
	Pipeline bool  `json:",omitempty"` // the client sends all messages before it reads the first echo
	Burst    int   `json:",omitempty"` // 0 = one frame per barrier, k = k frames, -1 = everything in flight
	SGate    []int `json:",omitempty"`
	CGate    []int `json:",omitempty"`
}

func (c *c20World) doWS(q c20WS) *c20Fail {
	name := fmt.Sprintf("websocket lens %v push %v masked=%v key %08x", q.Lens, q.Push, q.Masked, q.Key)
	if q.Pipeline || q.Burst != 0 || q.SGate != nil || q.CGate != nil {
		name += fmt.Sprintf(" pipelined=%v burst=%d server-gates=%v client-gates=%v", q.Pipeline, q.Burst, q.SGate, q.CGate)
	}
	c20SGate.reset(q.SGate)
	cep := c20CGate.reset(q.CGate)
	c.upgradeCoalesced = false
	c.burst = 1
	if q.Burst > 0 {
		c.burst = q.Burst
	} else if q.Burst < 0 {
		c.burst = 0
	}
	defer func() {
		c.burst = 1
		c20SGate.reset(nil)
		c20CGate.reset(nil)
	}()
	var msgs, pushes [][]byte
	for i, l := range q.Lens {
		msgs = append(msgs, c20Msg(l, i))
	}
	for i, l := range q.Push {
		pushes = append(pushes, c20Msg(l, 100+i))
	}
	c20Mu.Lock()
	c20WSGot, c20WSEcho, c20WSPush = nil, len(msgs), pushes
	c20Mu.Unlock()
	var fail *c20Fail
	fin := make(chan struct{})
	go func() {
		defer close(fin)
		defer func() {
			if e := recover(); e != nil {
				fail = &c20Fail{"ws-client-panic", name + fmt.Sprintf(": client panicked: %v", e)}
			}
		}()
		if !q.Masked {
			cl, err := websocket.NewClient(fmt.Sprintf("http://10.0.0.1:%d/ws", c20Port))
			if err != nil {
				fail = &c20Fail{"ws-connect", name + ": " + err.Error()}
				return
			}
			if err := cl.Upgrade(); err != nil {
				fail = &c20Fail{"ws-upgrade", name + ": upgrade failed: " + err.Error()}
				return
			}
			for i, p := range pushes {
				c20CGate.pass(cep)
				got, err := cl.Recv()
				if err != nil || got != string(p) {
					fail = &c20Fail{"ws-push", name + fmt.Sprintf(": pushed message %d (%d bytes) received as %q (%v)", i, len(p), clipS(got), err)}
					return
				}
			}
			if q.Pipeline {
				for _, m := range msgs {
					if err := cl.Push(string(m)); err != nil {
						fail = &c20Fail{"ws-send", name + ": " + err.Error()}
						return
					}
				}
			}
			for i, m := range msgs {
				if !q.Pipeline {
					if err := cl.Push(string(m)); err != nil {
						fail = &c20Fail{"ws-send", name + ": " + err.Error()}
						return
					}
				}
				c20CGate.pass(cep)
				got, err := cl.Recv()
				if err != nil || got != string(m) {
					fail = &c20Fail{"ws-echo", name + fmt.Sprintf(": message %d (%d bytes) came back as %q (%v)", i, len(m), clipS(got), err)}
					return
				}
			}
			cl.Close()
			return
		}
		// raw RFC 6455 client over the stack's TCP client
		t := tcpclient.NewClient("10.0.0.1", c20Port)
		if err := t.Connect(); err != nil {
			fail = &c20Fail{"ws-connect", name + ": " + err.Error()}
			return
		}
		req := "GET /ws HTTP/1.1\r\nHost: 10.0.0.1\r\nUpgrade: websocket\r\nConnection: Upgrade\r\nSec-WebSocket-Key: " + q.WSKey + "\r\nSec-WebSocket-Version: 13\r\n\r\n"
		t.Write([]byte(req))
		var buf []byte
		readMore := func() bool {
			for {
				b, err := t.Read()
				if len(b) == 0 && err == error(tcpip.ErrWouldBlock) {
					continue // woken by a notification whose data an earlier read already took
				}
				if err != nil && len(b) == 0 {
					return false
				}
				buf = append(buf, b...)
				return true
			}
		}
		for !bytes.Contains(buf, []byte("\r\n\r\n")) {
			if !readMore() {
				fail = &c20Fail{"ws-upgrade", name + ": connection ended before the upgrade response was complete"}
				return
			}
		}
		i := bytes.Index(buf, []byte("\r\n\r\n"))
		head := string(buf[:i])
		buf = buf[i+4:]
		if !strings.HasPrefix(head, "HTTP/1.1 101") {
			fail = &c20Fail{"ws-upgrade-status", name + fmt.Sprintf(": upgrade answered with %q", clipS(head))}
			return
		}
		acc := ""
		for _, l := range strings.Split(head, "\r\n") {
			if strings.HasPrefix(l, "Sec-WebSocket-Accept: ") {
				acc = strings.TrimPrefix(l, "Sec-WebSocket-Accept: ")
			}
		}
		if acc != c20AcceptKey(q.WSKey) {
			fail = &c20Fail{"ws-accept-key", name + fmt.Sprintf(": Sec-WebSocket-Accept is %q, RFC 6455 value for key %q is %q", acc, q.WSKey, c20AcceptKey(q.WSKey))}
			return
		}
		next := func() ([]byte, *c20Fail) {
			for {
				p, n, err := wsParse(buf)
				if err != nil {
					return nil, &c20Fail{"ws-frame", name + ": server frame does not decode: " + err.Error()}
				}
				if n > 0 {
					buf = buf[n:]
					return p, nil
				}
				if !readMore() {
					return nil, &c20Fail{"ws-truncated", name + ": connection ended inside a frame"}
				}
			}
		}
		for k, p := range pushes {
			c20CGate.pass(cep)
			got, f := next()
			if f != nil {
				fail = f
				return
			}
			if !bytes.Equal(got, p) {
				fail = &c20Fail{"ws-push", name + fmt.Sprintf(": pushed message %d (%d bytes) received as %q", k, len(p), clipS(string(got)))}
				return
			}
		}
		var key [4]byte
		binary.BigEndian.PutUint32(key[:], q.Key)
		frame := func(k int, m []byte) []byte {
			if q.Mask == nil {
				return wsFrame(m, true, key, 1)
			}
			var kk [4]byte
			binary.BigEndian.PutUint32(kk[:], q.Key+uint32(k)*0x01010101)
			return wsFrame(m, q.Mask[k], kk, 1)
		}
		if q.Pipeline {
			for k, m := range msgs {
				t.Write(frame(k, m))
			}
		}
		for k, m := range msgs {
			if !q.Pipeline {
				t.Write(frame(k, m))
			}
			c20CGate.pass(cep)
			got, f := next()
			if f != nil {
				fail = f
				return
			}
			if !bytes.Equal(got, m) {
				fail = &c20Fail{"ws-echo", name + fmt.Sprintf(": masked message %d (%d bytes) came back as %q", k, len(m), clipS(string(got)))}
				return
			}
		}
		t.Write(wsFrame(nil, true, key, 8))
		t.Close()
	}()
	finished := func() bool {
		select {
		case <-fin:
			return true
		default:
			return false
		}
	}
	swallowed := func(f *c20Fail) *c20Fail {
		// finding D17: the bundled client takes everything its single receive returns as the
		// upgrade response; frames the server pushed right behind it are gone
		if !q.Masked && len(q.Push) > 0 && c.upgradeCoalesced {
			return &c20Fail{"push-swallowed-by-upgrade-response", f.msg + " [the 101 response and the first pushed frame reached the client before it ran: its single receive for the response consumed the frame too]"}
		}
		return f
	}
	if !c.pump(finished) {
		if os.Getenv("C20_DEBUG") != "" && !(!q.Masked && len(q.Push) > 0 && c.upgradeCoalesced) {
			buf := make([]byte, 1<<20)
			n := runtime.Stack(buf, true)
			fmt.Fprintf(os.Stderr, "C20 STUCK %s\ninflight=%d pendingTimers=%v\n%s\n", name, len(c.w.InFlight()), vtime.Pending(), buf[:n])
		}
		return swallowed(&c20Fail{"ws-stuck", name + ": the exchange never completed (world idle)"})
	}
	c.pump(func() bool { return false })
	if fail != nil {
		return swallowed(fail)
	}
	c20Mu.Lock()
	got := c20WSGot
	c20Mu.Unlock()
	if len(got) != len(msgs) {
		return &c20Fail{"ws-server-count", name + fmt.Sprintf(": the server received %d messages, %d were sent", len(got), len(msgs))}
	}
	for i := range msgs {
		if !bytes.Equal(got[i], msgs[i]) {
			return &c20Fail{"ws-server-bytes", name + fmt.Sprintf(": message %d (%d bytes) reached the server as %q", i, len(msgs[i]), clipS(string(got[i])))}
		}
	}
	return nil
}

// ---------- accept timing ----------

type c20AcceptCase struct {
	Late bool // the request is queued before Accept and the connection's protocol goroutine runs before the application creates its server socket
	Len  int
}

var c20AcceptPort = 8100

func (c *c20World) doAccept(q c20AcceptCase) *c20Fail {
	name := fmt.Sprintf("server socket created after the request arrived=%v, request of %d bytes", q.Late, q.Len)
	c20AcceptPort++
	port := c20AcceptPort
	var wq waiter.Queue
	lep, e := c.n.S.NewEndpoint(tcp.ProtocolNumber, ipv4.ProtocolNumber, &wq)
	if e != nil {
		return &c20Fail{"harness", e.String()}
	}
	defer lep.Close()
	if e := lep.Bind(tcpip.FullAddress{Port: uint16(port)}, nil); e != nil {
		return &c20Fail{"harness", e.String()}
	}
	if e := lep.Listen(4); e != nil {
		return &c20Fail{"harness", e.String()}
	}
	req := []byte(c20Body(q.Len, port))
	t := tcpclient.NewClient("10.0.0.1", port)
	connected := make(chan error, 1)
	go func() { connected <- t.Connect() }()
	var cerr error
	got := false
	c.pump(func() bool {
		select {
		case cerr = <-connected:
			got = true
		default:
		}
		return got
	})
	if !got || cerr != nil {
		return &c20Fail{"accept-connect", name + fmt.Sprintf(": client could not connect (%v)", cerr)}
	}
	idle := func() { c.pump(func() bool { return false }) }
	idle()
	accept := func() (*http.Connection, *c20Fail) {
		n, nq, err := lep.Accept()
		if err != nil {
			return nil, &c20Fail{"accept-none", name + ": the established connection is not in the accept queue: " + err.String()}
		}
		if q.Late {
			// Accept starts the connection's protocol goroutine, which now processes what was
			// queued and notifies the (still empty) wait queue; the bundled server creates its
			// socket in yet another goroutine, so either may come first - here: this one
			c.w.Settle()
		}
		return http.NewCon(http.NewServerSocket(n, nq)), nil
	}
	var con *http.Connection
	var f *c20Fail
	if q.Late {
		t.Write(req)
		idle() // the segment is delivered, queued at the accepted endpoint and acknowledged
		if con, f = accept(); f != nil {
			return f
		}
	} else {
		if con, f = accept(); f != nil {
			return f
		}
	}
	defer con.Close()
	var data []byte
	fin := make(chan struct{})
	go func() {
		defer close(fin)
		data, _ = con.Read()
	}()
	if !q.Late {
		c.w.Settle()
		t.Write(req)
	}
	done := c.pump(func() bool {
		select {
		case <-fin:
			return true
		default:
			return false
		}
	})
	t.Close()
	idle()
	if !done {
		return &c20Fail{"request-never-read", name + ": the request is queued at the connection but the server socket's Read never returns (world idle): the data arrived before the socket registered for events and nothing tells it"}
	}
	if !bytes.Equal(data, req) {
		return &c20Fail{"accept-bytes", name + fmt.Sprintf(": server read %q, client sent %q", clipS(string(data)), clipS(string(req)))}
	}
	return nil
}

// ---------- jobs ----------

func c20Jobs(tier string) []string {
	jobs := []string{"http-seq", "http-accept", "ws-key", "ws-seq"}
	for _, m := range []string{"GET", "HEAD", "POST", "PUT"} {
		jobs = append(jobs, "http:"+m)
	}
	for i := 0; i < 4; i++ {
		jobs = append(jobs, fmt.Sprintf("ws-len:u:%d/4", i), fmt.Sprintf("ws-len:m:%d/4", i))
	}
	jobs = append(jobs, "ws-big", "ws-mtu1500:0/2", "ws-mtu1500:1/2")
	for i := 0; i < 16; i++ {
		jobs = append(jobs, fmt.Sprintf("ws-sched:%d/16", i))
	}
	return jobs
}

func c20Run(job, tier string, deadline time.Time) *engine.Result {
	r := &engine.Result{Exhaustive: true}
	defer func() {
		r.Recycle = true // the application layer leaves blocked goroutines behind
		if r.States == 0 {
			r.States = r.Execs + 1
		}
		r.Outcomes = append(r.Outcomes, engine.Hash(job, len(r.Violations)))
		_ = runtime.NumGoroutine
	}()
	mtu := uint32(65535)
	c := c20NewWorld()
	defer func() { c.close() }()
	knownSeen := 0
	report := func(f *c20Fail, replay interface{}) bool {
		r.Execs++
		r.Transitions++
		r.Nontrivial++
		if f != nil && engine.IsKnown("C20", f.key) {
			if knownSeen < 1 {
				r.Violations = append(r.Violations, engine.Violation{Property: "C20", Kind: "application", Key: f.key, Detail: f.msg, Job: job, Replay: engine.MustJSON(replay)})
			}
			knownSeen++
			r.AddExtra("executions_hitting_a_known_finding", 1)
			// the connection is stuck behind the swallowed frame: continue on a fresh world
			func() { defer func() { recover() }(); c.close() }()
			c = c20NewWorldMTU(mtu)
			return false
		}
		if f != nil && len(r.Violations) < 4 {
			r.Violations = append(r.Violations, engine.Violation{Property: "C20", Kind: "application", Key: f.key, Detail: f.msg, Job: job, Replay: engine.MustJSON(replay)})
		}
		return f != nil
	}
	parts := strings.Split(job, ":")
	maxBody := 60000
	bodies := []int{0, 1, 1024, maxBody}
	if tier != "thorough" {
		bodies = []int{0, 1, 1024}
	}
	for k := range c20SpecialBodies {
		bodies = append(bodies, -(k + 1))
	}
	switch parts[0] {
	case "http":
		idx := 0
		for _, path := range []string{"/a", "/b/c", "/echo", "/nope"} {
			for mask := 0; mask < 16; mask++ {
				var hs []int
				for b := 0; b < 4; b++ {
					if mask&(1<<uint(b)) != 0 {
						hs = append(hs, b)
					}
				}
				for _, bl := range bodies {
					if time.Now().After(deadline) {
						r.Exhaustive = false
						return r
					}
					idx++
					q := c20Req{parts[1], path, hs, bl, idx}
					if report(c.doHTTP(q, idx), map[string]interface{}{"http": []c20Req{q}}) {
						return r
					}
				}
			}
		}
		r.Sample(map[string]interface{}{"method": parts[1], "paths": 4, "header_subsets": 16, "bodies": bodies})
	case "http-accept":
		// the server application accepts and registers for events before / after the request
		// has arrived (the bundled accept loop does the same two steps in a goroutine of its own)
		for _, late := range []bool{false, true} {
			for _, n := range []int{1, 100, 1400} {
				q := c20AcceptCase{Late: late, Len: n}
				if report(c.doAccept(q), map[string]interface{}{"accept": q}) {
					return r
				}
			}
		}
		r.Sample(map[string]interface{}{"accept_timing": "server socket created {before, after} the request segment was processed x request sizes {1,100,1400}"})
	case "http-seq":
		reqs := []c20Req{{"GET", "/a", nil, 0, 0}, {"POST", "/echo", []int{0}, 10, 0}, {"PUT", "/nope", nil, 3, 0}, {"HEAD", "/b/c", []int{1, 2}, 0, 0}}
		idx := 1000
		for a := range reqs {
			for b := range reqs {
				for d := range reqs {
					trio := []c20Req{reqs[a], reqs[b], reqs[d]}
					for k := range trio {
						trio[k].Idx = idx + 1 + k
					}
					for _, q := range trio {
						idx++
						if report(c.doHTTP(q, idx), map[string]interface{}{"http": trio}) {
							return r
						}
					}
				}
			}
		}
		r.Sample(map[string]interface{}{"sequences": "all 64 sequences of 3 requests over a 4-request menu, fresh connection each"})
	case "ws-key":
		for i, k := range []string{"dGhlIHNhbXBsZSBub25jZQ==", "AAAAAAAAAAAAAAAAAAAAAA==", "/////////////////////w==", "x3JJHMbDL1EzLkh9GBhXDw==", "a", "0123456789abcdefghijklmn", "+/+/+/+/+/+/+/+/+/+/+w==", "Zm9vYmFyYmF6cXV4MTIzNA=="} {
			q := c20WS{Lens: []int{5}, Masked: true, Key: uint32(i), WSKey: k}
			if report(c.doWS(q), map[string]interface{}{"ws": q}) {
				return r
			}
		}
		r.Sample(map[string]interface{}{"accept_keys": 8})
	case "ws-len":
		var i, n int
		fmt.Sscanf(parts[2], "%d/%d", &i, &n)
		var lens []int
		for l := 0; l <= 130; l++ {
			lens = append(lens, l)
		}
		for l := 65530; l <= 65540; l++ {
			lens = append(lens, l)
		}
		keys := []uint32{0, 0xffffffff, 0x01020304, 0x80000001}
		k := 0
		for _, l := range lens {
			k++
			if k%n != i {
				continue
			}
			if time.Now().After(deadline) {
				r.Exhaustive = false
				return r
			}
			if parts[1] == "u" {
				q := c20WS{Lens: []int{l}}
				if report(c.doWS(q), map[string]interface{}{"ws": q}) {
					return r
				}
			} else {
				for _, key := range keys {
					if l > 200 && key != 0x01020304 && tier != "thorough" {
						continue
					}
					q := c20WS{Lens: []int{l}, Masked: true, Key: key, WSKey: "dGhlIHNhbXBsZSBub25jZQ=="}
					if report(c.doWS(q), map[string]interface{}{"ws": q}) {
						return r
					}
				}
			}
		}
		r.Sample(map[string]interface{}{"lengths": "0..130 and 65530..65540", "masked": parts[1] == "m", "keys": keys})
	case "ws-big":
		for _, l := range []int{200 * 1024, 300 * 1024} {
			for _, masked := range []bool{false, true} {
				q := c20WS{Lens: []int{l}, Masked: masked, Key: 0x01020304, WSKey: "dGhlIHNhbXBsZSBub25jZQ=="}
				if report(c.doWS(q), map[string]interface{}{"ws": q}) {
					return r
				}
			}
		}
		// several large messages produced back to back (more than the send buffer holds at once)
		big5 := []int{300 * 1024, 300 * 1024, 300 * 1024, 300 * 1024, 300 * 1024}
		for _, q := range []c20WS{
			{Lens: []int{5}, Push: big5, Masked: true, Key: 0x01020304, WSKey: "dGhlIHNhbXBsZSBub25jZQ=="}, // the server produces them
			{Lens: big5, Pipeline: true, Masked: false, WSKey: "dGhlIHNhbXBsZSBub25jZQ=="},                 // the bundled client produces them
			{Lens: big5, Pipeline: true, Masked: true, Key: 0x01020304, WSKey: "dGhlIHNhbXBsZSBub25jZQ=="},
		} {
			if report(c.doWS(q), map[string]interface{}{"ws": q}) {
				return r
			}
		}
		r.Sample(map[string]interface{}{"lengths": []int{200 * 1024, 300 * 1024}})
	case "ws-mtu1500":
		// Ethernet-sized segments: a 20000-byte message is 14 segments, more than the initial
		// congestion window, so its tail is still queued when the next message is produced
		var i, n int
		fmt.Sscanf(parts[1], "%d/%d", &i, &n)
		func() { defer func() { recover() }(); c.close() }()
		mtu = 1500
		c = c20NewWorldMTU(mtu)
		k := 0
		for _, lens := range [][]int{{20000, 7}, {20000, 20000}, {7, 20000}, {30000, 126, 5}} {
			for _, push := range [][]int{nil, {20000, 20000}, {20000, 7}} {
				for _, masked := range []bool{false, true} {
					for _, pipe := range []bool{false, true} {
						for _, burst := range []int{0, -1} {
							k++
							if k%n != i {
								continue
							}
							q := c20WS{Lens: lens, Push: push, Masked: masked, Key: 0x01020304, WSKey: "dGhlIHNhbXBsZSBub25jZQ==", Pipeline: pipe, Burst: burst}
							if report(c.doWS(q), map[string]interface{}{"ws": q, "mtu": 1500}) {
								return r
							}
						}
					}
				}
			}
		}
		r.Sample(map[string]interface{}{"mtu": 1500, "messages": "20000/30000-byte messages followed by shorter or equal ones, pushes and echoes, pipelined and lock-step"})
	case "ws-sched":
		// pacing of the two applications against the arrival of segments: every gate vector
		// over {run at once, after 1 frame, after 2 frames, when idle} for the server's three
		// reads, client gates {none, all idle}, frames delivered 1 / 2 / all at a time,
		// pipelined or lock-step client, single- and multi-segment messages
		var i, n int
		fmt.Sscanf(parts[1], "%d/%d", &i, &n)
		lenSets := [][]int{{300, 7}, {70000, 5}}
		if tier == "thorough" {
			lenSets = append(lenSets, []int{200 * 1024, 66000}, []int{0, 126})
		}
		modes := []int{0, 1, 2, -1}
		k := 0
		for _, lens := range lenSets {
			for _, masked := range []bool{false, true} {
				for _, pipe := range []bool{false, true} {
					for _, burst := range []int{0, 2, -1} {
						for _, cg := range [][]int{nil, {-1, -1, -1, -1}} {
							for _, push := range [][]int{nil, {7, 130}} {
								for g0 := range modes {
									for g1 := range modes {
										for g2 := range modes {
											k++
											if k%n != i {
												continue
											}
											if time.Now().After(deadline) {
												r.Exhaustive = false
												return r
											}
											q := c20WS{Lens: lens, Push: push, Masked: masked, Key: 0x01020304, WSKey: "dGhlIHNhbXBsZSBub25jZQ==", Pipeline: pipe, Burst: burst, SGate: []int{modes[g0], modes[g1], modes[g2]}, CGate: cg}
											if report(c.doWS(q), map[string]interface{}{"ws": q}) {
												return r
											}
										}
									}
								}
							}
						}
					}
				}
			}
		}
		r.Sample(map[string]interface{}{"pacing": "server gates {0,1,2,idle}^3 x client gates {none, idle} x burst {1,2,all} x pipelined {no,yes} x masked {no,yes} x pushes {none, 2}", "message_lengths": lenSets})
	case "ws-seq":
		menu := []int{0, 7, 126, 300}
		for a := range menu {
			for b := range menu {
				for d := range menu {
					for _, masked := range []bool{false, true} {
						q := c20WS{Lens: []int{menu[a], menu[b], menu[d]}, Push: []int{menu[d], menu[a]}, Masked: masked, Key: 0x80000001, WSKey: "dGhlIHNhbXBsZSBub25jZQ=="}
						if report(c.doWS(q), map[string]interface{}{"ws": q}) {
							return r
						}
					}
				}
			}
		}
		// masked and unmasked messages mixed on one connection, every pattern, keys differing per message
		for pat := 0; pat < 8; pat++ {
			for _, pipe := range []bool{false, true} {
				q := c20WS{Lens: []int{7, 126, 300}, Masked: true, Mask: []bool{pat&1 != 0, pat&2 != 0, pat&4 != 0}, Key: 0x37fa213d, WSKey: "dGhlIHNhbXBsZSBub25jZQ==", Pipeline: pipe}
				if report(c.doWS(q), map[string]interface{}{"ws": q}) {
					return r
				}
			}
		}
		r.Sample(map[string]interface{}{"sequences": "3 client messages + 2 server pushes over lengths {0,7,126,300}, masked and unmasked; every masked/unmasked pattern of 3 messages on one connection"})
	}
	return r
}

func c20Replay(rp json.RawMessage) *engine.Violation {
	var p struct {
		HTTP   []c20Req       `json:"http"`
		WS     *c20WS         `json:"ws"`
		Accept *c20AcceptCase `json:"accept"`
		MTU    uint32         `json:"mtu"`
	}
	if json.Unmarshal(rp, &p) != nil {
		return nil
	}
	c := c20NewWorld()
	if p.MTU != 0 {
		c.close()
		c = c20NewWorldMTU(p.MTU)
	}
	defer func() { c.close() }()
	var f *c20Fail
	for i, q := range p.HTTP {
		ix := 5000 + i
		if q.Idx != 0 {
			ix = q.Idx
		}
		if f = c.doHTTP(q, ix); f != nil {
			break
		}
	}
	if p.WS != nil {
		f = c.doWS(*p.WS)
	}
	if p.Accept != nil {
		f = c.doAccept(*p.Accept)
	}
	if f == nil {
		return nil
	}
	return &engine.Violation{Property: "C20", Kind: "application", Key: f.key, Detail: f.msg}
}

var _ = sort.Strings
