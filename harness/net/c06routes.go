package main

import (
	"fmt"

	tcpip "github.com/brewlin/net-protocol/protocol"
	"github.com/brewlin/net-protocol/protocol/network/ipv4"
	"github.com/brewlin/net-protocol/protocol/transport/tcp"
	"github.com/brewlin/net-protocol/protocol/transport/udp"
)

// C06, route and source selection with two interfaces: NIC 1 owns 10.0.0.1, NIC 2 owns
// 10.0.1.1. For every order of a small set of route entries, every kind of socket (unbound,
// bound to either address, bound to either NIC; UDP datagram and TCP SYN) and every
// destination, the packet leaves through the first route entry that matches the destination,
// the socket's NIC and an interface that owns the socket's address; its source address is
// the socket's address, or the primary address of the interface it leaves through; when no
// entry qualifies nothing is sent.

type c06RouteEntry struct {
	dst, mask tcpip.Address
	nic       tcpip.NICID
}

var c06Own = map[tcpip.NICID]tcpip.Address{1: "\x0a\x00\x00\x01", 2: "\x0a\x00\x01\x01"}

var c06RouteMenu = []c06RouteEntry{
	{"\x0a\x00\x01\x00", "\xff\xff\xff\x00", 2},
	{"\x0a\x00\x00\x00", "\xff\xff\xff\x00", 1},
	{"\x00\x00\x00\x00", "\x00\x00\x00\x00", 1},
	{"\x00\x00\x00\x00", "\x00\x00\x00\x00", 2},
}

type c06SockKind struct {
	name string
	tcp  bool
	nic  tcpip.NICID
	addr tcpip.Address
}

func c06SockKinds() []c06SockKind {
	var ks []c06SockKind
	for _, t := range []bool{false, true} {
		p := "udp"
		if t {
			p = "tcp"
		}
		ks = append(ks, c06SockKind{p + " unbound", t, 0, ""},
			c06SockKind{p + " bound to 10.0.0.1", t, 0, c06Own[1]}, c06SockKind{p + " bound to 10.0.1.1", t, 0, c06Own[2]},
			c06SockKind{p + " bound to NIC 2 and 10.0.0.1", t, 2, c06Own[1]})
		if !t {
			// (a TCP Bind with a NIC but no address does not tie the socket to the NIC: the
			// property says nothing about that, so it is not part of the alphabet)
			ks = append(ks, c06SockKind{p + " bound to NIC 1", t, 1, ""}, c06SockKind{p + " bound to NIC 2", t, 2, ""})
		}
	}
	return ks
}

func c06Matches(e c06RouteEntry, d tcpip.Address) bool {
	for i := range d {
		if d[i]&e.mask[i] != e.dst[i] {
			return false
		}
	}
	return true
}

// c06RouteCase: one route table (indices into the menu), one socket kind, one destination.
func c06RouteCase(table []int, k c06SockKind, dst tcpip.Address) string {
	w := NewWorld()
	mon := NewMonitor()
	n := w.AddNode(NodeCfg{Name: "S", V4: []tcpip.Address{c06Own[1]}, MTU: 1500})
	w.AddNIC(n, 2, NodeCfg{V4: []tcpip.Address{c06Own[2]}, MTU: 1500})
	var rt []tcpip.Route
	for _, i := range table {
		e := c06RouteMenu[i]
		rt = append(rt, tcpip.Route{Destination: e.dst, Mask: tcpip.AddressMask(e.mask), NIC: e.nic})
	}
	n.S.SetRouteTable(rt)
	defer func() {
		n.S.RemoveAddress(1, c06Own[1])
		n.S.RemoveAddress(2, c06Own[2])
		w.Settle()
	}()
	// reference
	wantNIC, wantSrc := tcpip.NICID(0), tcpip.Address("")
	for _, i := range table {
		e := c06RouteMenu[i]
		if !c06Matches(e, dst) || (k.nic != 0 && k.nic != e.nic) || (k.addr != "" && c06Own[e.nic] != k.addr) {
			continue
		}
		wantNIC, wantSrc = e.nic, c06Own[e.nic]
		break
	}
	trans := udp.ProtocolNumber
	if k.tcp {
		trans = tcp.ProtocolNumber
	}
	sk := n.NewSock(trans, ipv4.ProtocolNumber)
	defer sk.EP.Close()
	what := fmt.Sprintf("routes %v, %s, destination %x", rt, k.name, []byte(dst))
	if k.nic != 0 || k.addr != "" {
		if err := sk.EP.Bind(tcpip.FullAddress{NIC: k.nic, Addr: k.addr, Port: 1234}, nil); err != nil {
			if k.nic != 0 && k.addr != "" && c06Own[k.nic] != k.addr {
				return "" // an address the interface does not own cannot be bound there
			}
			return what + ": bind failed: " + err.String()
		}
	}
	var err *tcpip.Error
	if k.tcp {
		err = sk.EP.Connect(tcpip.FullAddress{Addr: dst, Port: 80})
		if err == tcpip.ErrConnectStarted {
			err = nil
		}
	} else {
		_, _, err = sk.EP.Write(tcpip.SlicePayload([]byte("routed")), tcpip.WriteOptions{To: &tcpip.FullAddress{Addr: dst, Port: 99}})
	}
	w.Settle()
	fl := w.InFlight()
	for _, f := range fl {
		w.Take(f)
	}
	if wantNIC == 0 {
		if len(fl) > 0 {
			d, _ := DecodeFrame(fl[0])
			src := []byte(nil)
			if d != nil {
				src = d.Src
			}
			return fmt.Sprintf("%s: no route entry qualifies, yet a packet left through NIC %d with source %x", what, fl[0].NIC, src)
		}
		if err == nil {
			return what + ": no route entry qualifies, yet the call reported success"
		}
		return ""
	}
	if err != nil {
		return fmt.Sprintf("%s: the call failed (%v) although the entry through NIC %d qualifies", what, err, wantNIC)
	}
	if len(fl) != 1 {
		return fmt.Sprintf("%s: %d packets were emitted, expected 1", what, len(fl))
	}
	f := fl[0]
	d, derr := mon.Check(f, []tcpip.Address{c06Own[1], c06Own[2]})
	if derr != nil {
		return what + ": malformed frame: " + derr.Error()
	}
	if f.NIC != wantNIC {
		return fmt.Sprintf("%s: the packet left through NIC %d (source %x); the first qualifying route entry goes through NIC %d", what, f.NIC, d.Src, wantNIC)
	}
	if string(d.Src) != string(wantSrc) {
		return fmt.Sprintf("%s: the packet on NIC %d carries source %x, expected %x", what, f.NIC, d.Src, []byte(wantSrc))
	}
	if la, _ := sk.EP.GetLocalAddress(); k.tcp && la.Addr != wantSrc {
		return fmt.Sprintf("%s: the socket reports local address %x, its packets carry %x", what, []byte(la.Addr), d.Src)
	}
	return ""
}

// c06Tables: every ordered selection of 1..3 distinct menu entries.
func c06Tables() [][]int {
	var out [][]int
	var rec func(cur []int)
	rec = func(cur []int) {
		if len(cur) > 0 {
			out = append(out, append([]int(nil), cur...))
		}
		if len(cur) == 3 {
			return
		}
	next:
		for i := range c06RouteMenu {
			for _, c := range cur {
				if c == i {
					continue next
				}
			}
			rec(append(cur, i))
		}
	}
	rec(nil)
	return out
}

var c06RouteDsts = []tcpip.Address{"\x0a\x00\x01\x05", "\x0a\x00\x00\x05", "\x14\x00\x00\x05"}

func c06Routes(shard, of int) (int, []string) {
	var msgs []string
	n := 0
	for ti, table := range c06Tables() {
		if ti%of != shard {
			continue
		}
		for _, k := range c06SockKinds() {
			for _, dst := range c06RouteDsts {
				n++
				if m := c06RouteCase(table, k, dst); m != "" && len(msgs) < 3 {
					msgs = append(msgs, m)
				}
			}
		}
	}
	return n, msgs
}
