package main

import (
	"bytes"
	"fmt"
	"runtime"
	"strings"
	"sync"
	"time"

	"github.com/brewlin/net-protocol/pkg/buffer"
	"github.com/brewlin/net-protocol/pkg/waiter"
	tcpip "github.com/brewlin/net-protocol/protocol"
	"github.com/brewlin/net-protocol/protocol/network/arp"
	"github.com/brewlin/net-protocol/protocol/network/ipv4"
	"github.com/brewlin/net-protocol/protocol/network/ipv6"
	"github.com/brewlin/net-protocol/protocol/transport/tcp"
	"github.com/brewlin/net-protocol/protocol/transport/udp"
	"github.com/brewlin/net-protocol/stack"

	"verif/shim/vcrand"
	"verif/shim/vrand"
	"verif/shim/vtime"
)

// ---------------------------------------------------------------------------------
// The deterministic world of the envx engine: real stacks, a scripted wire, a virtual
// clock and a quiescence barrier. One World per execution.
// ---------------------------------------------------------------------------------

// Frame is one packet emitted by a stack onto the wire.
type Frame struct {
	From   *Node
	NIC    tcpip.NICID
	Proto  tcpip.NetworkProtocolNumber
	Data   []byte // network-layer packet (no link header)
	DstMAC tcpip.LinkAddress
	SrcMAC tcpip.LinkAddress
	At     time.Duration // virtual emission time
	Seq    int           // global emission ordinal
	held   [][]byte      // the buffers the stack handed to the link (Data is the copy taken at that moment)
}

// wirePort is the harness LinkEndpoint.
type wirePort struct {
	rxViews  [10]buffer.View
	w        *World
	node     *Node
	nic      tcpip.NICID
	mtu      uint32
	linkAddr tcpip.LinkAddress
	caps     stack.LinkEndpointCapabilities
	disp     stack.NetworkDispatcher
	id       tcpip.LinkEndpointID
}

func (p *wirePort) MTU() uint32                                  { return p.mtu }
func (p *wirePort) Capabilities() stack.LinkEndpointCapabilities { return p.caps }
func (p *wirePort) MaxHeaderLength() uint16                      { return 0 }
func (p *wirePort) LinkAddress() tcpip.LinkAddress               { return p.linkAddr }
func (p *wirePort) Attach(d stack.NetworkDispatcher)             { p.disp = d }
func (p *wirePort) IsAttached() bool                             { return p.disp != nil }
func (p *wirePort) WritePacket(r *stack.Route, hdr buffer.Prependable, payload buffer.VectorisedView, proto tcpip.NetworkProtocolNumber) *tcpip.Error {
	b := append([]byte(nil), hdr.View()...)
	b = append(b, payload.ToView()...)
	var dst tcpip.LinkAddress
	if r != nil {
		dst = r.RemoteLinkAddress
	}
	if p.w == nil {
		return nil // a leftover goroutine of a dead world
	}
	held := [][]byte{hdr.View()}
	for _, v := range payload.Views() {
		held = append(held, v)
	}
	p.w.emit(&Frame{From: p.node, NIC: p.nic, Proto: proto, Data: b, DstMAC: dst, SrcMAC: p.linkAddr, held: held})
	return nil
}

// Node is one real stack with its wire ports.
type Node struct {
	Name  string
	S     *stack.Stack
	Ports map[tcpip.NICID]*wirePort
}

type World struct {
	mu       sync.Mutex
	Nodes    []*Node
	inflight []*Frame // emitted, not yet delivered/dropped
	All      []*Frame // every frame ever emitted
	OnEmit   func(f *Frame)
	seq      int
	Steps    int
	barriers int
}

var lastWorld *World

// AliasErr reports a frame whose buffers were modified after the stack handed them to the
// link layer. A link endpoint may queue what it is given without copying (the repository's
// channel endpoint does), so the stack must not touch those bytes again.
func (w *World) AliasErr() error {
	w.mu.Lock()
	defer w.mu.Unlock()
	for _, f := range w.All {
		off := 0
		for _, h := range f.held {
			if off+len(h) > len(f.Data) || !bytes.Equal(h, f.Data[off:off+len(h)]) {
				return fmt.Errorf("frame #%d was modified after it was handed to the link layer: sent %x, its buffers now hold %x", f.Seq, f.Data, bytes.Join(f.held, nil))
			}
			off += len(h)
		}
	}
	return nil
}

func NewWorld() *World {
	// The repository keeps every registered link endpoint in a global map for ever; cut the
	// references from the previous world's ports so that dead worlds can be collected.
	if lastWorld != nil {
		for _, n := range lastWorld.Nodes {
			for _, p := range n.Ports {
				p.w, p.node, p.disp = nil, nil, nil
			}
			n.S = nil
		}
		lastWorld.Nodes, lastWorld.All, lastWorld.inflight = nil, nil, nil
	}
	vtime.EnableVirtual()
	vrand.Force(0) // ephemeral port search starts at 16000: deterministic local ports
	w := &World{}
	lastWorld = w
	return w
}

func (w *World) emit(f *Frame) {
	w.mu.Lock()
	f.At = vtime.Elapsed()
	f.Seq = w.seq
	w.seq++
	w.inflight = append(w.inflight, f)
	w.All = append(w.All, f)
	cb := w.OnEmit
	w.mu.Unlock()
	if cb != nil {
		cb(f)
	}
}

// InFlight returns a snapshot of undelivered frames in emission order.
func (w *World) InFlight() []*Frame {
	w.mu.Lock()
	defer w.mu.Unlock()
	return append([]*Frame(nil), w.inflight...)
}

// Take removes f from the in-flight list.
func (w *World) Take(f *Frame) {
	w.mu.Lock()
	for i, x := range w.inflight {
		if x == f {
			w.inflight = append(w.inflight[:i], w.inflight[i+1:]...)
			break
		}
	}
	w.mu.Unlock()
}

type NodeCfg struct {
	Name     string
	V4       []tcpip.Address
	V6       []tcpip.Address
	MTU      uint32
	LinkAddr tcpip.LinkAddress // non-empty => Ethernet-like: resolution required
	ARP      bool
	Net      []string // network protocols of the stack (nil: IPv4, IPv6 and ARP)
}

var allNet = []string{ipv4.ProtocolName, ipv6.ProtocolName, arp.ProtocolName}
var allTrans = []string{tcp.ProtocolName, udp.ProtocolName}

// AddNode creates a stack with NIC 1 on a wire port and default routes through it.
func (w *World) AddNode(c NodeCfg) *Node {
	nets := allNet
	if c.Net != nil {
		nets = c.Net
	}
	s := stack.New(nets, allTrans, stack.Options{Clock: vclock{}})
	n := &Node{Name: c.Name, S: s, Ports: map[tcpip.NICID]*wirePort{}}
	w.Nodes = append(w.Nodes, n)
	w.AddNIC(n, 1, c)
	s.SetRouteTable([]tcpip.Route{
		{Destination: tcpip.Address(strings.Repeat("\x00", 4)), Mask: tcpip.AddressMask(strings.Repeat("\x00", 4)), NIC: 1},
		{Destination: tcpip.Address(strings.Repeat("\x00", 16)), Mask: tcpip.AddressMask(strings.Repeat("\x00", 16)), NIC: 1},
	})
	return n
}

func (w *World) AddNIC(n *Node, id tcpip.NICID, c NodeCfg) *wirePort {
	if c.MTU == 0 {
		c.MTU = 1500
	}
	p := &wirePort{w: w, node: n, nic: id, mtu: c.MTU, linkAddr: c.LinkAddr}
	if c.LinkAddr != "" {
		p.caps |= stack.CapabilityResolutionRequired
	}
	p.id = stack.RegisterLinkEndpoint(p)
	n.Ports[id] = p
	must(n.S.CreateNIC(id, p.id))
	if c.LinkAddr != "" || c.ARP {
		must(n.S.AddAddress(id, arp.ProtocolNumber, arp.ProtocolAddress))
	}
	for _, a := range c.V4 {
		must(n.S.AddAddress(id, ipv4.ProtocolNumber, a))
	}
	for _, a := range c.V6 {
		must(n.S.AddAddress(id, ipv6.ProtocolNumber, a))
	}
	return p
}

func must(e *tcpip.Error) {
	if e != nil {
		panic("world setup: " + e.String())
	}
}

// vclock is the stack's user-visible clock on virtual time.
type vclock struct{}

func (vclock) NowNanoseconds() int64 { return vtime.Now().UnixNano() }
func (vclock) NowMonotonic() int64   { return int64(vtime.Elapsed()) }

// Inject delivers a network-layer packet to node n's NIC synchronously and waits for quiescence.
func (w *World) Inject(n *Node, nic tcpip.NICID, proto tcpip.NetworkProtocolNumber, data []byte, srcMAC, dstMAC tcpip.LinkAddress) {
	p := n.Ports[nic]
	// like the repository's fd-based endpoint, the port owns one array of view headers and
	// refills it for every frame (fresh bytes, same array): whoever keeps the VectorisedView it
	// was handed instead of a clone sees the next frame's views
	vv := chunked(data)
	k := copy(p.rxViews[:], vv.Views())
	for i := k; i < len(p.rxViews); i++ {
		p.rxViews[i] = nil
	}
	p.disp.DeliverNetworkPacket(p, srcMAC, dstMAC, proto, buffer.NewVectorisedView(len(data), p.rxViews[:k]))
	w.Settle()
}

// InjectSplit delivers data as two views cut at byte position at (0 < at < len(data)).
func (w *World) InjectSplit(n *Node, nic tcpip.NICID, proto tcpip.NetworkProtocolNumber, data []byte, at int, srcMAC, dstMAC tcpip.LinkAddress) {
	p := n.Ports[nic]
	views := []buffer.View{buffer.NewViewFromBytes(data[:at]), buffer.NewViewFromBytes(data[at:])}
	p.disp.DeliverNetworkPacket(p, srcMAC, dstMAC, proto, buffer.NewVectorisedView(len(data), views))
	w.Settle()
}

// chunked splits a packet into views the way the repository's fd-based endpoint reads
// frames (buffers of 128, 256, 256, 512, 1024, ... bytes), so large packets arrive as
// multi-view vectorised views.
func chunked(data []byte) buffer.VectorisedView {
	sizes := []int{128, 256, 256, 512, 1024, 2048, 4096, 8192, 16384, 32768}
	var views []buffer.View
	rest := data
	for _, sz := range sizes {
		if len(rest) == 0 {
			break
		}
		n := sz
		if n > len(rest) {
			n = len(rest)
		}
		views = append(views, buffer.NewViewFromBytes(rest[:n]))
		rest = rest[n:]
	}
	if len(views) == 0 {
		views = append(views, buffer.View{})
	}
	return buffer.NewVectorisedView(len(data), views)
}

// Deliver moves frame f to the other node (two-node worlds) or to `to`.
func (w *World) Deliver(f *Frame, to *Node, nic tcpip.NICID) {
	w.Inject(to, nic, f.Proto, f.Data, f.SrcMAC, f.DstMAC)
}

// ---------- quiescence barrier ----------

var stackBuf = make([]byte, 1<<20)

// Settle returns when every goroutine other than the caller is blocked (channel
// operation, select, lock wait, runtime-internal wait). With the virtual clock there are no
// real timers, so a quiescent world cannot move until the explorer acts.
func (w *World) Settle() {
	w.barriers++
	start := time.Now()
	for spins := 0; ; spins++ {
		runtime.Gosched()
		if quiet, _ := goroutinesQuiet(); quiet {
			return
		}
		// a goroutine that is still runnable after 200000 yields or 30 s of wall time is spinning
		// (with one P every yield to a spinner costs a preemption slice, hence the time bound)
		if spins > 200000 || (spins&15 == 15 && time.Since(start) > 30*time.Second) {
			_, s := goroutinesQuiet()
			panic("world does not become quiescent; busy goroutine: " + s)
		}
	}
}

// quietStates are the wait reasons of a goroutine that cannot move until another goroutine
// (or the explorer) acts. Everything else - running, runnable, syscall, preempted (a
// goroutine suspended for a stack scan or for this very dump), copystack, GC assist waits -
// will move by itself, so the world is not quiet yet. An unknown state counts as not quiet.
var quietStates = [][]byte{
	[]byte("chan receive"), []byte("chan send"), []byte("select"), []byte("semacquire"),
	[]byte("sync.Mutex.Lock"), []byte("sync.RWMutex.RLock"), []byte("sync.RWMutex.Lock"),
	[]byte("sync.Cond.Wait"), []byte("sync.WaitGroup.Wait"), []byte("IO wait"),
	[]byte("finalizer wait"), []byte("GC worker (idle)"), []byte("force gc (idle)"),
	[]byte("GC sweep wait"), []byte("GC scavenge wait"), []byte("cleanup wait"),
}

func blockedState(st []byte) bool {
	for _, q := range quietStates {
		if bytes.HasPrefix(st, q) {
			return true
		}
	}
	return false
}

// goroutinesQuiet parses the headers of a full goroutine dump.
func goroutinesQuiet() (bool, string) {
	n := runtime.Stack(stackBuf, true)
	for n == len(stackBuf) { // truncated dump would hide the newest goroutines: grow and retry
		stackBuf = make([]byte, 2*len(stackBuf))
		n = runtime.Stack(stackBuf, true)
	}
	b := stackBuf[:n]
	first := true
	for len(b) > 0 {
		i := bytes.Index(b, []byte("goroutine "))
		if i < 0 {
			break
		}
		if i > 0 && b[i-1] != '\n' {
			b = b[i+10:]
			continue
		}
		j := bytes.IndexByte(b[i:], '\n')
		if j < 0 {
			j = len(b) - i
		}
		line := b[i : i+j]
		b = b[i+j:]
		lb := bytes.IndexByte(line, '[')
		if lb < 0 {
			continue
		}
		if first { // the calling goroutine is listed first
			first = false
			continue
		}
		st := line[lb+1:]
		// a goroutine parked in a blocking read on an empty fd is quiet (fdbased dispatcher)
		if bytes.HasPrefix(st, []byte("syscall")) && fdIdle != nil && fdIdle() {
			continue
		}
		if !blockedState(st) {
			return false, string(line)
		}
	}
	return true, ""
}

// fdIdle, when set, reports whether every fd-based dispatcher has nothing to read.
var fdIdle func() bool

// DeadlockedGoroutines lists goroutines waiting for a mutex while the world is quiescent.
func DeadlockedGoroutines() []string {
	n := runtime.Stack(stackBuf, true)
	for n == len(stackBuf) {
		stackBuf = make([]byte, 2*len(stackBuf))
		n = runtime.Stack(stackBuf, true)
	}
	var out []string
	for _, blk := range strings.Split(string(stackBuf[:n]), "\n\n") {
		hdr := strings.SplitN(blk, "\n", 2)[0]
		if strings.Contains(hdr, "[sync.Mutex.Lock") || strings.Contains(hdr, "[sync.RWMutex.Lock") || strings.Contains(hdr, "[sync.RWMutex.RLock") || strings.Contains(hdr, "[semacquire") {
			out = append(out, firstN(blk, 12))
		}
	}
	return out
}

func firstN(s string, n int) string {
	l := strings.Split(s, "\n")
	if len(l) > n {
		l = l[:n]
	}
	return strings.Join(l, "\n")
}

// ---------- randomness ----------

// ScriptRand makes every 4-byte read of pkg/rand return the next value of vals
// (little-endian, cycling); other sizes get a fixed pattern.
func ScriptRand(vals ...uint32) {
	i := 0
	vcrand.SetSource(func(n int) []byte {
		b := make([]byte, n)
		if n == 4 && len(vals) > 0 {
			v := vals[i%len(vals)]
			i++
			b[0], b[1], b[2], b[3] = byte(v), byte(v>>8), byte(v>>16), byte(v>>24)
			return b
		}
		for k := range b {
			b[k] = byte(0x5a + k)
		}
		return b
	})
}

// ---------- small helpers over tcpip.Endpoint ----------

type Sock struct {
	EP tcpip.Endpoint
	WQ *waiter.Queue
}

func (n *Node) NewSock(trans tcpip.TransportProtocolNumber, net tcpip.NetworkProtocolNumber) *Sock {
	wq := &waiter.Queue{}
	ep, err := n.S.NewEndpoint(trans, net, wq)
	if err != nil {
		panic("NewEndpoint: " + err.String())
	}
	return &Sock{EP: ep, WQ: wq}
}

func (s *Sock) Readable() bool { return s.EP.Readiness(waiter.EventIn)&waiter.EventIn != 0 }
func (s *Sock) Writable() bool { return s.EP.Readiness(waiter.EventOut)&waiter.EventOut != 0 }

func errStr(e *tcpip.Error) string {
	if e == nil {
		return "ok"
	}
	return e.String()
}

func fmtAddr(a tcpip.Address) string { return fmt.Sprintf("%x", string(a)) }

type tcpipAddress = tcpip.Address

func tcpipProto(p uint16) tcpip.NetworkProtocolNumber { return tcpip.NetworkProtocolNumber(p) }
