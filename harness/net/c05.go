package main

import (
	"encoding/json"
	"fmt"
	"strings"
	"time"

	"verif/engine"
)

// C05: loss recovery is prompt and the congestion window is obeyed. One real stack against
// the raw peer in virtual time: emission times are exact, so "not sooner than 200 ms",
// "at least doubling" and "one segment per timeout" are decided, not sampled.

func init() {
	engine.Register(&engine.Check{
		ID:        "C05",
		Technique: "stateless model checking of the real TCP sender against a scripted raw peer under a virtual clock: DFS over all histories of lost segments / withheld, partial and duplicate ACKs within the deviation budget, for each flight size, peer RTT and silence length; every emission time-stamped in virtual time",
		Rule:      "for each flight size 1..12 segments, peer RTT in {0,50,300,1500} ms and silence of 0..6 timeouts: every history in which up to <budget> data segments are lost or their ACK is withheld / placed mid-segment (duplicate ACKs and SACK blocks follow from the peer's reference receiver); distinct = distinct choice sequence; non-trivial = at least one deviation",
		Assumes: []string{
			"duplicate ACK in the RFC 5681 sense; a fast retransmission is demanded only in the first loss episode of a connection (RFC 6582 forbids a second one inside an episode)",
			"Reno in-flight bound counts whole segments acknowledged and duplicate ACKs delivered",
		},
		Jobs:       c05Jobs,
		Run:        c05Run,
		Replay:     c05Replay,
		NeedRepro:  true,
		WorkerJobs: 40,
		DeadlineQ:  150 * time.Second,
		DeadlineT:  25 * time.Minute,
	})
}

func c05Jobs(tier string) []string {
	var jobs []string
	add := func(s string, shards int) {
		for i := 0; i < shards; i++ {
			jobs = append(jobs, fmt.Sprintf("raw:%d/%d:%s", i, shards, s))
		}
	}
	base := "or=r,devs=lhk,mss=100"
	flights := []int{3, 10}
	if tier == "thorough" {
		flights = []int{1, 2, 3, 4, 5, 6, 7, 8, 9, 10, 11, 12}
	}
	for _, f := range flights {
		add(fmt.Sprintf("%s,w=%dx100,b=1", base, f), 1)
		add(fmt.Sprintf("%s,w=%dx100,rtt=50,b=1", base, f), 1)
		if tier == "thorough" || f == 10 {
			add(fmt.Sprintf("%s,w=%dx100,rtt=300,b=1", base, f), 1)
			add(fmt.Sprintf("%s,w=%dx100,rtt=1500,b=1", base, f), 1)
			add(fmt.Sprintf("%s,w=%dx100,psack=1,sack=1,ts=1,b=1", base, f), 1)
		}
	}
	// more than the initial window written at once
	add(base+",w=3000,b=1", 2)
	add(base+",w=3000,rtt=50,b=1", 2)
	// silent peer: timeouts only
	for _, k := range []int{1, 3, 6} {
		add(fmt.Sprintf("or=r,devs=,mss=100,w=300,silent=%d,b=0", k), 1)
		add(fmt.Sprintf("or=r,devs=,mss=100,w=1500,silent=%d,b=0", k), 1)
	}
	add("or=r,devs=lh,mss=100,w=500,silent=2,b=1", 1)
	// writes spread over time, one ACK late, the next withheld: the retransmission timer must be
	// restarted by the partial ACK, or it fires too early for the segment sent later
	add("or=r,devs=hy,mss=100,w=100+100+100,wgap=150,b=2", 2)
	add("or=r,devs=hyl,mss=100,w=100+100+100+100,wgap=120,b=2", 4)
	// a timeout with a backlog (more written than the window lets out), then a loss among the
	// segments first sent after it: a new episode, fast retransmit is due again
	// an ICMP fragmentation-needed that arrives late in the segment's timer interval, and the
	// smaller segments sent in answer are lost: the timer must run a full RTO from that resend
	add("or=rw,devs=pl,mss=1460,w=1460+1460,ptb=576,ptbd=150,rtt=10,b=2", 1)
	// a slow peer acknowledges one segment every 150 / 120 ms (nothing new is sent meanwhile) and
	// then goes silent: the first timeout comes long after the last transmission
	add("or=r,devs=,mss=100,w=6x100,trickle=150x4,b=0", 1)
	add("or=r,devs=,mss=100,w=10x100,trickle=120x6,b=0", 1)
	// the peer answers for a while (the stack has round-trip samples), then goes silent: the
	// back-off must double from timeout to timeout exactly as it does without samples
	add("or=r,devs=,mss=100,w=8x100,silentafter=2,silent=5,b=0", 1)
	add("or=r,devs=,mss=100,w=8x100,silentafter=3,silent=5,rtt=50,b=0", 1)
	add("or=r,devs=,mss=100,w=8x100,silentafter=2,silent=4,ts=1,b=0", 1)
	add("or=r,devs=l,mss=100,w=3000,silent=1,b=1", 2)
	add("or=r,devs=l,mss=100,w=3000,silent=1,rtt=50,b=1", 2)
	if tier == "thorough" {
		for _, f := range []int{4, 6, 10} {
			add(fmt.Sprintf("%s,w=%dx100,rtt=150,b=2", base, f), 16)
		}
		add(base+",w=12x100,b=2", 16)
		add(base+",w=6x100,cc=cubic,b=2", 8)
		add(base+",w=6x100,iss=4294966900,b=2", 8)
		for _, f := range []int{3, 5, 8, 12} {
			for _, rtt := range []int{0, 50, 300, 1500} {
				add(fmt.Sprintf("%s,w=%dx100,rtt=%d,b=2", base, f, rtt), 16)
			}
			add(fmt.Sprintf("%s,w=%dx100,psack=1,sack=1,ts=1,b=2", base, f), 16)
		}
		add("or=r,devs=l,mss=100,w=3000,silent=1,b=2", 16)
		add("or=r,devs=lh,mss=100,w=3000,silent=1,rtt=50,b=2", 16)
		add(base+",w=3000,b=2", 16)
		add(base+",w=4x100,b=3", 16)
		add(base+",w=6x100,rtt=150,b=3", 32)
	} else {
		add(base+",w=5x100,rtt=150,b=2", 8)
		add(base+",w=3000,b=2", 16) // two losses in one window: a second episode for data sent during the first
	}
	return jobs
}

func c05Run(job, tier string, deadline time.Time) *engine.Result {
	r := &engine.Result{Exhaustive: true}
	return rawRunJob(r, job, deadline)
}

func c05Replay(rp json.RawMessage) *engine.Violation {
	var er engine.EnvReplay
	if json.Unmarshal(rp, &er) != nil || !strings.HasPrefix(er.Job, "raw:") {
		return nil
	}
	return rawReplay(er)
}
