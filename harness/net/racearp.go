package main

import (
	"fmt"
	"sync"
	"sync/atomic"
	"time"

	tcpip "github.com/brewlin/net-protocol/protocol"
	"github.com/brewlin/net-protocol/protocol/network/ipv4"
	"github.com/brewlin/net-protocol/protocol/transport/udp"

	"verif/engine"
	"verif/ref"
	"verif/shim/vtime"
)

// Free-running pass for C12 ("lookups, replies and timeouts racing"): on an Ethernet-like
// port, goroutines write datagrams to eight on-link neighbours, others deliver ARP replies
// and ARP requests from those neighbours, in real time under the race detector. Every
// datagram that leaves must carry the link address of its neighbour.

func init() { engine.AddRace("C12", raceARP) }

func raceARP(tier string, r *engine.Result) {
	for round := 0; round < raceRounds(tier, 3, 20); round++ {
		w := NewWorld()
		vtime.DisableVirtual()
		own := tcpip.Address("\x0a\x09\x09\x02")
		ownMAC := tcpip.LinkAddress("\x02\x00\x00\x00\x01\x01")
		n := w.AddNode(NodeCfg{Name: "S", V4: []tcpip.Address{own}, MTU: 1500, LinkAddr: ownMAC})
		nb := func(i int) (tcpip.Address, tcpip.LinkAddress) {
			return tcpip.Address([]byte{10, 9, 9, byte(10 + i)}), tcpip.LinkAddress([]byte{2, 0xaa, 0, 0, 0, byte(10 + i)})
		}
		port := n.Ports[1]
		var ops int64
		var bad atomic.Value
		stop := make(chan struct{})
		var drain sync.WaitGroup
		drain.Add(1)
		go func() { // the wire: answers ARP requests after a moment, checks datagrams
			defer drain.Done()
			for {
				fl := w.InFlight()
				for _, f := range fl {
					w.Take(f)
					d, err := DecodeFrame(f)
					if err != nil {
						continue
					}
					if d.ARP != nil && d.ARP.Op == 1 {
						for i := 0; i < 8; i++ {
							a, m := nb(i)
							if string(d.ARP.TPA[:]) == string(a) {
								port.disp.DeliverNetworkPacket(port, m, ownMAC, 0x0806, chunked(ref.BuildARP(2, []byte(m), []byte(a), []byte(ownMAC), []byte(own))))
							}
						}
					}
					if d.UDP != nil {
						for i := 0; i < 8; i++ {
							a, m := nb(i)
							if string(d.Dst) == string(a) && f.DstMAC != m {
								bad.Store(fmt.Sprintf("datagram for %x left with link address %x, the neighbour has %x", []byte(a), []byte(f.DstMAC), []byte(m)))
							}
						}
					}
					atomic.AddInt64(&ops, 1)
				}
				if len(fl) == 0 {
					select {
					case <-stop:
						return
					case <-time.After(100 * time.Microsecond):
					}
				}
			}
		}()
		var wg sync.WaitGroup
		for g := 0; g < 3; g++ {
			wg.Add(1)
			go func(g int) {
				defer wg.Done()
				sk := n.NewSock(udp.ProtocolNumber, ipv4.ProtocolNumber)
				defer sk.EP.Close()
				for i := 0; i < 150; i++ {
					a, _ := nb((i + g) % 8)
					_, ch, err := sk.EP.Write(tcpip.SlicePayload([]byte("x")), tcpip.WriteOptions{To: &tcpip.FullAddress{Addr: a, Port: 99}})
					if err == tcpip.ErrNoLinkAddress && ch != nil {
						select {
						case <-ch:
						case <-time.After(20 * time.Millisecond):
						}
					}
					atomic.AddInt64(&ops, 1)
				}
			}(g)
		}
		wg.Add(1)
		go func() { // neighbours announce themselves / ask for us meanwhile
			defer wg.Done()
			for i := 0; i < 200; i++ {
				a, m := nb(i % 8)
				op := uint16(1 + i%2)
				port.disp.DeliverNetworkPacket(port, m, ownMAC, 0x0806, chunked(ref.BuildARP(op, []byte(m), []byte(a), []byte(ownMAC), []byte(own))))
				atomic.AddInt64(&ops, 1)
				time.Sleep(30 * time.Microsecond)
			}
		}()
		wg.Wait()
		time.Sleep(5 * time.Millisecond)
		close(stop)
		drain.Wait()
		n.S.RemoveAddress(1, own)
		vtime.EnableVirtual()
		if m := bad.Load(); m != nil {
			panic("verif: " + m.(string))
		}
		raceDoneNet(r, atomic.LoadInt64(&ops), "neighbour resolution: 3 goroutines writing datagrams to 8 on-link neighbours, ARP replies and requests from them arriving meanwhile, real timers")
	}
}
