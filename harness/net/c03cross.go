package main

import (
	"fmt"

	tcpip "github.com/brewlin/net-protocol/protocol"
	"github.com/brewlin/net-protocol/protocol/network/ipv4"
	"github.com/brewlin/net-protocol/protocol/transport/tcp"

	"verif/ref"
	"verif/shim/vtime"
)

// C03, the numbers of one handshake used on another 4-tuple: the peer performs SYN / SYN-ACK on
// (X, port A) and learns the stack's initial sequence number; then a bare ACK with exactly the
// right sequence and acknowledgement numbers arrives from another port, another address, or
// for another local port on which a second listener waits. No SYN was ever seen on that
// 4-tuple: no connection may be handed out.
var c03CrossVariants = []string{"other-remote-port", "other-remote-address", "other-local-port"}

func c03Cross(cookie bool, variant string, pISS uint32) *c03Fail {
	old := tcp.SynRcvdCountThreshold
	if cookie {
		tcp.SynRcvdCountThreshold = 0
	}
	defer func() { tcp.SynRcvdCountThreshold = old }()
	r := NewRaw(false, 1500)
	ScriptRand(1, 2, 3)
	l1 := r.n.NewSock(tcp.ProtocolNumber, ipv4.ProtocolNumber)
	must(l1.EP.Bind(tcpip.FullAddress{Port: stackPort}, nil))
	must(l1.EP.Listen(8))
	l2 := r.n.NewSock(tcp.ProtocolNumber, ipv4.ProtocolNumber)
	must(l2.EP.Bind(tcpip.FullAddress{Port: stackPort + 1}, nil))
	must(l2.EP.Listen(8))
	r.w.Settle()
	defer func() {
		for _, l := range []tcpip.Endpoint{l1.EP, l2.EP} {
			for {
				ep, _, err := l.Accept()
				if err != nil {
					break
				}
				ep.Close()
			}
			l.Close()
		}
		r.w.Settle()
		for i := 0; i < 20 && vtime.FireNext(); i++ {
			r.w.Settle()
		}
		r.n.S.RemoveAddress(1, addrA4)
		r.n.S.RemoveAddress(1, addrA6)
		r.w.Settle()
	}()
	what := fmt.Sprintf("cookie mode %v, peer ISS %d, %s", cookie, pISS, variant)
	r.SendTCP(peerPort, stackPort, pISS, 0, ref.SYN, 30000, ref.PadOpts(ref.OptMSS(1460)), nil)
	var iss uint32
	ok := false
	for _, d := range r.Collect() {
		if d != nil && d.TCP != nil && d.TCP.Flags == ref.SYN|ref.ACK {
			iss, ok = d.TCP.Seq, true
		}
	}
	if !ok {
		return &c03Fail{"no-synack", what + ": the SYN was not answered by a SYN-ACK"}
	}
	src, sport, dport := r.pAddr, uint16(peerPort), uint16(stackPort)
	switch variant {
	case "other-remote-port":
		sport = peerPort + 1
	case "other-remote-address":
		src = []byte{10, 0, 0, 99}
	case "other-local-port":
		dport = stackPort + 1
	}
	seg := ref.BuildTCP(sport, dport, pISS+1, iss+1, ref.ACK, 30000, nil, nil, src, r.sAddr)
	r.ipID++
	r.w.Inject(r.n, 1, ipv4.ProtocolNumber, ref.BuildIPv4(src, r.sAddr, ref.ProtoTCP, r.ipID, 0, 0, 64, seg), "", "")
	r.Collect()
	for i, l := range []tcpip.Endpoint{l1.EP, l2.EP} {
		if ep, _, err := l.Accept(); err == nil {
			ra, _ := ep.GetRemoteAddress()
			ep.Close()
			return &c03Fail{"connection-from-foreign-tuple", fmt.Sprintf("%s: listener %d handed out a connection to %x port %d although no SYN was ever received on that 4-tuple (the handshake numbers belong to %x port %d -> port %d)", what, i+1, []byte(ra.Addr), ra.Port, r.pAddr, peerPort, stackPort)}
		}
	}
	return nil
}
