package main

import (
	"fmt"

	tcpip "github.com/brewlin/net-protocol/protocol"

	"verif/ref"
)

// Decoded is what the frame monitor extracts from one emitted frame.
type Decoded struct {
	F      *Frame
	V6     bool
	Src    []byte
	Dst    []byte
	Proto  uint8 // transport protocol of an unfragmented packet (or of the fragment)
	IPv4   *ref.IPv4
	IPv6   *ref.IPv6
	Frag   bool
	TCP    *ref.TCP
	UDP    *ref.UDP
	ICMP   *ref.ICMP
	ARP    *ref.ARP
	TotLen int
}

// DecodeFrame validates one emitted frame under the independent decoder (C06's oracle):
// structure, length fields vs actual length, IPv4/ICMP/UDP/TCP checksums, TCP options.
func DecodeFrame(f *Frame) (*Decoded, error) {
	d := &Decoded{F: f, TotLen: len(f.Data)}
	switch uint16(f.Proto) {
	case ref.EtherARP:
		a, err := ref.ParseARP(f.Data)
		if err != nil {
			return d, err
		}
		if len(f.Data) != 28 {
			return d, fmt.Errorf("ARP packet of %d bytes (28 expected)", len(f.Data))
		}
		if a.Op != 1 && a.Op != 2 {
			return d, fmt.Errorf("ARP op %d", a.Op)
		}
		d.ARP = &a
		return d, nil
	case ref.EtherIPv4:
		h, err := ref.ParseIPv4(f.Data, true)
		if err != nil {
			return d, err
		}
		d.IPv4 = &h
		d.Src, d.Dst, d.Proto = h.Src[:], h.Dst[:], h.Proto
		if h.TTL == 0 {
			return d, fmt.Errorf("IPv4 TTL 0")
		}
		if h.MF() || h.FragOff != 0 {
			d.Frag = true
			if h.MF() && len(h.Payload)%8 != 0 {
				return d, fmt.Errorf("IPv4 non-final fragment with payload %d not a multiple of 8", len(h.Payload))
			}
			return d, nil
		}
		return d, decodeTransport(d, h.Proto, h.Payload, false)
	case ref.EtherIPv6:
		h, err := ref.ParseIPv6(f.Data, true)
		if err != nil {
			return d, err
		}
		d.V6 = true
		d.IPv6 = &h
		d.Src, d.Dst, d.Proto = h.Src[:], h.Dst[:], h.NextHeader
		if h.HopLimit == 0 {
			return d, fmt.Errorf("IPv6 hop limit 0")
		}
		if h.NextHeader == ref.ProtoFrag6 {
			d.Frag = true
			return d, nil
		}
		return d, decodeTransport(d, h.NextHeader, h.Payload, true)
	}
	return d, fmt.Errorf("unknown network protocol %#04x", uint16(f.Proto))
}

func decodeTransport(d *Decoded, proto uint8, p []byte, v6 bool) error {
	switch proto {
	case ref.ProtoTCP:
		t, err := ref.ParseTCP(p, d.Src, d.Dst)
		if err != nil {
			return err
		}
		d.TCP = &t
		if len(t.RawOpts)%4 != 0 {
			return fmt.Errorf("TCP option area of %d bytes", len(t.RawOpts))
		}
		if t.Flags&ref.SYN == 0 && (t.Opts.HasMSS || t.Opts.HasWS || t.Opts.SACKPerm) {
			return fmt.Errorf("SYN-only option on a non-SYN segment (flags %#x)", t.Flags)
		}
		if t.Flags&ref.SYN != 0 && len(t.Opts.SACK) > 0 {
			return fmt.Errorf("SACK blocks on a SYN segment")
		}
	case ref.ProtoUDP:
		u, err := ref.ParseUDP(p, d.Src, d.Dst, v6)
		if err != nil {
			return err
		}
		d.UDP = &u
	case ref.ProtoICMP:
		if v6 {
			return fmt.Errorf("ICMPv4 inside IPv6")
		}
		m, err := ref.ParseICMPv4(p)
		if err != nil {
			return err
		}
		d.ICMP = &m
	case ref.ProtoICMPv6:
		if !v6 {
			return fmt.Errorf("ICMPv6 inside IPv4")
		}
		m, err := ref.ParseICMPv6(p, d.Src, d.Dst)
		if err != nil {
			return err
		}
		d.ICMP = &m
	default:
		return fmt.Errorf("unexpected transport protocol %d", proto)
	}
	return nil
}

// Monitor accumulates per-world frame checks that need history (IP id of consecutive
// large packets, source addresses).
type Monitor struct {
	lastID map[string]uint16
	hasID  map[string]bool
	Frames int
	ByKind map[string]int
}

func NewMonitor() *Monitor {
	return &Monitor{lastID: map[string]uint16{}, hasID: map[string]bool{}, ByKind: map[string]int{}}
}

// Check validates f; the returned error (if any) is a C06 violation.
func (m *Monitor) Check(f *Frame, local []tcpip.Address) (*Decoded, error) {
	d, err := DecodeFrame(f)
	m.Frames++
	if err != nil {
		return d, err
	}
	kind := "other"
	switch {
	case d.ARP != nil:
		kind = "arp"
	case d.Frag:
		kind = "fragment"
	case d.TCP != nil:
		kind = "tcp"
	case d.UDP != nil:
		kind = "udp"
	case d.ICMP != nil && d.V6:
		kind = "icmpv6"
	case d.ICMP != nil:
		kind = "icmpv4"
	}
	m.ByKind[kind]++
	if d.ARP == nil {
		// source must be one of the emitting node's addresses
		ok := false
		for _, a := range local {
			if string(a) == string(d.Src) {
				ok = true
			}
		}
		if !ok && len(local) > 0 {
			return d, fmt.Errorf("source address %x is not an address of the emitting stack %v", d.Src, local)
		}
	}
	if d.IPv4 != nil && !d.Frag && d.TotLen > 68 {
		flow := fmt.Sprintf("%s|%x>%x|%d", f.From.Name, d.Src, d.Dst, d.Proto)
		if d.TCP != nil {
			flow += fmt.Sprintf("|%d>%d", d.TCP.SrcPort, d.TCP.DstPort)
		}
		if d.UDP != nil {
			flow += fmt.Sprintf("|%d>%d", d.UDP.SrcPort, d.UDP.DstPort)
		}
		if m.hasID[flow] && m.lastID[flow] == d.IPv4.ID {
			return d, fmt.Errorf("two consecutive packets >68 bytes of flow %s carry the same IPv4 identification %d", flow, d.IPv4.ID)
		}
		m.hasID[flow], m.lastID[flow] = true, d.IPv4.ID
	}
	return d, nil
}
