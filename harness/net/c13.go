package main

import (
	"bytes"
	"encoding/json"
	"fmt"
	"runtime"
	"strings"
	"time"

	"verif/engine"
	"verif/ref"
	"verif/shim/vtime"
)

// C13: echo requests are answered once, mirroring identifier, sequence and payload.
// One real stack, raw ICMP speaker; exhaustive over payload lengths 0..MTU-header,
// identifier/sequence menus, fragmentations and arrival orders.

func init() {
	engine.Register(&engine.Check{
		ID:        "C13",
		Technique: "exhaustive enumeration of echo-request inputs (every payload length, identifier/sequence menu, every 8-byte-aligned cut into 2-3 fragments in every arrival order, bursts) injected into the real stack in the deterministic world; every emitted frame matched against the outstanding requests by an independent decoder",
		Rule:      "ICMPv4 and ICMPv6: all payload lengths 0..MTU-headers x 2 fill patterns, identifier and sequence from {0,1,0x7fff,0x8000,0xffff}^2, destinations {own A1, own A2, foreign, unassigned}, fragmented requests (payload 1.5x and 2.5x MTU, every cut, every order), bursts of {1,9,10,11,14}; distinct = distinct request (set); all non-trivial",
		Assumes:   []string{"an IPv6 NIC is given the solicited-node multicast address of its unicast address by the harness (configuration)"},
		Jobs:      c13Jobs,
		Run:       c13Run,
		Replay:    c13Replay,
		NeedRepro: true,
	})
}

type c13Req struct {
	V6        bool
	Ident     uint16
	Seq       uint16
	Len       int
	Fill      int
	Dst       int   // 0 own A1, 1 own A2, 2 foreign, 3 unassigned
	Cuts      []int // fragment boundaries in payload bytes of the ICMP message (8-aligned); nil = unfragmented
	Order     []int // arrival order of fragments
	Split     int   `json:",omitempty"` // > 0: the (unfragmented) packet is handed over as two views cut at this byte
	Flip      int   `json:",omitempty"` // > 0: bit Flip-1 of the ICMP message is inverted in transit (its checksum no longer verifies)
	Trunc     int   `json:",omitempty"` // > 0: the ICMP message is only Trunc bytes long (shorter than an echo header), checksum correct
	NoReplyOK bool  `json:",omitempty"` // the reply cannot be sent (it would not fit an IP packet): no answer is demanded for this one
}

// damaged: not an echo request anybody sent; it must not be answered.
func (q c13Req) damaged() bool { return q.Flip > 0 || q.Trunc > 0 }

func c13Damage(q c13Req, msg []byte, src, dst []byte) []byte {
	if q.Trunc > 0 && q.Trunc < len(msg) {
		msg = append([]byte(nil), msg[:q.Trunc]...)
		if len(msg) >= 4 {
			msg[2], msg[3] = 0, 0
			var init uint16
			if q.V6 {
				init = ref.PseudoSum(src, dst, ref.ProtoICMPv6, uint32(len(msg)))
			}
			c := ^ref.Sum(msg, init)
			msg[2], msg[3] = byte(c>>8), byte(c)
		}
	}
	if q.Flip > 0 && (q.Flip-1)/8 < len(msg) {
		msg = append([]byte(nil), msg...)
		msg[(q.Flip-1)/8] ^= 0x80 >> uint((q.Flip-1)%8)
	}
	return msg
}

var (
	c13A2v4      = []byte{10, 0, 0, 255} // an ordinary unicast address (the network is wider than /24)
	c13A2v6      = []byte("\xfd\x00\x00\x00\x00\x00\x00\x00\x00\x00\x00\x00\x00\x00\x00\xff")
	c13Foreign4  = []byte{10, 0, 0, 99}
	c13Foreign6  = []byte("\xfd\x00\x00\x00\x00\x00\x00\x00\x00\x00\x00\x00\x00\x00\x00\x63")
	c13Unassign4 = []byte{192, 168, 77, 1}
	c13Unassign6 = []byte("\xfd\x77\x00\x00\x00\x00\x00\x00\x00\x00\x00\x00\x00\x00\x00\x01")
)

func c13Payload(fill, n int) []byte {
	b := make([]byte, n)
	for i := range b {
		if fill == 0 {
			b[i] = byte(i*13 + 5)
		} else {
			b[i] = 0xff
		}
	}
	return b
}

type c13World struct {
	r    *Raw
	ipID uint16
}

func c13NewWorld() *c13World {
	r := NewRaw(false, 1500)
	ScriptRand(1, 2, 3)
	must(r.n.S.AddAddress(1, 0x0800, tcpipAddr(c13A2v4)))
	must(r.n.S.AddAddress(1, 0x86dd, tcpipAddr(c13A2v6)))
	r.Local = append(r.Local, tcpipAddr(c13A2v4), tcpipAddr(c13A2v6))
	return &c13World{r: r, ipID: 100}
}

func (w *c13World) close() {
	w.r.w.Settle()
	for i := 0; i < 10 && vtime.FireNext(); i++ {
		w.r.w.Settle()
	}
	for _, a := range [][]byte{[]byte(addrA4), []byte(addrA6), c13A2v4, c13A2v6} {
		w.r.n.S.RemoveAddress(1, tcpipAddr(a))
	}
	w.r.w.Settle()
}

func (w *c13World) dst(q c13Req) []byte {
	if q.V6 {
		return [][]byte{[]byte(addrA6), c13A2v6, c13Foreign6, c13Unassign6}[q.Dst]
	}
	return [][]byte{[]byte(addrA4), c13A2v4, c13Foreign4, c13Unassign4}[q.Dst]
}

// inject sends the request (possibly fragmented) without settling in between when burst.
func (w *c13World) packets(q c13Req) [][]byte {
	dst := w.dst(q)
	data := c13Payload(q.Fill, q.Len)
	var pkts [][]byte
	if q.V6 {
		src := []byte(addrB6)
		msg := ref.BuildICMPv6Echo(128, q.Ident, q.Seq, data, src, dst)
		msg = c13Damage(q, msg, src, dst)
		if q.Cuts == nil {
			return [][]byte{ref.BuildIPv6(src, dst, ref.ProtoICMPv6, 64, msg)}
		}
		bounds := append(append([]int{0}, q.Cuts...), len(msg))
		for i := 0; i+1 < len(bounds); i++ {
			fr := ref.BuildIPv6Frag(ref.ProtoICMPv6, bounds[i], i+2 < len(bounds), 0xabcd0000+uint32(q.Seq), msg[bounds[i]:bounds[i+1]])
			pkts = append(pkts, ref.BuildIPv6(src, dst, ref.ProtoFrag6, 64, fr))
		}
	} else {
		src := []byte(addrB4)
		msg := ref.BuildICMPv4Echo(8, q.Ident, q.Seq, data)
		msg = c13Damage(q, msg, src, dst)
		w.ipID++
		if q.Cuts == nil {
			return [][]byte{ref.BuildIPv4(src, dst, ref.ProtoICMP, w.ipID, 0, 0, 64, msg)}
		}
		bounds := append(append([]int{0}, q.Cuts...), len(msg))
		for i := 0; i+1 < len(bounds); i++ {
			fl := uint8(0)
			if i+2 < len(bounds) {
				fl = 1
			}
			pkts = append(pkts, ref.BuildIPv4(src, dst, ref.ProtoICMP, w.ipID, fl, bounds[i], 64, msg[bounds[i]:bounds[i+1]]))
		}
	}
	if q.Order != nil {
		o := make([][]byte, len(pkts))
		for i, k := range q.Order {
			o[i] = pkts[k]
		}
		pkts = o
	}
	return pkts
}

type c13Fail struct{ key, msg string }

// c13Round injects the requests (settling only at the end if burst) and matches replies.
func (w *c13World) round(reqs []c13Req, burst bool) *c13Fail {
	proto := func(q c13Req) uint16 {
		if q.V6 {
			return 0x86dd
		}
		return 0x0800
	}
	for _, q := range reqs {
		for _, p := range w.packets(q) {
			if burst {
				port := w.r.n.Ports[1]
				port.disp.DeliverNetworkPacket(port, "", "", tcpipProto(proto(q)), chunked(p))
			} else if q.Split > 0 && q.Split < len(p) {
				w.r.w.InjectSplit(w.r.n, 1, tcpipProto(proto(q)), p, q.Split, "", "")
			} else {
				w.r.w.Inject(w.r.n, 1, tcpipProto(proto(q)), p, "", "")
			}
		}
	}
	w.r.w.Settle()
	frames := w.r.Collect()
	if w.r.MonErr != nil {
		return &c13Fail{"malformed-reply", "the stack emitted a malformed frame: " + w.r.MonErr.Error()}
	}
	if len(reqs) == 1 && reqs[0].damaged() {
		q := reqs[0]
		for _, d := range frames {
			if d.ICMP != nil && ((!d.V6 && d.ICMP.Type == 0) || (d.V6 && d.ICMP.Type == 129)) {
				if q.Trunc > 0 {
					return &c13Fail{"truncated-request-answered", fmt.Sprintf("an ICMP message of type echo that is only %d bytes long (no complete echo header; v6=%v) was answered with an echo reply of %d ICMP bytes", q.Trunc, q.V6, 8+len(d.ICMP.Data))}
				}
				return &c13Fail{"damaged-request-answered", fmt.Sprintf("an echo request (v6=%v id %d seq %d, %d payload bytes) whose bit %d was inverted in transit - its ICMP checksum does not verify - was answered with an echo reply (id %d seq %d, %d payload bytes, valid checksum): the reply corresponds to no request that was sent", q.V6, q.Ident, q.Seq, q.Len, q.Flip-1, d.ICMP.Ident, d.ICMP.Seq, len(d.ICMP.Data))}
			}
		}
		return nil
	}
	if err := w.r.w.AliasErr(); err != nil {
		return &c13Fail{"reply-modified-after-send", "a link endpoint that queues frames would send something else: " + err.Error()}
	}
	answered := make([]int, len(reqs))
	for _, d := range frames {
		if d.ICMP == nil {
			return &c13Fail{"unexpected-frame", fmt.Sprintf("unexpected non-ICMP frame emitted: %x", d.F.Data)}
		}
		m := d.ICMP
		isReply := (!d.V6 && m.Type == 0) || (d.V6 && m.Type == 129)
		if !isReply {
			continue
		}
		matched := false
		for i, q := range reqs {
			if answered[i] > 0 || q.V6 != d.V6 || q.Ident != m.Ident || q.Seq != m.Seq {
				continue
			}
			if !bytes.Equal(m.Data, c13Payload(q.Fill, q.Len)) {
				continue
			}
			if !bytes.Equal(d.Src, w.dst(q)) {
				return &c13Fail{"reply-source", fmt.Sprintf("reply to the request for %x (id %d seq %d) comes from %x, not from the address that was pinged", w.dst(q), q.Ident, q.Seq, d.Src)}
			}
			want := []byte(addrB4)
			if q.V6 {
				want = []byte(addrB6)
			}
			if !bytes.Equal(d.Dst, want) {
				return &c13Fail{"reply-destination", fmt.Sprintf("reply is addressed to %x, the requester is %x", d.Dst, want)}
			}
			if m.Code != 0 {
				return &c13Fail{"reply-code", fmt.Sprintf("echo reply with code %d", m.Code)}
			}
			answered[i]++
			matched = true
			break
		}
		if !matched {
			return &c13Fail{"reply-without-request", fmt.Sprintf("an echo reply (v6=%v id %d seq %d, %d payload bytes) corresponds to no unanswered request (identifier, sequence or payload differ, or it is a second reply)", d.V6, m.Ident, m.Seq, len(m.Data))}
		}
	}
	pending := 0
	for _, q := range reqs {
		if q.Dst <= 1 {
			pending++
		}
	}
	for i, q := range reqs {
		if q.Dst >= 2 && answered[i] > 0 {
			return &c13Fail{"answered-foreign", fmt.Sprintf("a request addressed to %x (not an address of the stack) was answered", w.dst(q))}
		}
		if q.Dst <= 1 && answered[i] == 0 && pending < 10 && !q.NoReplyOK {
			key := "unanswered"
			if q.V6 && q.Cuts != nil {
				key = "unanswered-fragmented-icmpv6" // D11: no IPv6 reassembly
			}
			return &c13Fail{key, fmt.Sprintf("echo request (v6=%v id %d seq %d len %d cuts %v order %v) to own address %x was not answered although only %d request(s) were pending", q.V6, q.Ident, q.Seq, q.Len, q.Cuts, q.Order, w.dst(q), pending)}
		}
	}
	return nil
}

func tcpipAddr(b []byte) tcpipAddress { return tcpipAddress(b) }

// ---------- jobs ----------

var c13IDs = []uint16{0, 1, 0x7fff, 0x8000, 0xffff}

func c13Jobs(tier string) []string {
	jobs := []string{"idseq:4", "idseq:6", "dest:4", "dest:6", "burst:4", "burst:6", "frag:4", "frag:6", "views:4", "views:6", "damaged:4", "damaged:6"}
	for i := 0; i < 8; i++ {
		jobs = append(jobs, fmt.Sprintf("len:4:%d/8", i), fmt.Sprintf("len:6:%d/8", i))
	}
	return jobs
}

func perms(n int) [][]int {
	if n == 1 {
		return [][]int{{0}}
	}
	var out [][]int
	for _, p := range perms(n - 1) {
		for i := 0; i <= len(p); i++ {
			q := append(append(append([]int(nil), p[:i]...), n-1), p[i:]...)
			out = append(out, q)
		}
	}
	return out
}

func c13Run(job, tier string, deadline time.Time) *engine.Result {
	r := &engine.Result{Exhaustive: true}
	parts := strings.Split(job, ":")
	v6 := parts[1] == "6"
	w := c13NewWorld()
	defer func() { w.close() }()
	n := 0
	do := func(reqs []c13Req, burst bool) {
		n++
		if n%400 == 0 { // fresh world now and then: keeps goroutine and memory use flat
			w.close()
			w = c13NewWorld()
		}
		r.Execs++
		r.Transitions += int64(len(reqs))
		r.Nontrivial++
		var f *c13Fail
		func() {
			defer func() {
				if e := recover(); e != nil {
					f = &c13Fail{"panic", fmt.Sprint("panic: ", e)}
					w = c13NewWorld()
				}
			}()
			f = w.round(reqs, burst)
		}()
		if f != nil && len(r.Violations) < 6 {
			r.Violations = append(r.Violations, engine.Violation{Property: "C13", Kind: "echo", Key: f.key, Detail: f.msg, Job: job, Replay: engine.MustJSON(map[string]interface{}{"reqs": reqs, "burst": burst})})
			w.close()
			w = c13NewWorld()
		}
		if r.Execs == 3 {
			r.Sample(map[string]interface{}{"requests": reqs, "burst": burst})
		}
	}
	maxLen := 1472
	if v6 {
		maxLen = 1452
	}
	switch parts[0] {
	case "len":
		var i, k int
		fmt.Sscanf(parts[2], "%d/%d", &i, &k)
		for l := i; l <= maxLen; l += k {
			for fill := 0; fill < 2; fill++ {
				do([]c13Req{{V6: v6, Ident: 0x1234, Seq: uint16(l), Len: l, Fill: fill}}, false)
			}
		}
	case "idseq":
		for _, id := range c13IDs {
			for _, sq := range c13IDs {
				for _, l := range []int{0, 1, 56} {
					do([]c13Req{{V6: v6, Ident: id, Seq: sq, Len: l}}, false)
				}
			}
		}
	case "dest":
		for d := 0; d < 4; d++ {
			for _, l := range []int{0, 7, 56, 1000} {
				do([]c13Req{{V6: v6, Ident: 7, Seq: uint16(d), Len: l, Dst: d}}, false)
			}
		}
		// mixed
		do([]c13Req{{V6: v6, Ident: 1, Seq: 1, Len: 8, Dst: 0}, {V6: v6, Ident: 1, Seq: 2, Len: 8, Dst: 2}, {V6: v6, Ident: 1, Seq: 3, Len: 8, Dst: 1}, {V6: v6, Ident: 1, Seq: 4, Len: 8, Dst: 3}}, false)
	case "views":
		// the request reaches the stack as two buffers (a link endpoint with small receive
		// buffers): every cut position inside the payload, for three payload lengths
		hdr := 20
		if v6 {
			hdr = 40
		}
		// (the echo header itself stays in the first buffer, as with every link endpoint of the
		// repository: the stack reads headers from the first view by design)
		for _, l := range []int{5, 64, 65} {
			for cut := hdr + 8; cut < hdr+8+l; cut++ {
				do([]c13Req{{V6: v6, Ident: 0x4242, Seq: uint16(cut), Len: l, Fill: 1, Split: cut}}, false)
			}
		}
	case "damaged":
		// every single-bit damage of an echo request (a single inverted bit always breaks the
		// one's-complement checksum), and every length below a complete echo header
		for _, l := range []int{0, 1, 8, 33} {
			for bit := 0; bit < (8+l)*8; bit++ {
				do([]c13Req{{V6: v6, Ident: 0x1234, Seq: 7, Len: l, Fill: 1, Flip: bit + 1}}, false)
			}
			// the same request undamaged is answered (the oracle above is not vacuous)
			do([]c13Req{{V6: v6, Ident: 0x1234, Seq: 7, Len: l, Fill: 1}}, false)
		}
		for t := 1; t < 8; t++ {
			do([]c13Req{{V6: v6, Ident: 0x1234, Seq: 7, Len: 8, Trunc: t}}, false)
		}
	case "burst":
		for _, k := range []int{1, 9, 10, 11, 14} {
			var reqs []c13Req
			for i := 0; i < k; i++ {
				reqs = append(reqs, c13Req{V6: v6, Ident: 99, Seq: uint16(i), Len: 16 + i})
			}
			do(reqs, true)
			// identical requests: at most one reply each
			var same []c13Req
			for i := 0; i < k; i++ {
				same = append(same, c13Req{V6: v6, Ident: 5, Seq: 5, Len: 8})
			}
			do(same, true)
		}
	case "frag":
		if !v6 {
			// a request whose reply cannot be sent (reassembled ICMP message of 65536 bytes: the
			// reply would exceed an IP packet) must not stop later requests from being answered
			big := c13Req{Ident: 9, Seq: 1, Len: 65528, Cuts: []int{65512}, Order: []int{0, 1}, NoReplyOK: true}
			do([]c13Req{big, {Ident: 9, Seq: 2, Len: 16}, {Ident: 9, Seq: 3, Len: 40}}, false)
			do([]c13Req{{Ident: 9, Seq: 4, Len: 16}}, false)
		}
		for _, total := range []int{2200, 3700} {
			msgLen := total + 8
			var cutsets [][]int
			step := 8
			if tier != "thorough" {
				step = 56
			}
			for a := 8; a < msgLen; a += step {
				if a > 1480 || msgLen-a > 1480*2 {
					continue
				}
				if msgLen-a <= 1480 {
					cutsets = append(cutsets, []int{a})
				}
				for b := a + 8; b < msgLen; b += step * 3 {
					if b-a <= 1480 && msgLen-b <= 1480 {
						cutsets = append(cutsets, []int{a, b})
					}
				}
			}
			for _, cs := range cutsets {
				for _, o := range perms(len(cs) + 1) {
					do([]c13Req{{V6: v6, Ident: 3, Seq: uint16(total), Len: total, Cuts: cs, Order: o}}, false)
				}
			}
		}
	}
	r.States = r.Execs + 1
	r.Outcomes = []uint64{engine.Hash(job, len(r.Violations))}
	r.Recycle = runtime.NumGoroutine() > 100
	return r
}

func c13Replay(rp json.RawMessage) *engine.Violation {
	var p struct {
		Reqs  []c13Req
		Burst bool
	}
	if json.Unmarshal(rp, &p) != nil {
		return nil
	}
	w := c13NewWorld()
	defer w.close()
	f := w.round(p.Reqs, p.Burst)
	if f == nil {
		return nil
	}
	return &engine.Violation{Property: "C13", Kind: "echo", Key: f.key, Detail: f.msg}
}
