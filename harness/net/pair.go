package main

import (
	"bytes"
	"fmt"
	"sort"
	"strconv"
	"strings"
	"time"

	tcpip "github.com/brewlin/net-protocol/protocol"
	"github.com/brewlin/net-protocol/protocol/network/ipv4"
	"github.com/brewlin/net-protocol/protocol/network/ipv6"
	"github.com/brewlin/net-protocol/protocol/transport/tcp"

	"verif/engine"
	"verif/shim/vtime"
)

// ---------------------------------------------------------------------------------
// Two real stacks A <-> B over the scripted wire: the scenario behind C01(a), C02 and
// the wrap-adjacent half of C14. The environment chooses, step by step, what happens
// next; choice 0 is always the default answer.
// ---------------------------------------------------------------------------------

var (
	addrA4 = tcpip.Address("\x0a\x00\x00\x01")
	addrB4 = tcpip.Address("\x0a\x00\x00\x02")
	addrA6 = tcpip.Address("\xfd\x00\x00\x00\x00\x00\x00\x00\x00\x00\x00\x00\x00\x00\x00\x01")
	addrB6 = tcpip.Address("\xfd\x00\x00\x00\x00\x00\x00\x00\x00\x00\x00\x00\x00\x00\x00\x02")
)

// PairCfg is parsed from a job string "k=v,k=v,...".
type PairCfg struct {
	V6      bool
	SACK    bool
	Cubic   bool
	MTU     int
	RcvBuf  int // receive buffer of both endpoints (0 = default 1 MiB)
	SndBuf  int // send buffer of both endpoints (0 = default)
	ISSA    uint32
	ISSB    uint32
	AW      []int  // chunk sizes written by A
	BW      []int  // chunk sizes written by B
	Read    string // eager | end | stall (B reads only after A's window closed, then drains)
	Close   string // none | a-shut | both-shut | half (A shuts, B then writes BW and shuts) | a-close | close-unread
	Devs    string // subset of letters: d drop, u dup, f defer, r replay, a app-first, t timer-first
	Budget  int
	Oracles string // s stream(C01) c complete/close/stall(C02) m monitor(C06)
}

func parseInts(s string) []int {
	var r []int
	for _, f := range strings.Split(s, "+") {
		if f == "" {
			continue
		}
		if i := strings.Index(f, "x"); i > 0 {
			n, _ := strconv.Atoi(f[:i])
			v, _ := strconv.Atoi(f[i+1:])
			for k := 0; k < n; k++ {
				r = append(r, v)
			}
			continue
		}
		v, _ := strconv.Atoi(f)
		r = append(r, v)
	}
	return r
}

func ParsePairCfg(job string) PairCfg {
	c := PairCfg{MTU: 1500, ISSA: 1000, ISSB: 5000, Read: "eager", Close: "none", Devs: "dufrat", Budget: 1, Oracles: "s"}
	for _, kv := range strings.Split(job, ",") {
		p := strings.SplitN(kv, "=", 2)
		if len(p) != 2 {
			continue
		}
		k, v := p[0], p[1]
		switch k {
		case "v6":
			c.V6 = v == "1"
		case "sack":
			c.SACK = v == "1"
		case "cc":
			c.Cubic = v == "cubic"
		case "mtu":
			c.MTU, _ = strconv.Atoi(v)
		case "rcvbuf":
			c.RcvBuf, _ = strconv.Atoi(v)
		case "sndbuf":
			c.SndBuf, _ = strconv.Atoi(v)
		case "issa":
			n, _ := strconv.ParseUint(v, 10, 32)
			c.ISSA = uint32(n)
		case "issb":
			n, _ := strconv.ParseUint(v, 10, 32)
			c.ISSB = uint32(n)
		case "aw":
			c.AW = parseInts(v)
		case "bw":
			c.BW = parseInts(v)
		case "read":
			c.Read = v
		case "close":
			c.Close = v
		case "devs":
			c.Devs = v
		case "b":
			c.Budget, _ = strconv.Atoi(v)
		case "or":
			c.Oracles = v
		}
	}
	return c
}

type side struct {
	name         string
	node         *Node
	sock         tcpip.Endpoint
	chunks       [][]byte // still to write
	wrote        []byte   // bytes accepted by Write
	got          []byte   // bytes returned by Read
	eof          bool     // Read returned ErrClosedForReceive
	readErr      string
	writeErr     string
	shut         bool // Shutdown(write) called
	closed       bool
	dataAfterEOF bool
}

type pairRun struct {
	cfg            PairCfg
	w              *World
	a, b           side
	listener       tcpip.Endpoint
	mon            *Monitor
	ch             *engine.Chooser
	trace          []string
	viol           *engine.Violation
	dropped        int
	earlyTimer     bool
	lastData       *Frame
	states         []uint64
	checked        int // frames already seen by the monitor
	stalled        bool
	connectStarted bool
	stallDrain     bool
	caps           []string
	issB           uint32
	knowB          bool
}

func pattern(seed byte, n, off int) []byte {
	b := make([]byte, n)
	for i := range b {
		x := off + i
		b[i] = seed + byte(x) + byte(x>>8)*7
	}
	return b
}

func (r *pairRun) fail(prop, kind, key, f string, a ...interface{}) {
	if r.viol == nil {
		r.viol = &engine.Violation{Property: prop, Kind: kind, Key: key, Detail: fmt.Sprintf(f, a...)}
	}
}

func (r *pairRun) has(o byte) bool { return strings.IndexByte(r.cfg.Oracles, o) >= 0 }
func (r *pairRun) dev(o byte) bool { return strings.IndexByte(r.cfg.Devs, o) >= 0 }

func newPairRun(cfg PairCfg, prefix []int) *pairRun {
	r := &pairRun{cfg: cfg, w: NewWorld(), mon: NewMonitor(), ch: engine.NewChooser(prefix)}
	// reads of 4 random bytes, in order: B listener ts offset, A endpoint ts offset, A ISS,
	// B accepted endpoint ts offset (then cycling). B's initial sequence number is a SYN
	// cookie: a deterministic function of the ports, the nonce and A's ISS.
	ScriptRand(0x22222222, 0x11111111, cfg.ISSA, 0x33333333, cfg.ISSB)
	ca := NodeCfg{Name: "A", V4: []tcpip.Address{addrA4}, V6: []tcpip.Address{addrA6}, MTU: uint32(cfg.MTU)}
	cb := NodeCfg{Name: "B", V4: []tcpip.Address{addrB4}, V6: []tcpip.Address{addrB6}, MTU: uint32(cfg.MTU)}
	r.a = side{name: "A", node: r.w.AddNode(ca)}
	r.b = side{name: "B", node: r.w.AddNode(cb)}
	for _, n := range []*Node{r.a.node, r.b.node} {
		if cfg.SACK {
			must(n.S.SetTransportProtocolOption(tcp.ProtocolNumber, tcp.SACKEnabled(true)))
		}
		if cfg.Cubic {
			must(n.S.SetTransportProtocolOption(tcp.ProtocolNumber, tcp.CongestionControlOption("cubic")))
		}
		if cfg.RcvBuf > 0 {
			must(n.S.SetTransportProtocolOption(tcp.ProtocolNumber, tcp.ReceiveBufferSizeOption{Min: 1, Default: cfg.RcvBuf, Max: cfg.RcvBuf * 4}))
		}
		if cfg.SndBuf > 0 {
			must(n.S.SetTransportProtocolOption(tcp.ProtocolNumber, tcp.SendBufferSizeOption{Min: 1, Default: cfg.SndBuf, Max: cfg.SndBuf * 4}))
		}
	}
	off := 0
	for _, n := range cfg.AW {
		r.a.chunks = append(r.a.chunks, pattern(0x10, n, off))
		off += n
	}
	off = 0
	for _, n := range cfg.BW {
		r.b.chunks = append(r.b.chunks, pattern(0x90, n, off))
		off += n
	}
	netp := tcpip.NetworkProtocolNumber(ipv4.ProtocolNumber)
	if cfg.V6 {
		netp = ipv6.ProtocolNumber
	}
	ls := r.b.node.NewSock(tcp.ProtocolNumber, netp)
	must(ls.EP.Bind(tcpip.FullAddress{Port: 80}, nil))
	must(ls.EP.Listen(4))
	r.listener = ls.EP
	r.a.sock = r.a.node.NewSock(tcp.ProtocolNumber, netp).EP
	r.w.Settle()
	return r
}

type action struct {
	name string
	cost int
	do   func()
}

func (r *pairRun) peerOf(n *Node) *Node {
	if n == r.a.node {
		return r.b.node
	}
	return r.a.node
}

func (r *pairRun) deliver(f *Frame) {
	if d, err := DecodeFrame(f); err == nil && d.TCP != nil && len(d.TCP.Payload) > 0 {
		r.lastData = f
	}
	r.w.Deliver(f, r.peerOf(f.From), 1)
}

// appCalls returns the enabled application calls in canonical order.
func (r *pairRun) appCalls() []action {
	var acts []action
	cfg := r.cfg
	if !r.connectStarted {
		acts = append(acts, action{name: "A.connect", do: func() {
			r.connectStarted = true
			dst := addrB4
			if cfg.V6 {
				dst = addrB6
			}
			err := r.a.sock.Connect(tcpip.FullAddress{Addr: dst, Port: 80})
			if err != tcpip.ErrConnectStarted && err != nil {
				r.a.writeErr = "connect: " + err.String()
			}
		}})
		return acts
	}
	if r.b.sock == nil {
		if (&Sock{EP: r.listener}).Readable() {
			acts = append(acts, action{name: "B.accept", do: func() {
				ep, _, err := r.listener.Accept()
				if err == nil {
					r.b.sock = ep
				}
			}})
		}
	}
	for _, s := range []*side{&r.a, &r.b} {
		s := s
		if s.sock == nil || s.closed {
			continue
		}
		sk := &Sock{EP: s.sock}
		st := tcp.VerifDump(s.sock)
		connected := st.State == 4
		// writes
		canWrite := connected && len(s.chunks) > 0 && !s.shut && sk.Writable() && s.writeErr == ""
		// "b-first": a protocol in which the accepting side speaks first; A stays silent (no
		// write, no shutdown) until it has read everything B had to say
		bTotal := 0
		for _, n := range cfg.BW {
			bTotal += n
		}
		aSilent := cfg.Close == "b-first" && s == &r.a && len(r.a.got) < bTotal
		if aSilent {
			canWrite = false
		}
		if s == &r.b && cfg.Close == "half" && !r.a.shut {
			canWrite = false // B answers only after it has seen A's half-close request being issued
		}
		if s == &r.b && cfg.Close == "half" && !r.b.eof {
			canWrite = false
		}
		if canWrite {
			acts = append(acts, action{name: fmt.Sprintf("%s.write(%d)", s.name, len(s.chunks[0])), do: func() {
				c := s.chunks[0]
				n, _, err := s.sock.Write(tcpip.SlicePayload(append([]byte(nil), c...)), tcpip.WriteOptions{})
				s.wrote = append(s.wrote, c[:n]...)
				if int(n) == len(c) {
					s.chunks = s.chunks[1:]
				} else {
					s.chunks[0] = c[n:]
				}
				if err != nil && err != tcpip.ErrWouldBlock {
					s.writeErr = err.String()
				}
			}})
		}
		// reads
		readable := (connected || st.State == 5 || st.State == 6) && sk.Readable() && !s.eof && s.readErr == ""
		allow := true
		switch cfg.Read {
		case "end":
			// only once the peer has nothing more to write and the wire is idle
			p := r.other(s)
			allow = len(p.chunks) == 0 && len(r.w.InFlight()) == 0
		case "stall":
			if s == &r.b {
				allow = r.stallDrain
			}
		case "stall-a": // the same with the roles swapped: A is the application that reads late
			if s == &r.a {
				allow = r.stallDrain
			}
		}
		if cfg.Close == "close-unread" && s == &r.b {
			allow = false
		}
		if readable && allow {
			acts = append(acts, action{name: s.name + ".read", do: func() {
				v, _, err := s.sock.Read(nil)
				switch err {
				case nil:
					if s.eof {
						s.dataAfterEOF = true
					}
					s.got = append(s.got, v...)
				case tcpip.ErrWouldBlock:
				case tcpip.ErrClosedForReceive:
					s.eof = true
				default:
					s.readErr = err.String()
				}
			}})
		}
		// shutdown / close
		doneWriting := len(s.chunks) == 0 && connected && !s.shut
		switch {
		case cfg.Close == "a-shut" && s == &r.a && doneWriting,
			cfg.Close == "both-shut" && doneWriting,
			cfg.Close == "b-first" && doneWriting && !aSilent,
			cfg.Close == "half" && s == &r.a && doneWriting,
			cfg.Close == "half" && s == &r.b && doneWriting && r.b.eof:
			acts = append(acts, action{name: s.name + ".shutdown(write)", do: func() {
				s.shut = true
				if err := s.sock.Shutdown(tcpip.ShutdownWrite); err != nil {
					s.writeErr = "shutdown: " + err.String()
				}
			}})
		case (cfg.Close == "a-close" || cfg.Close == "close-unread") && s == &r.a && doneWriting:
			acts = append(acts, action{name: "A.close", do: func() {
				s.shut, s.closed = true, true
				s.sock.Close()
			}})
		}
	}
	return acts
}

func (r *pairRun) other(s *side) *side {
	if s == &r.a {
		return &r.b
	}
	return &r.a
}

func (r *pairRun) menu() []action {
	var m []action
	fl := r.w.InFlight()
	apps := r.appCalls()
	timers := vtime.Pending()
	horizon := vtime.Elapsed() > 15*time.Minute
	fire := action{name: "timer", do: func() { vtime.FireNext() }}
	if len(timers) > 0 {
		fire.name = fmt.Sprintf("timer(+%v)", timers[0])
	}
	switch {
	case len(fl) > 0:
		f := fl[0]
		m = append(m, action{name: "deliver " + r.frameName(f), do: func() { r.w.Take(f); r.deliver(f) }})
		if r.dev('d') {
			m = append(m, action{name: "drop " + r.frameName(f), cost: 1, do: func() { r.w.Take(f); r.dropped++ }})
		}
		if r.dev('u') {
			m = append(m, action{name: "dup " + r.frameName(f), cost: 1, do: func() {
				r.w.Take(f)
				r.deliver(f)
				c := *f
				r.w.mu.Lock()
				r.w.inflight = append(r.w.inflight, &c)
				r.w.mu.Unlock()
			}})
		}
		if r.dev('f') {
			for _, g := range fl[1:] {
				if g.From == f.From {
					g := g
					m = append(m, action{name: "defer " + r.frameName(f) + " behind " + r.frameName(g), cost: 1, do: func() { r.w.Take(g); r.deliver(g) }})
					break
				}
			}
		}
		if r.dev('a') && len(apps) > 0 {
			a := apps[0]
			m = append(m, action{name: "app-first " + a.name, cost: 1, do: a.do})
		}
		if r.dev('t') && len(timers) > 0 && !horizon {
			m = append(m, action{name: "early " + fire.name, cost: 1, do: func() { r.earlyTimer = true; vtime.FireNext() }})
		}
		if r.dev('r') && r.lastData != nil {
			ld := r.lastData
			m = append(m, action{name: "replay " + r.frameName(ld), cost: 1, do: func() { r.deliver(ld) }})
		}
	case len(apps) > 0:
		m = append(m, apps[0])
		if r.dev('a') {
			for _, a := range apps[1:] {
				if a.name[0] != apps[0].name[0] { // first call of the other side
					b := a
					b.cost = 1
					b.name = "other-side-first " + a.name
					m = append(m, b)
					break
				}
			}
		}
		if r.dev('t') && len(timers) > 0 && !horizon {
			m = append(m, action{name: "early " + fire.name, cost: 1, do: func() { r.earlyTimer = true; vtime.FireNext() }})
		}
	case (r.cfg.Read == "stall" || r.cfg.Read == "stall-a") && !r.stallDrain && r.b.sock != nil:
		// nothing can move any more with the stalled application not reading: it now drains
		m = append(m, action{name: "stalled-reader.start-draining", do: func() { r.stallDrain = true }})
	case len(timers) > 0 && !horizon:
		m = append(m, fire)
		if r.dev('r') && r.lastData != nil {
			ld := r.lastData
			m = append(m, action{name: "replay " + r.frameName(ld), cost: 1, do: func() { r.deliver(ld) }})
		}
	}
	return m
}

func (r *pairRun) frameName(f *Frame) string {
	d, err := DecodeFrame(f)
	if err != nil || d.TCP == nil {
		return fmt.Sprintf("%s#%d", f.From.Name, f.Seq)
	}
	t := d.TCP
	fl := ""
	for i, n := range []string{"F", "S", "R", "P", "A"} {
		if t.Flags&(1<<uint(i)) != 0 {
			fl += n
		}
	}
	if f.From == r.b.node && t.Flags&2 != 0 {
		r.issB, r.knowB = t.Seq, true
	}
	iss := r.cfg.ISSA
	irs := r.issB
	if f.From == r.b.node {
		iss, irs = irs, iss
	}
	return fmt.Sprintf("%s#%d[%s seq+%d ack+%d len%d win%d]", f.From.Name, f.Seq, fl, t.Seq-iss, t.Ack-irs, len(t.Payload), t.Window)
}

// afterStep runs the per-step oracles.
func (r *pairRun) afterStep() {
	// frame monitor on everything emitted since the last step
	r.w.mu.Lock()
	frames := r.w.All[r.checked:]
	r.checked = len(r.w.All)
	r.w.mu.Unlock()
	for _, f := range frames {
		local := []tcpip.Address{addrA4, addrA6}
		if f.From == r.b.node {
			local = []tcpip.Address{addrB4, addrB6}
		}
		if _, err := r.mon.Check(f, local); err != nil && r.has('m') {
			r.fail("C06", "malformed-frame", "frame:"+keyOf(err), "frame #%d emitted by %s is not well-formed: %v\n  bytes: %x", f.Seq, f.From.Name, err, f.Data)
		}
	}
	if r.has('m') {
		if err := r.w.AliasErr(); err != nil {
			r.fail("C06", "frame-modified-after-send", "frame-modified-after-send", "%v", err)
		}
	}
	if r.has('s') {
		for _, p := range [][2]*side{{&r.a, &r.b}, {&r.b, &r.a}} {
			rd, wr := p[0], p[1]
			if !bytes.HasPrefix(wr.wrote, rd.got) {
				i := 0
				for i < len(rd.got) && i < len(wr.wrote) && rd.got[i] == wr.wrote[i] {
					i++
				}
				r.fail("C01", "stream-mismatch", "stream-mismatch", "bytes read on %s are not a prefix of the bytes written on %s: first difference at stream offset %d (read %d bytes, written %d)", rd.name, wr.name, i, len(rd.got), len(wr.wrote))
			}
			if rd.dataAfterEOF {
				r.fail("C02", "data-after-eof", "data-after-eof", "%s read data after end-of-stream", rd.name)
			}
		}
	}
	// coverage state hash
	var sa, sb tcp.VerifState
	sa = tcp.VerifDump(r.a.sock)
	if r.b.sock != nil {
		sb = tcp.VerifDump(r.b.sock)
	}
	r.states = append(r.states, engine.Hash(sa, sb, len(r.w.InFlight()), len(r.a.chunks), len(r.b.chunks), len(r.a.got), len(r.b.got), vtime.Pending()))
}

func keyOf(err error) string {
	s := err.Error()
	// strip numbers so that one defect maps to one key
	var b strings.Builder
	for _, c := range s {
		if c >= '0' && c <= '9' {
			continue
		}
		b.WriteRune(c)
	}
	k := b.String()
	if len(k) > 60 {
		k = k[:60]
	}
	return k
}

// atEnd runs the end-of-execution oracles (C02).
func (r *pairRun) atEnd(stepCap bool) {
	if !r.has('c') {
		return
	}
	if stepCap {
		return
	}
	sa := tcp.VerifDump(r.a.sock)
	var sb tcp.VerifState
	if r.b.sock != nil {
		sb = tcp.VerifDump(r.b.sock)
	}
	errored := func(s tcp.VerifState, sd *side) bool {
		return s.State == 6 || sd.readErr != "" || sd.writeErr != ""
	}
	// (liveness) idle with work: nothing in flight, no timer, no app call possible, yet some
	// endpoint still has unsent or unacknowledged data / FIN and is not in the error state
	for _, p := range []struct {
		s  tcp.VerifState
		sd *side
	}{{sa, &r.a}, {sb, &r.b}} {
		s := p.s
		if !s.IsTCP || !s.HasSnd || s.State == 6 || s.State == 5 && !s.WorkerRunning {
			continue
		}
		pendingData := s.SndUna != s.SndNxt || s.SndNxt != s.SndNxtList || s.SndQueueLen > 0
		if pendingData && !errored(s, p.sd) {
			key := "stall"
			finOnly := s.SndClosed && s.SndUna == s.SndNxt && s.SndNxtList-s.SndNxt == 1 && s.SndQueueLen == 0
			if s.SndWnd == 0 && !finOnly && r.dropped > 0 {
				key = "stall-zero-window" // D6: no persist timer (a window update was lost and nothing probes the closed window)
			} else if finOnly {
				key = "stall-fin-withheld" // everything is acknowledged, only the FIN is left: it needs no window
			}
			r.fail("C02", "idle-with-work", key, "the world is idle (nothing in flight, no timer pending, no application call possible) but endpoint %s still has work: sndUna=%d sndNxt=%d queued-to=%d peer window=%d timer enabled=%v state=%d; dropped frames=%d early timers=%v",
				p.sd.name, s.SndUna, s.SndNxt, s.SndNxtList, s.SndWnd, s.TimerEnabled, s.State, r.dropped, r.earlyTimer)
			return
		}
	}
	// (handshake completes) A is connected and not failed, at most two frames were lost, yet the
	// accepting side never got a connection: the stack did not answer the retransmitted SYN-ACK
	if r.b.sock == nil && sa.State == 4 && !errored(sa, &r.a) && r.dropped <= 2 && r.has('c') {
		r.fail("C02", "half-open", "peer-never-established", "A considers the connection established (state %d, no error) but the listener never handed out a connection although only %d frame(s) were dropped: the handshake was left half-open", sa.State, r.dropped)
		return
	}
	// (completeness) everything written before shutdown is delivered unless an endpoint failed
	anyErr := errored(sa, &r.a) || errored(sb, &r.b) || r.b.sock == nil
	if !anyErr && r.cfg.Close != "close-unread" && r.cfg.Close != "a-close" {
		for _, p := range [][2]*side{{&r.a, &r.b}, {&r.b, &r.a}} {
			rd, wr := p[0], p[1]
			if len(wr.chunks) == 0 && !bytes.Equal(rd.got, wr.wrote) && !((r.cfg.Read == "stall" || r.cfg.Read == "stall-a") && !r.stallDrain) {
				r.fail("C02", "incomplete", "incomplete", "%s wrote %d bytes, all accepted, but %s has read only %d at the end of the run (no endpoint reports an error)", wr.name, len(wr.wrote), rd.name, len(rd.got))
			}
		}
		// end-of-stream after shutdown
		if r.a.shut && !r.b.eof && r.b.sock != nil && r.cfg.Read != "stall" {
			r.fail("C02", "no-eof", "no-eof", "A shut down its write side and everything was delivered, but B never saw end-of-stream")
		}
		if r.b.shut && !r.a.eof {
			r.fail("C02", "no-eof", "no-eof", "B shut down its write side but A never saw end-of-stream")
		}
	}
	// clean close: no frame lost and no timer fired early => both closed without error
	if r.dropped == 0 && !r.earlyTimer && (r.cfg.Close == "both-shut" || r.cfg.Close == "half") && r.b.sock != nil {
		for _, p := range []struct {
			s  tcp.VerifState
			sd *side
		}{{sa, &r.a}, {sb, &r.b}} {
			if p.s.State != 5 || p.sd.readErr != "" || p.sd.writeErr != "" {
				r.fail("C02", "unclean-close", "unclean-close", "no packet was lost, both sides shut down, but endpoint %s ends in state %d (5=closed) readErr=%q writeErr=%q hardError=%q", p.sd.name, p.s.State, p.sd.readErr, p.sd.writeErr, p.s.HardError)
			}
		}
	}
}

func (r *pairRun) teardown() {
	for _, ep := range []tcpip.Endpoint{r.a.sock, r.b.sock, r.listener} {
		if ep != nil {
			ep.Close()
		}
	}
	r.w.Settle()
	for i := 0; i < 50 && vtime.FireNext(); i++ {
		r.w.Settle()
	}
	for _, n := range r.w.Nodes {
		for _, a := range []tcpip.Address{addrA4, addrB4, addrA6, addrB6} {
			n.S.RemoveAddress(1, a)
		}
	}
	r.w.Settle()
}

// RunPair executes one environment history of the two-stack scenario.
func RunPair(cfg PairCfg, prefix []int) (res *engine.EnvRun) {
	r := newPairRun(cfg, prefix)
	res = &engine.EnvRun{C: r.ch}
	defer func() {
		if e := recover(); e != nil {
			r.viol = &engine.Violation{Property: "C07", Kind: "panic", Key: "panic:" + keyOf(fmt.Errorf("%v", e)), Detail: fmt.Sprintf("panic in the stack during %v: %v", last(r.trace), e)}
			res.Violation = r.viol
		}
	}()
	const stepCap = 3000
	capped := false
	for {
		if r.viol != nil {
			break
		}
		m := r.menu()
		if len(m) == 0 {
			break
		}
		if res.Steps >= stepCap {
			capped = true
			r.caps = append(r.caps, "step cap 3000 reached")
			break
		}
		costs := make([]int, len(m))
		for i := range m {
			costs[i] = m[i].cost
		}
		c := r.ch.Choose(len(m), costs)
		r.trace = append(r.trace, m[c].name)
		m[c].do()
		r.w.Settle()
		res.Steps++
		r.afterStep()
	}
	if r.viol == nil {
		r.atEnd(capped)
	}
	res.Violation = r.viol
	res.Trace = r.trace
	res.States = r.states
	res.Caps = r.caps
	sum := []interface{}{len(r.a.got), len(r.b.got), r.a.eof, r.b.eof, r.a.readErr, r.b.readErr, r.a.writeErr, r.b.writeErr, len(r.w.All)}
	res.Outcome = engine.Hash(sum...)
	r.teardown()
	return res
}

func last(s []string) string {
	if len(s) == 0 {
		return "(setup)"
	}
	return s[len(s)-1]
}

func sortedKeys(m map[string]int) []string {
	var k []string
	for x := range m {
		k = append(k, x)
	}
	sort.Strings(k)
	return k
}
