package main

import (
	"encoding/json"
	"fmt"
	"strings"
	"time"

	"github.com/brewlin/net-protocol/pkg/seqnum"

	"verif/engine"
)

// C14: sequence-space arithmetic, exhaustive enumeration: for each base point every one
// of the 2^32 second operands, against the definition on 64-bit distances.

func init() {
	engine.Register(&engine.Check{
		ID:        "C14",
		Technique: "exhaustive enumeration: all 2^32 second operands from each base point, every seqnum function compared with the serial-number definition computed on 64-bit distances; stateless model checking (deviation-bounded DFS, raw peer) of the TCP users of the arithmetic with wrap-adjacent initial sequence numbers",
		Rule:      "for each base b in the base set and every w in [0,2^32): LessThan/LessThanEq both ways, Add/Size/UpdateForward inverse laws, InRange/InWindow for each size in the size set (value moving and range moving), Overlap for each pair of window sizes in [1,2^30]; distinct = distinct operand tuple; non-trivial = all",
		Assumes: []string{
			"Overlap is checked for non-empty windows no larger than 2^30 (the largest TCP window, RFC 7323); with an empty window or a combined span >= 2^31 serial arithmetic cannot order the edges (stated up front in DESIGN.md §5 C14)",
			"the TCP half re-runs the stream and window oracles of C01/C04 against the raw peer with both initial sequence numbers placed 1..70 below 2^31 and 2^32 (deviation budget 1, thorough 2): wrap inside the handshake, inside a segment, between segments, with out-of-order and overlapping data pending",
		},
		Jobs:      c14Jobs,
		Run:       c14Run,
		Replay:    c14Replay,
		NeedRepro: true,
	})
}

var c14BasesQuick = []uint32{0, 1 << 31, 0xffffffff}
var c14BasesThorough = []uint32{0, 1, 2, 1<<31 - 2, 1<<31 - 1, 1 << 31, 1<<31 + 1, 0xfffffffe, 0xffffffff, 0x12345678, 0xedcba987}
var c14SizesQuick = []uint32{0, 1, 0xffff, 1<<31 - 1, 1 << 31, 0xffffffff}
var c14SizesThorough = []uint32{0, 1, 2, 0xffff, 1 << 30, 1<<31 - 1, 1 << 31, 0xffffffff}
var c14WinQuick = []uint32{1, 1460, 1 << 30}
var c14WinThorough = []uint32{1, 2, 1460, 0xffff, 1 << 30}

const c14Chunks = 16

func c14Jobs(tier string) []string {
	bases := c14BasesQuick
	if tier == "thorough" {
		bases = c14BasesThorough
	}
	var jobs []string
	for _, b := range bases {
		for c := 0; c < c14Chunks; c++ {
			jobs = append(jobs, fmt.Sprintf("%d:%d", b, c))
		}
	}
	jobs = append(jobs, c14TCPJobs(tier)...)
	// far from the last loss event (see c14far.go)
	jobs = append(jobs, "far:2147483648", "farrx:134217728")
	if tier == "thorough" {
		jobs = append(jobs, "far:1073741824", "far:3221225472", "far:4296015872", "farrx:4362076160")
	}
	return jobs
}

// The TCP half of the property: the users of the arithmetic. The stream / window / handshake
// oracles of C01, C03 and C04 are re-run with initial sequence numbers placed so that the
// stack's and the peer's sequence spaces cross 2^31 and 2^32 at every interesting place: in
// the handshake, in the first segment, in the middle of a segment, between two segments, and
// while out-of-order / overlapping / re-segmented data is pending.
func c14TCPJobs(tier string) []string {
	var jobs []string
	add := func(s string, shards int) {
		for i := 0; i < shards; i++ {
			jobs = append(jobs, fmt.Sprintf("raw:%d/%d:%s", i, shards, s))
		}
	}
	// wrap points relative to ISS+1 (first data byte): 0, inside segment 1, at the boundary
	// of segments 1/2, inside segment 2, at the boundary of segments 2/3, beyond everything sent
	offs := []uint32{1, 5, 21, 30, 41, 50, 70}
	if tier == "thorough" {
		offs = []uint32{1, 2, 5, 20, 21, 22, 30, 41, 50, 70}
	}
	for _, edge := range []uint64{1 << 32, 1 << 31} {
		for _, o := range offs {
			piss := uint32(edge - uint64(o))
			iss := uint32(edge - uint64(o) - 3)
			b := 1
			add(fmt.Sprintf("or=swc,devs=kwhlo,mss=24,w=72,pd=3x20,iss=%d,piss=%d,b=%d", iss, piss, b), 2)
			// several writes below the MSS: the wrap falls inside one write, the next starts after it
			add(fmt.Sprintf("or=swc,devs=kwhl,mss=536,w=20+100+30,pd=20,iss=%d,piss=%d,b=1", iss, piss), 1)
			// the receiver's SACK blocks (merging of waiting segments) around the wrap
			add(fmt.Sprintf("or=swc,devs=oe,mss=24,w=24,pd=4x20,psack=1,sack=1,iss=%d,piss=%d,b=1", iss, piss), 1)
			if tier == "thorough" {
				add(fmt.Sprintf("or=swc,devs=kwhloe,mss=24,w=72,pd=3x20,psack=1,sack=1,ts=1,iss=%d,piss=%d,b=1", iss, piss), 2)
				add(fmt.Sprintf("or=swc,devs=kwhlo,mss=24,w=48,pd=2x20,iss=%d,piss=%d,b=2", iss, piss), 16)
			}
		}
	}
	// the receiver's right edge (rcvNxt + free buffer) starts below the wrap and crosses it while
	// data arrives: small receive buffer, peer data longer than the distance to the wrap
	for _, edge := range []uint64{1 << 32, 1 << 31} {
		for _, dist := range []uint64{250, 500, 900} {
			add(fmt.Sprintf("or=swc,devs=ko,mss=100,rcvbuf=200,pd=12x100,read=eager,w=10,iss=%d,piss=%d,b=1", uint32(edge-dist-7), uint32(edge-dist)), 1)
		}
	}
	// loss recovery with the stack's sequence numbers in the upper half of the space (and just
	// below either wrap): duplicate-ACK counting and the NewReno recover marker compare
	// against SND.UNA there, long before anything wraps
	for _, iss := range []uint32{1<<31 + 5, 3 << 30, 1<<32 - 2000, 1<<31 - 2000, 1<<32 - 300} {
		add(fmt.Sprintf("or=swcr,devs=lhk,mss=100,w=6x100,iss=%d,b=1", iss), 1)
	}
	return jobs
}

func prec(v, w uint32) bool {
	d := (uint64(w) + 1<<32 - uint64(v)) & 0xffffffff
	return d >= 1 && d <= 1<<31-1
}

func inRange(v, a, b uint32) bool {
	dv := (uint64(v) + 1<<32 - uint64(a)) & 0xffffffff
	db := (uint64(b) + 1<<32 - uint64(a)) & 0xffffffff
	return dv < db
}

func overlapRef(a, bs, x, ys uint32) bool {
	d1 := (uint64(x) + 1<<32 - uint64(a)) & 0xffffffff
	d2 := (uint64(a) + 1<<32 - uint64(x)) & 0xffffffff
	return d1 < uint64(bs) || d2 < uint64(ys)
}

type c14Fail struct {
	Fn         string
	A, B, C, D uint32
	Got, Want  bool
}

func c14CheckOne(b, w uint32, sizes, wins []uint32, fail func(c14Fail)) int64 {
	var n int64
	bv, wv := seqnum.Value(b), seqnum.Value(w)
	if g, e := bv.LessThan(wv), prec(b, w); g != e {
		fail(c14Fail{"LessThan", b, w, 0, 0, g, e})
	}
	if g, e := wv.LessThan(bv), prec(w, b); g != e {
		fail(c14Fail{"LessThan", w, b, 0, 0, g, e})
	}
	if g, e := bv.LessThanEq(wv), b == w || prec(b, w); g != e {
		fail(c14Fail{"LessThanEq", b, w, 0, 0, g, e})
	}
	if g, e := wv.LessThanEq(bv), b == w || prec(w, b); g != e {
		fail(c14Fail{"LessThanEq", w, b, 0, 0, g, e})
	}
	sz := bv.Size(wv)
	if bv.Add(sz) != wv {
		fail(c14Fail{"Add(Size)", b, w, uint32(sz), 0, false, true})
	}
	x := bv
	x.UpdateForward(sz)
	if x != wv || uint32(sz) != w-b {
		fail(c14Fail{"UpdateForward/Size", b, w, uint32(sz), 0, false, true})
	}
	n += 6
	for _, s := range sizes {
		// value moving, range fixed at the base
		if g, e := wv.InRange(bv, bv.Add(seqnum.Size(s))), inRange(w, b, b+s); g != e {
			fail(c14Fail{"InRange", w, b, b + s, 0, g, e})
		}
		if g, e := wv.InWindow(bv, seqnum.Size(s)), inRange(w, b, b+s); g != e {
			fail(c14Fail{"InWindow", w, b, s, 0, g, e})
		}
		// value fixed at the base, range moving
		if g, e := bv.InRange(wv, wv.Add(seqnum.Size(s))), inRange(b, w, w+s); g != e {
			fail(c14Fail{"InRange", b, w, w + s, 0, g, e})
		}
		n += 3
	}
	for _, s1 := range wins {
		for _, s2 := range wins {
			if g, e := seqnum.Overlap(bv, seqnum.Size(s1), wv, seqnum.Size(s2)), overlapRef(b, s1, w, s2); g != e {
				fail(c14Fail{"Overlap", b, s1, w, s2, g, e})
			}
			n++
		}
	}
	return n
}

func c14Run(job, tier string, deadline time.Time) *engine.Result {
	r := &engine.Result{Exhaustive: true}
	if strings.HasPrefix(job, "raw:") {
		rawRunJob(r, job, deadline)
		for i := range r.Violations {
			v := &r.Violations[i]
			v.Detail = fmt.Sprintf("with sequence numbers crossing 2^31 / 2^32 (%s): [%s] %s", job, v.Property, v.Detail)
			v.Key = "tcp-wrap:" + v.Key
			v.Property = "C14"
		}
		return r
	}
	if strings.HasPrefix(job, "farrx:") {
		var n uint64
		fmt.Sscanf(job, "farrx:%d", &n)
		r.Execs, r.Nontrivial, r.States = 1, 1, 2
		r.Transitions = int64(n / 32768)
		if m := c14FarRx(n); m != "" {
			r.Violations = append(r.Violations, engine.Violation{Property: "C14", Kind: "long-stream", Key: "tcp-wrap:long-stream-rx", Detail: m, Job: job, Replay: engine.MustJSON(map[string]interface{}{"farrx": n})})
		}
		r.Outcomes = []uint64{engine.Hash(job, len(r.Violations))}
		r.Bound = fmt.Sprintf("one history: the peer sends %d bytes in 32 KiB segments (every 64th pair swapped), the application reads along", n)
		r.Sample(map[string]interface{}{"farrx": r.Bound})
		return r
	}
	if strings.HasPrefix(job, "far:") {
		var n uint64
		fmt.Sscanf(job, "far:%d", &n)
		r.Execs, r.Nontrivial, r.States = 1, 1, 2
		r.Transitions = int64(n / 32768)
		if m := c14FarRecover(n); m != "" {
			r.Violations = append(r.Violations, engine.Violation{Property: "C14", Kind: "far-from-loss-event", Key: "tcp-wrap:no-fast-retransmit-far", Detail: m, Job: job, Replay: engine.MustJSON(map[string]interface{}{"far": n})})
		}
		r.Outcomes = []uint64{engine.Hash(job, len(r.Violations))}
		r.Bound = fmt.Sprintf("one history: %d bytes acknowledged without loss, then a flight of five with the first lost and three duplicate ACKs", n)
		r.Sample(map[string]interface{}{"far": r.Bound})
		return r
	}
	var b uint32
	var chunk int
	fmt.Sscanf(job, "%d:%d", &b, &chunk)
	sizes, wins := c14SizesQuick, c14WinQuick
	if tier == "thorough" {
		sizes, wins = c14SizesThorough, c14WinThorough
	}
	per := uint64(1<<32) / c14Chunks
	lo, hi := uint64(chunk)*per, uint64(chunk+1)*per
	var evals int64
	fails := map[string]int{}
	fail := func(f c14Fail) {
		key := f.Fn
		if f.Fn == "LessThan" && f.B-f.A == 1<<31 {
			key = "LessThan-antipode"
		}
		if f.Fn == "LessThanEq" && f.B-f.A == 1<<31 {
			key = "LessThanEq-antipode"
		}
		fails[key]++
		if fails[key] > 1 || len(r.Violations) >= 8 {
			return
		}
		r.Violations = append(r.Violations, engine.Violation{Property: "C14", Kind: "arith-mismatch", Key: "seqnum:" + key,
			Detail: fmt.Sprintf("%s(%d, %d, %d, %d) = %v, serial-number definition says %v", f.Fn, f.A, f.B, f.C, f.D, f.Got, f.Want),
			Job:    job, Replay: engine.MustJSON(map[string]interface{}{"base": b, "w": f.opW(b), "tier": tier})})
	}
	for w := lo; w < hi; w++ {
		evals += c14CheckOne(b, uint32(w), sizes, wins, fail)
		if w&0xffffff == 0 && time.Now().After(deadline) {
			r.Exhaustive = false
			r.Caps = append(r.Caps, fmt.Sprintf("%s: deadline after %d operands", job, w-lo))
			hi = w + 1
			break
		}
	}
	r.Execs = int64(hi - lo)
	r.States = int64(hi - lo)
	r.Transitions = evals
	r.Nontrivial = int64(hi - lo)
	r.Outcomes = []uint64{engine.Hash(len(fails) == 0), engine.Hash(job)}
	r.AddExtra("function_evaluations", evals)
	if chunk == 0 {
		r.Sample(map[string]interface{}{"base": b, "w_range": []uint64{lo, hi - 1}, "functions": "LessThan, LessThanEq, Add, Size, UpdateForward, InRange, InWindow, Overlap", "sizes": sizes, "window_sizes": wins})
	}
	r.Bound = "all 2^32 operands per base"
	return r
}

// opW recovers the moving operand w of a failing tuple.
func (f c14Fail) opW(b uint32) uint32 {
	switch f.Fn {
	case "Overlap":
		return f.C
	}
	if f.A == b {
		return f.B
	}
	return f.A
}

func c14Replay(rp json.RawMessage) *engine.Violation {
	var er engine.EnvReplay
	if json.Unmarshal(rp, &er) == nil && strings.HasPrefix(er.Job, "raw:") {
		v := rawReplay(er)
		if v != nil {
			v.Key = "tcp-wrap:" + v.Key
			v.Property = "C14"
		}
		return v
	}
	var frx struct {
		Far uint64 `json:"farrx"`
	}
	if json.Unmarshal(rp, &frx) == nil && frx.Far > 0 {
		if m := c14FarRx(frx.Far); m != "" {
			return &engine.Violation{Property: "C14", Kind: "long-stream", Key: "tcp-wrap:long-stream-rx", Detail: m}
		}
		return nil
	}
	var fr struct {
		Far uint64 `json:"far"`
	}
	if json.Unmarshal(rp, &fr) == nil && fr.Far > 0 {
		if m := c14FarRecover(fr.Far); m != "" {
			return &engine.Violation{Property: "C14", Kind: "far-from-loss-event", Key: "tcp-wrap:no-fast-retransmit-far", Detail: m}
		}
		return nil
	}
	var p struct {
		Base, W uint32
		Tier    string
	}
	if json.Unmarshal(rp, &p) != nil {
		return nil
	}
	sizes, wins := c14SizesQuick, c14WinQuick
	if p.Tier == "thorough" {
		sizes, wins = c14SizesThorough, c14WinThorough
	}
	var v *engine.Violation
	c14CheckOne(p.Base, p.W, sizes, wins, func(f c14Fail) {
		if v == nil {
			v = &engine.Violation{Property: "C14", Kind: "arith-mismatch", Key: "seqnum:" + f.Fn, Detail: fmt.Sprintf("%s(%d, %d, %d, %d) = %v, want %v", f.Fn, f.A, f.B, f.C, f.D, f.Got, f.Want)}
		}
	})
	return v
}
