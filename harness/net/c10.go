package main

import (
	"encoding/json"
	"fmt"
	"sort"
	"strings"
	"time"

	tcpip "github.com/brewlin/net-protocol/protocol"
	"github.com/brewlin/net-protocol/protocol/network/ipv4"
	"github.com/brewlin/net-protocol/protocol/network/ipv6"
	"github.com/brewlin/net-protocol/protocol/ports"
	"github.com/brewlin/net-protocol/protocol/transport/tcp"
	"github.com/brewlin/net-protocol/protocol/transport/udp"

	"verif/engine"
	"verif/shim/vrand"
	"verif/shim/vsched"
)

// C10: port reservations.
//   seq:<i>/<n>     all reserve/release histories against a reference set (+ availability table)
//   eph:<i>/<n>     PickEphemeralPort for every start offset (chosen through the rand shim)
//   coop:<prog>     racing reservations, linearizability against the reference

func init() {
	engine.Register(&engine.Check{
		ID:        "C10",
		Technique: "explicit-state search over reserve/release histories on the real PortManager against a reference set; exhaustive enumeration of all 49536 ephemeral start offsets; stateless model checking of racing reservations (cooperative scheduler, all schedules) with brute-force linearizability",
		Rule:      "seq: every sequence over Reserve(networks,transport,addr,port|0)/Release(held) with the whole availability table compared after each step; eph: every start offset x {nothing free, one free port at 8 positions, failing tester}; sock: every sequence of bind/connect/listen/close operations on two real sockets (udp4, udp6 dual, tcp4, tcp6 dual), nothing reserved once both are closed; coop: every schedule of each 2-3 thread program; distinct = distinct sequence / offset / schedule",
		Assumes:   []string{"Release is called only for reservations that are held (API contract)", "math/rand replaced by a shim that returns the enumerated start offset"},
		Jobs:      c10Jobs,
		Run:       c10Run,
		Replay:    c10Replay,
		NeedRepro: true,
		DeadlineT: 45 * time.Minute,
	})
}

const (
	c10V4 tcpip.NetworkProtocolNumber = 0x0800
	c10V6 tcpip.NetworkProtocolNumber = 0x86dd
)

var (
	c10Nets     = [][]tcpip.NetworkProtocolNumber{{c10V4}, {c10V6}, {c10V4, c10V6}}
	c10NetName  = []string{"v4", "v6", "v4+v6"}
	c10Trans    = []tcpip.TransportProtocolNumber{6, 17}
	c10Addrs    = []tcpip.Address{"", "\x0a\x00\x00\x01", "\x0a\x00\x00\x02"}
	c10AddrName = []string{"any", "A", "B"}
	c10Ports    = []uint16{20000, 20001}
)

type c10Tuple struct {
	n, t, a int
	port    uint16
}

func (x c10Tuple) String() string {
	return fmt.Sprintf("(%s,%d,%s,%d)", c10NetName[x.n], c10Trans[x.t], c10AddrName[x.a], x.port)
}

func c10Conflict(x, y c10Tuple) bool {
	if x.t != y.t || x.port != y.port {
		return false
	}
	share := x.n == y.n || x.n == 2 || y.n == 2
	if !share {
		return false
	}
	return x.a == 0 || y.a == 0 || x.a == y.a
}

type c10Seq struct {
	pm    *ports.PortManager
	held  []c10Tuple
	ops   []c10Op
	names []string
}

type c10Op struct {
	kind byte // 'R' reserve specific, 'E' reserve ephemeral, 'L' release held[i]
	tup  c10Tuple
	off  int64
	idx  int
}

func c10Alphabet() ([]c10Op, []string) {
	var ops []c10Op
	var names []string
	for n := range c10Nets {
		for t := range c10Trans {
			for a := range c10Addrs {
				for _, p := range c10Ports {
					tp := c10Tuple{n, t, a, p}
					ops = append(ops, c10Op{kind: 'R', tup: tp})
					names = append(names, "Reserve"+tp.String())
				}
				for _, off := range []int64{49535} {
					if t != 0 {
						continue
					}
					tp := c10Tuple{n, t, a, 0}
					ops = append(ops, c10Op{kind: 'E', tup: tp, off: off})
					names = append(names, fmt.Sprintf("Reserve(%s,%d,%s,0)[rand=%d]", c10NetName[n], c10Trans[t], c10AddrName[a], off))
				}
			}
		}
	}
	for i := 0; i < 4; i++ {
		ops = append(ops, c10Op{kind: 'L', idx: i})
		names = append(names, fmt.Sprintf("Release(held[%d])", i))
	}
	return ops, names
}

func c10New() engine.SeqSys {
	s := &c10Seq{pm: ports.NewPortManager()}
	s.ops, s.names = c10Alphabet()
	return s
}

func (s *c10Seq) Enabled() []int {
	var en []int
	for i, o := range s.ops {
		if o.kind == 'L' && o.idx >= len(s.held) {
			continue
		}
		en = append(en, i)
	}
	return en
}

func (s *c10Seq) free(x c10Tuple) bool {
	for _, h := range s.held {
		if c10Conflict(x, h) {
			return false
		}
	}
	return true
}

func (s *c10Seq) Apply(i int) *engine.Violation {
	o := s.ops[i]
	bad := func(key, f string, a ...interface{}) *engine.Violation {
		return &engine.Violation{Property: "C10", Kind: "ports-mismatch", Key: "seq:" + key, Detail: s.names[i] + ": " + fmt.Sprintf(f, a...) + fmt.Sprintf(" (held: %v)", s.held)}
	}
	switch o.kind {
	case 'R':
		want := s.free(o.tup)
		got, err := s.pm.ReservePort(c10Nets[o.tup.n], c10Trans[o.tup.t], c10Addrs[o.tup.a], o.tup.port)
		if want && (err != nil || got != o.tup.port) {
			return bad("reserve-refused", "refused (%v) although nothing conflicting is held", err)
		}
		if !want && err == nil {
			return bad("reserve-conflict", "succeeded although a conflicting reservation is held")
		}
		if !want && err != tcpip.ErrPortInUse {
			return bad("reserve-error", "failed with %v, want ErrPortInUse", err)
		}
		if want {
			s.held = append(s.held, o.tup)
		}
	case 'E':
		vrand.Force(o.off)
		got, err := s.pm.ReservePort(c10Nets[o.tup.n], c10Trans[o.tup.t], c10Addrs[o.tup.a], 0)
		vrand.Force(-1)
		// with at most 6 reservations on 2 ports there is always a free ephemeral port
		if err != nil {
			return bad("ephemeral-failed", "ephemeral reservation failed (%v) although ports are free", err)
		}
		if got < 16000 {
			return bad("ephemeral-range", "returned port %d outside [16000,65535]", got)
		}
		tp := o.tup
		tp.port = got
		if !s.free(tp) {
			return bad("ephemeral-conflict", "returned port %d which conflicts with a held reservation", got)
		}
		s.held = append(s.held, tp)
	case 'L':
		h := s.held[o.idx]
		s.pm.ReleasePort(c10Nets[h.n], c10Trans[h.t], c10Addrs[h.a], h.port)
		s.held = append(append([]c10Tuple(nil), s.held[:o.idx]...), s.held[o.idx+1:]...)
	}
	sort.Slice(s.held, func(i, j int) bool { return s.held[i].String() < s.held[j].String() })
	// the whole availability table, for both fixed ports and every held ephemeral port
	plist := append([]uint16(nil), c10Ports...)
	for _, h := range s.held {
		if h.port != c10Ports[0] && h.port != c10Ports[1] {
			plist = append(plist, h.port)
		}
	}
	for n := range c10Nets {
		for t := range c10Trans {
			for a := range c10Addrs {
				for _, p := range plist {
					tp := c10Tuple{n, t, a, p}
					if got, want := s.pm.IsPortAvailable(c10Nets[n], c10Trans[t], c10Addrs[a], p), s.free(tp); got != want {
						return bad("availability", "afterwards IsPortAvailable%s = %v, reference says %v", tp, got, want)
					}
				}
			}
		}
	}
	return nil
}

func (s *c10Seq) Key() string { return ports.VerifDump(s.pm) + fmt.Sprint(s.held) }

func c10SeqCfg(tier string, i, n int, deadline time.Time) engine.SeqCfg {
	_, names := c10Alphabet()
	full, dd := 3, 4
	if tier == "thorough" {
		full, dd = 4, 6
	}
	return engine.SeqCfg{Alphabet: names, New: c10New, FullDepth: full, DedupDepth: dd, Deadline: deadline, ShardI: i, ShardN: n}
}

// ---------- ephemeral enumeration ----------

func c10Eph(r *engine.Result, job, tier string, i, n int) {
	pm := ports.NewPortManager()
	const first, count = 16000, 65536 - 16000
	positions := []int{16000, 16001, 16042, 40000, 65534, 65535}
	var evals int64
	fail := func(key, f string, a ...interface{}) {
		if len(r.Violations) < 4 {
			r.Violations = append(r.Violations, engine.Violation{Property: "C10", Kind: "ephemeral", Key: "eph:" + key, Detail: fmt.Sprintf(f, a...), Job: job, Replay: engine.MustJSON(map[string]interface{}{"job": job, "tier": tier})})
		}
	}
	probed := make([]bool, 65536)
	for off := i; off < count; off += n {
		vrand.Force(int64(off))
		for k := range probed {
			probed[k] = false
		}
		calls := 0
		var firstProbe, lastProbe uint16
		p, err := pm.PickEphemeralPort(func(p uint16) (bool, *tcpip.Error) {
			if calls == 0 {
				firstProbe = p
			}
			lastProbe = p
			calls++
			probed[p] = true
			return false, nil
		})
		evals += int64(calls)
		if err != tcpip.ErrNoPortAvailable || p != 0 {
			fail("nothing-free-result", "offset %d, no port acceptable: returned (%d, %v), want (0, ErrNoPortAvailable)", off, p, err)
		}
		missing, outside := 0, 0
		ex := 0
		for k := 0; k < 65536; k++ {
			if k >= first && !probed[k] {
				if missing == 0 {
					ex = k
				}
				missing++
			}
			if k < first && probed[k] {
				outside++
			}
		}
		if missing > 0 || outside > 0 {
			fail("gave-up-without-probing", "start offset %d: search reported no port available after %d probes but never tried %d ports of [16000,65535] (e.g. %d) and tried %d ports below 16000", off, calls, missing, ex, outside)
		}
		// one free port: must be found
		pos := append([]int{int(firstProbe), int(lastProbe)}, positions...)
		if tier != "thorough" && off%8 != 0 {
			pos = pos[:3]
		}
		for _, want := range pos {
			got, err := pm.PickEphemeralPort(func(p uint16) (bool, *tcpip.Error) { evals++; return int(p) == want, nil })
			if err != nil || int(got) != want {
				fail("free-port-not-found", "start offset %d, only port %d free: returned (%d, %v)", off, want, got, err)
			}
		}
		// failing tester: error propagated
		if got, err := pm.PickEphemeralPort(func(p uint16) (bool, *tcpip.Error) { return false, tcpip.ErrNoRoute }); err != tcpip.ErrNoRoute || got != 0 {
			fail("tester-error", "start offset %d: tester error not propagated: (%d, %v)", off, got, err)
		}
		r.Execs++
	}
	vrand.Force(-1)
	r.States += r.Execs
	r.Nontrivial += r.Execs
	r.Transitions += evals
	r.AddExtra("probe_calls", evals)
	r.Sample(map[string]interface{}{"start_offsets": fmt.Sprintf("%d, %d, ... (step %d)", i, i+n, n), "testers": "nothing free; one free port at first/last probed and fixed positions; failing tester"})
}

// ---------- races ----------

// universe of the concurrent harness: 4 mutually interesting tuples on one port
var c10U = []c10Tuple{{0, 0, 0, 20000}, {0, 0, 1, 20000}, {0, 0, 2, 20000}, {2, 0, 1, 20000}}

// thread scripts: R<u> reserve, L<u> release if this thread's reserve of u succeeded, Q<u> query
var c10Progs = map[string][]string{
	"r1": {"R0", "R1"},
	"r2": {"R1", "R1"},
	"r3": {"R1", "R2", "R0"},
	"r4": {"R0 L0", "R1"},
	"r5": {"R1 L1", "R0", "Q2"},
	"r6": {"R3", "R1", "Q0"},
	"r7": {"R1 L1 R0", "R2 L2"},
	"r8": {"R0 L0", "R0 L0", "Q1"},
	"r9": {"R3 L3", "R1 L1", "R2"},
}

func c10Model(st uint64, op engine.LinOp) (uint64, bool) {
	free := func(u int) bool {
		for k := range c10U {
			if st&(1<<uint(k)) != 0 && c10Conflict(c10U[u], c10U[k]) {
				return false
			}
		}
		return true
	}
	switch op.Name {
	case "R":
		if free(op.Arg) != (op.Res == 1) {
			return st, false
		}
		if op.Res == 1 {
			st |= 1 << uint(op.Arg)
		}
		return st, true
	case "L":
		return st &^ (1 << uint(op.Arg)), true
	case "Q":
		return st, free(op.Arg) == (op.Res == 1)
	}
	return st, false
}

func c10Harness(prog []string) engine.Harness {
	return func() (func(), func(*vsched.Sched) (*engine.Violation, uint64)) {
		pm := ports.NewPortManager()
		clk := 0
		var ops []engine.LinOp
		body := func() {
			var ts []*vsched.Thread
			for ti, script := range prog {
				ti, script := ti+1, script
				ts = append(ts, vsched.Go(func() {
					mine := map[int]bool{}
					for _, tok := range strings.Fields(script) {
						u := int(tok[1] - '0')
						tp := c10U[u]
						if tok[0] == 'L' && !mine[u] {
							continue
						}
						vsched.Point()
						clk++
						op := engine.LinOp{Thread: ti, Call: clk, Name: string(tok[0]), Arg: u}
						switch tok[0] {
						case 'R':
							_, err := pm.ReservePort(c10Nets[tp.n], c10Trans[tp.t], c10Addrs[tp.a], tp.port)
							if err == nil {
								op.Res = 1
								mine[u] = true
							}
						case 'L':
							pm.ReleasePort(c10Nets[tp.n], c10Trans[tp.t], c10Addrs[tp.a], tp.port)
							mine[u] = false
						case 'Q':
							if pm.IsPortAvailable(c10Nets[tp.n], c10Trans[tp.t], c10Addrs[tp.a], tp.port) {
								op.Res = 1
							}
						}
						clk++
						op.Ret = clk
						ops = append(ops, op)
					}
				}))
			}
			vsched.Join(ts...)
		}
		check := func(s *vsched.Sched) (*engine.Violation, uint64) {
			var sig []int
			for _, o := range ops {
				sig = append(sig, o.Thread*100+o.Arg*10+o.Res)
			}
			out := engine.Hash(s.Outcome, sig)
			if s.Outcome != vsched.OK {
				return &engine.Violation{Property: "C10", Kind: s.Outcome.String(), Key: "coop-" + s.Outcome.String(), Detail: s.Detail}, out
			}
			// two conflicting reservations both held at the end?
			if !engine.Linearizable(append([]engine.LinOp(nil), ops...), 0, c10Model) {
				return &engine.Violation{Property: "C10", Kind: "not-linearizable", Key: "coop-not-linearizable", Detail: fmt.Sprintf("racing reservations have no sequential explanation (conflicting reservations both succeeded, or a query contradicts every order): %+v", ops)}, out
			}
			return nil, out
		}
		return body, check
	}
}

// ---------- plumbing ----------

func c10Jobs(tier string) []string {
	var jobs []string
	for i := 0; i < 32; i++ {
		jobs = append(jobs, fmt.Sprintf("eph:%d/32", i))
	}
	for name := range c10Progs {
		jobs = append(jobs, "coop:"+name)
	}
	for i := 0; i < 49; i++ {
		jobs = append(jobs, fmt.Sprintf("seq:%d/49", i))
	}
	for i := 0; i < 8; i++ {
		jobs = append(jobs, fmt.Sprintf("sock:%d/8", i))
	}
	return jobs
}

// ---------- the users of the port manager: sockets ----------

// c10SockOps: operations on two sockets of a real stack. After any sequence, once both
// sockets are closed, every (network, transport, address, port) must be available again;
// while a socket is bound and open, a second socket's bind to a conflicting tuple must fail.
var c10SockKinds = []string{"udp4", "udp6dual", "tcp4", "tcp6dual"}
var c10SockOpNames = []string{"bind(*:P)", "bind(A:P)", "bind(*:0)", "connect(v4 peer)", "connect(v6 peer)", "listen", "close", "bind(X:P) with X not a local address", "bind([::ffff:A4]:P)", "bind([::ffff:0.0.0.0]:P)"}

func c10Sock(kinds [2]int, seq []int) string {
	w := NewWorld()
	n := w.AddNode(NodeCfg{Name: "S", V4: []tcpip.Address{addrA4}, V6: []tcpip.Address{addrA6}, MTU: 1500})
	defer func() {
		n.S.RemoveAddress(1, addrA4)
		n.S.RemoveAddress(1, addrA6)
		w.Settle()
	}()
	const P = 20000
	mapped := tcpip.Address("\x00\x00\x00\x00\x00\x00\x00\x00\x00\x00\xff\xff" + string(addrB4))
	var eps [2]tcpip.Endpoint
	var dual [2]bool
	for k := range eps {
		kind := c10SockKinds[kinds[k]]
		trans := tcpip.TransportProtocolNumber(udp.ProtocolNumber)
		if strings.HasPrefix(kind, "tcp") {
			trans = tcp.ProtocolNumber
		}
		netp := tcpip.NetworkProtocolNumber(ipv4.ProtocolNumber)
		if strings.HasSuffix(kind, "dual") {
			netp = ipv6.ProtocolNumber
			dual[k] = true
		}
		eps[k] = n.NewSock(trans, netp).EP
	}
	closed := [2]bool{}
	var holds, connected, hadPort [2]bool
	var fam [2]string
	var hist []string
	for _, code := range seq {
		k, op := code/len(c10SockOpNames), code%len(c10SockOpNames)
		if closed[k] {
			continue
		}
		hist = append(hist, fmt.Sprintf("%s#%d.%s", c10SockKinds[kinds[k]], k, c10SockOpNames[op]))
		ep := eps[k]
		own, peer4, peer6 := addrA4, addrB4, addrB6
		if dual[k] {
			own = addrA6
			peer4 = mapped
		}
		var opErr *tcpip.Error
		switch op {
		case 0:
			opErr = ep.Bind(tcpip.FullAddress{Port: P}, nil)
		case 1:
			opErr = ep.Bind(tcpip.FullAddress{Addr: own, Port: P}, nil)
		case 2:
			opErr = ep.Bind(tcpip.FullAddress{Port: 0}, nil)
		case 3:
			opErr = ep.Connect(tcpip.FullAddress{Addr: peer4, Port: 99})
		case 4:
			opErr = tcpip.ErrInvalidEndpointState
			if dual[k] {
				opErr = ep.Connect(tcpip.FullAddress{Addr: peer6, Port: 99})
			}
		case 5:
			ep.Listen(2)
		case 6:
			ep.Close()
			closed[k] = true
		case 7:
			x := tcpip.Address("\x0a\x00\x00\x63")
			if dual[k] {
				x = tcpip.Address("\xfd\x00\x00\x00\x00\x00\x00\x00\x00\x00\x00\x00\x00\x00\x00\x63")
			}
			ep.Bind(tcpip.FullAddress{Addr: x, Port: P}, nil) // must fail and leave nothing behind
		case 8, 9:
			// a dual-stack socket bound to a v4-mapped address (specific / wildcard): the
			// reservation lives in the IPv4 space
			opErr = tcpip.ErrInvalidEndpointState
			if dual[k] {
				a4 := string(addrA4)
				if op == 9 {
					a4 = "\x00\x00\x00\x00"
				}
				opErr = ep.Bind(tcpip.FullAddress{Addr: tcpip.Address("\x00\x00\x00\x00\x00\x00\x00\x00\x00\x00\xff\xff" + a4), Port: P}, nil)
			}
		}
		w.Settle()
		for _, f := range w.InFlight() {
			w.Take(f) // SYNs of connecting TCP sockets go nowhere
		}
		// a port that one open socket holds is never handed to the other one of the same kind
		// bookkeeping: who holds a reservation (a TCP connect gives the reservation up and relies
		// on the 4-tuple from then on; that is the repository's design, not a conflict)
		isTCP := strings.HasPrefix(c10SockKinds[kinds[k]], "tcp")
		la, _ := ep.GetLocalAddress()
		switch {
		case op == 6:
			holds[k] = false
		case (op <= 2 || op >= 8) && opErr != nil:
			// a failed bind changes nothing
		case (op == 3 || op == 4) && opErr != nil && opErr != tcpip.ErrConnectStarted:
			// a failed connect changes nothing either: a socket that was bound stays bound
		case op >= 8 && la.Port != 0 && !connected[k]:
			holds[k] = true
			fam[k] = "4"
		case op <= 2 && la.Port != 0 && !connected[k]:
			holds[k] = true
			fam[k] = "4"
			if dual[k] {
				fam[k] = "46"
				if op == 1 {
					fam[k] = "6" // bound to a specific IPv6 address
				}
			}
		case (op == 3 || op == 4) && la.Port != 0:
			mine := "4"
			if op == 4 {
				mine = "6"
			}
			if o := 1 - k; !hadPort[k] && kinds[0] == kinds[1] && holds[o] && !closed[o] && strings.Contains(fam[o], mine) {
				if lo, _ := eps[o].GetLocalAddress(); lo.Port == la.Port {
					return fmt.Sprintf("after %v: connect on an unbound %s socket picked local port %d, which the other %s socket holds reserved", hist, c10SockKinds[kinds[k]], la.Port, c10SockKinds[kinds[o]])
				}
			}
			connected[k] = true
			holds[k] = !isTCP
			if !hadPort[k] {
				fam[k] = mine
			}
		}
		hadPort[k] = la.Port != 0
		// every socket that holds a reservation is known to the port manager
		for j := range eps {
			if !holds[j] || closed[j] {
				continue
			}
			lj, _ := eps[j].GetLocalAddress()
			tp := tcpip.TransportProtocolNumber(udp.ProtocolNumber)
			if strings.HasPrefix(c10SockKinds[kinds[j]], "tcp") {
				tp = tcp.ProtocolNumber
			}
			for _, fm := range fam[j] {
				np := []tcpip.NetworkProtocolNumber{ipv4.ProtocolNumber}
				if fm == '6' {
					np[0] = ipv6.ProtocolNumber
				}
				if lj.Port != 0 && n.S.IsPortAvailable(np, tp, "", lj.Port) {
					return fmt.Sprintf("after %v: the open %s socket #%d is bound to port %d, but the port manager reports the port free (network %#x): another socket could bind it now", hist, c10SockKinds[kinds[j]], j, lj.Port, np[0])
				}
			}
		}
	}
	for k := range eps {
		if !closed[k] {
			eps[k].Close()
		}
	}
	w.Settle()
	for _, f := range w.InFlight() {
		w.Take(f)
	}
	// everything is closed: nothing may be left reserved
	nets := [][]tcpip.NetworkProtocolNumber{{ipv4.ProtocolNumber}, {ipv6.ProtocolNumber}}
	for _, np := range nets {
		for _, tp := range []tcpip.TransportProtocolNumber{udp.ProtocolNumber, tcp.ProtocolNumber} {
			for port := uint16(16000); ; port++ {
				for _, a := range []tcpip.Address{"", addrA4, addrA6} {
					if !n.S.IsPortAvailable(np, tp, a, port) {
						return fmt.Sprintf("after %v and closing both sockets, port %d (network %#x transport %d address %x) is still reserved: a released reservation did not become available again", hist, port, np[0], tp, string(a))
					}
				}
				if port == 16002 {
					port = P - 1
				}
				if port == P {
					break
				}
			}
		}
	}
	return ""
}

func c10SockJob(i, n int, tier string, r *engine.Result) {
	depth := 3
	if tier == "thorough" {
		depth = 4
	}
	nops := 2 * len(c10SockOpNames)
	k := 0
	for ka := 0; ka < len(c10SockKinds); ka++ {
		for kb := ka; kb < len(c10SockKinds); kb++ {
			total := 1
			for d := 0; d < depth; d++ {
				total *= nops
			}
			for code := 0; code < total; code++ {
				k++
				if k%n != i {
					continue
				}
				seq := make([]int, depth)
				c := code
				for d := 0; d < depth; d++ {
					seq[d] = c % nops
					c /= nops
				}
				skip := false
				for _, cd := range seq {
					if op := cd % len(c10SockOpNames); op >= 8 && !strings.HasSuffix(c10SockKinds[[2]int{ka, kb}[cd/len(c10SockOpNames)]], "dual") {
						skip = true // v4-mapped binds exist on dual-stack sockets only
					}
				}
				if skip {
					continue
				}
				engine.Tick()
				msg := c10Sock([2]int{ka, kb}, seq)
				r.Execs++
				r.Transitions += int64(depth)
				r.Nontrivial++
				if msg != "" && len(r.Violations) < 3 {
					r.Violations = append(r.Violations, engine.Violation{Property: "C10", Kind: "socket-ports", Key: "sock:leaked-reservation", Detail: msg, Replay: engine.MustJSON(map[string]interface{}{"sock": []int{ka, kb}, "seq": seq})})
				}
			}
		}
	}
	r.Sample(map[string]interface{}{"sockets": c10SockKinds, "operations": c10SockOpNames, "depth": depth})
}

func c10Run(job, tier string, deadline time.Time) *engine.Result {
	r := &engine.Result{Exhaustive: true}
	var i, n int
	if strings.HasPrefix(job, "sock:") {
		fmt.Sscanf(job, "sock:%d/%d", &i, &n)
		c10SockJob(i, n, tier, r)
		for k := range r.Violations {
			r.Violations[k].Job = job
		}
		r.States = r.Execs + 1
		r.Outcomes = []uint64{engine.Hash(job, len(r.Violations))}
		r.Recycle = true
		return r
	}
	switch {
	case strings.HasPrefix(job, "seq:"):
		fmt.Sscanf(job, "seq:%d/%d", &i, &n)
		cfg := c10SeqCfg(tier, i, n, deadline)
		st := engine.ExploreSeq(job, cfg)
		st.Into(r)
		r.Bound = fmt.Sprintf("all histories <=%d (+dedup BFS <=%d)", cfg.FullDepth, cfg.DedupDepth)
	case strings.HasPrefix(job, "eph:"):
		fmt.Sscanf(job, "eph:%d/%d", &i, &n)
		c10Eph(r, job, tier, i, n)
		r.Outcomes = []uint64{engine.Hash(job, len(r.Violations))}
		r.Bound = "all 49536 start offsets"
	case strings.HasPrefix(job, "coop:"):
		st := engine.Explore(job, c10Harness(c10Progs[job[5:]]), engine.CoopCfg{Bound: -1, Deadline: deadline})
		st.Into(r)
		r.Bound = "coop unbounded preemptions"
	}
	return r
}

func c10Replay(rp json.RawMessage) *engine.Violation {
	var sk struct {
		Sock []int `json:"sock"`
		Seq  []int `json:"seq"`
	}
	if json.Unmarshal(rp, &sk) == nil && len(sk.Sock) == 2 {
		if msg := c10Sock([2]int{sk.Sock[0], sk.Sock[1]}, sk.Seq); msg != "" {
			return &engine.Violation{Property: "C10", Kind: "socket-ports", Key: "sock:leaked-reservation", Detail: msg}
		}
		return nil
	}
	var sr engine.SeqReplay
	if json.Unmarshal(rp, &sr) == nil && strings.HasPrefix(sr.Job, "seq:") {
		return engine.ReplaySeq(c10SeqCfg("quick", 0, 1, time.Time{}), sr.Ops)
	}
	var cr engine.CoopReplay
	if json.Unmarshal(rp, &cr) == nil && strings.HasPrefix(cr.Job, "coop:") {
		return engine.ReplayCoop(c10Harness(c10Progs[cr.Job[5:]]), cr.Choices)
	}
	var p struct{ Job, Tier string }
	if json.Unmarshal(rp, &p) == nil && strings.HasPrefix(p.Job, "eph:") {
		r := &engine.Result{}
		var i, n int
		fmt.Sscanf(p.Job, "eph:%d/%d", &i, &n)
		c10Eph(r, p.Job, p.Tier, i, n)
		if len(r.Violations) > 0 {
			return &r.Violations[0]
		}
	}
	return nil
}
