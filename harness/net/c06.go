package main

import (
	"encoding/json"
	"fmt"
	"runtime"
	"strings"
	"time"

	tcpip "github.com/brewlin/net-protocol/protocol"
	"github.com/brewlin/net-protocol/protocol/network/ipv4"
	"github.com/brewlin/net-protocol/protocol/transport/udp"

	"verif/engine"
	"verif/ref"
)

// C06: every emitted frame is well-formed, checksummed and correctly addressed. The frame
// monitor (monitor.go, independent decoder in verif/ref) runs over every frame of a
// scenario set chosen to reach every originator in the stack.

func init() {
	engine.Register(&engine.Check{
		ID:         "C06",
		Technique:  "exhaustive enumeration / bounded environment exploration of frame-producing scenarios on the real stack, every emitted frame decoded and validated by an independent RFC-derived decoder (lengths, IPv4/ICMP/UDP/TCP checksums with pseudo header, option well-formedness, IP identification, source/destination addressing)",
		Rule:       "UDP: every payload length 0..1472 and every 2-byte payload 0x0000..0xffff on IPv4 and IPv6 (drives the checksum through all values); ICMP echo replies for every payload length; TCP: SYN/SYN-ACK with every option combination, data with timestamps and SACK blocks, pure ACKs, FIN, RST from handshake checks and for unknown destinations, under drop/dup/reorder deviations (budget 1); Ethernet addressing: two links with the same next-hop address and different link addresses, datagrams through each in both orders (ARP/NDP frames themselves in the C12 scenarios); distinct = distinct scenario input; non-trivial = all",
		Assumes:    []string{"UDP over IPv4 with checksum field 0 means 'no checksum' and is accepted; over IPv6 it is a violation (RFC 8200 8.1)"},
		Jobs:       c06Jobs,
		Run:        c06Run,
		Replay:     c06Replay,
		NeedRepro:  true,
		WorkerJobs: 30,
	})
}

func c06Jobs(tier string) []string {
	var jobs []string
	for _, fam := range []string{"4", "6"} {
		for i := 0; i < 8; i++ {
			jobs = append(jobs, fmt.Sprintf("udp2:%s:%d/8", fam, i))
		}
		jobs = append(jobs, "udplen:"+fam, "echo:"+fam)
	}
	jobs = append(jobs, "eth2", "ping", "sendto")
	for i := 0; i < 4; i++ {
		jobs = append(jobs, fmt.Sprintf("routes:%d/4", i))
	}
	// TCP originators: two-stack runs and raw-peer runs with only the monitor oracle
	pair := []string{
		"or=m,bw=40,close=both-shut,mtu=76,aw=96,b=1",
		"or=m,bw=40,close=both-shut,mtu=100,aw=96,sack=1,b=1",
		"or=m,bw=300,close=a-close,mtu=576,aw=2x500,b=1",
		"or=m,bw=1300,close=both-shut,mtu=1280,v6=1,aw=2x1400,sack=1,b=1",
		"or=m,bw=40,close=half,mtu=76,aw=96,issa=4294967200,b=1",
	}
	for _, p := range pair {
		jobs = append(jobs, "pair:0/2:"+p, "pair:1/2:"+p)
	}
	raw := []string{
		"or=m,devs=kwhlo,mss=24,w=72,pd=3x20,ts=1,psack=1,sack=1,b=1",
		"or=m,devs=kwhlo,mss=536,ws=2,w=700,pd=2x300,active=0,b=1",
		"or=ms,devs=o,mss=100,ws=2,ts=1,psack=1,sack=1,w=50,pd=10x20,b=1", // up to five ranges waiting out of order: timestamps + as many SACK blocks as fit
		"or=ms,devs=o,mss=100,ws=-1,psack=1,sack=1,w=50,pd=10x20,b=1",
		"or=m,devs=kwhl,mss=100,ws=7,w=5x100,pd=,v6=1,mtu=1280,ts=1,b=1",
	}
	for _, p := range raw {
		jobs = append(jobs, "raw:0/2:"+p, "raw:1/2:"+p)
	}
	jobs = append(jobs, "handshake")
	return jobs
}

func c06Run(job, tier string, deadline time.Time) *engine.Result {
	r := &engine.Result{Exhaustive: true}
	parts := strings.SplitN(job, ":", 3)
	report := func(key, msg string, replay interface{}) {
		if len(r.Violations) < 6 {
			r.Violations = append(r.Violations, engine.Violation{Property: "C06", Kind: "malformed-frame", Key: key, Detail: msg, Job: job, Replay: engine.MustJSON(replay)})
		}
	}
	defer func() {
		r.Recycle = runtime.NumGoroutine() > 100
		if r.States == 0 {
			r.States = r.Execs + 1
		}
		r.Outcomes = append(r.Outcomes, engine.Hash(job, len(r.Violations)))
	}()
	switch parts[0] {
	case "udp2", "udplen":
		fam := parts[1]
		var payloads [][]byte
		if parts[0] == "udp2" {
			var i, n int
			fmt.Sscanf(parts[2], "%d/%d", &i, &n)
			for v := i; v < 1<<16; v += n {
				payloads = append(payloads, []byte{byte(v >> 8), byte(v)})
			}
		} else {
			for l := 0; l <= 1472; l++ {
				if tier != "thorough" && l > 64 && l < 1471 && l%53 != 0 {
					continue
				}
				payloads = append(payloads, c11Data(byte(l), l))
			}
			// around the 16-bit length limits: either no packet leaves or its length fields are true
			for _, l := range []int{1473, 2000, 65486, 65487, 65488, 65506, 65507, 65508, 65509, 65526, 65527, 65528, 65535} {
				payloads = append(payloads, c11Data(byte(l), l))
			}
		}
		c := c11NewWorld()
		k := c11Kind{fam, "conn", "any"}
		snd, rcv, _, _, f := c.sockets(k)
		if f != nil {
			r.Err = "harness: " + f.msg
			return r
		}
		for _, p := range payloads {
			snd.Write(tcpip.SlicePayload(append([]byte(nil), p...)), tcpip.WriteOptions{})
			c.w.Settle()
			_, ferr := c.pump()
			rcv.Read(nil)
			r.Execs++
			r.Transitions++
			r.Nontrivial++
			if ferr != nil {
				report("frame:"+keyOf(ferr), fmt.Sprintf("UDP payload %x (family %s): %v", clip(p), fam, ferr), map[string]interface{}{"job": job, "payload": p})
				break
			}
		}
		snd.Close()
		rcv.Close()
		c.close()
		for k, v := range c.mon.ByKind {
			r.AddExtra("frames_"+k, int64(v))
		}
		r.Sample(map[string]interface{}{"job": job, "payloads": len(payloads)})
	case "eth2":
		// two Ethernet links, the same next-hop address on both with different link addresses:
		// every frame leaves with the link address resolved on the link it leaves through
		for _, order := range [][2]int{{1, 2}, {2, 1}} {
			for _, announce := range []bool{false, true} {
				if msg := c06Eth2(order, announce); msg != "" {
					report("eth2:"+keyOf(fmt.Errorf("%s", msg)), msg, map[string]interface{}{"job": job})
				}
				r.Execs++
				r.Transitions += 4
				r.Nontrivial++
			}
		}
		r.Sample(map[string]interface{}{"job": job, "what": "gateway 10.9.9.1 on NIC 1 (MAC ..a1) and on NIC 2 (MAC ..b2); datagrams routed through each in both orders, with and without the gateway announcing itself on the other link first"})
	case "sendto":
		for _, v6 := range []bool{false, true} {
			for _, m := range c06SendTo(v6) {
				report("sendto:"+keyOf(fmt.Errorf("%s", m[strings.Index(m, ": ")+2:])), m, map[string]interface{}{"job": job})
			}
			r.Execs += 20
			r.Transitions += 20
			r.Nontrivial += 20
		}
		r.Sample(map[string]interface{}{"job": job, "what": "UDP socket states {unbound, bound, connected, bound+connected} x 5 explicit / implicit destinations x IPv4/IPv6: destination and source of the datagram on the wire"})
	case "ping":
		for _, v6 := range []bool{false, true} {
			for _, l := range []int{0, 1, 7, 8, 33, 1000} {
				if m := c06Ping(v6, l); m != "" {
					report("ping:"+keyOf(fmt.Errorf("%s", m[strings.Index(m, ": ")+2:])), m, map[string]interface{}{"job": job})
				}
				r.Execs++
				r.Transitions += 3
				r.Nontrivial++
			}
		}
		r.Sample(map[string]interface{}{"job": job, "what": "stack A pings stack B through the bundled ping endpoint, IPv4 and IPv6, payload lengths 0,1,7,8,33,1000"})
	case "routes":
		var i, of int
		fmt.Sscanf(parts[1], "%d/%d", &i, &of)
		n, msgs := c06Routes(i, of)
		for _, m := range msgs {
			report("routes:"+keyOf(fmt.Errorf("%s", m[strings.Index(m, ": ")+2:])), m, map[string]interface{}{"job": job})
		}
		r.Execs += int64(n)
		r.Transitions += int64(n)
		r.Nontrivial += int64(n)
		r.Sample(map[string]interface{}{"job": job, "what": "two interfaces; every ordered route table of 1-3 entries from a menu of 4 x 10 socket kinds (UDP/TCP; unbound, bound to an address, to a NIC) x 3 destinations: NIC and source address of the packet against the first qualifying entry"})
	case "echo":
		v6 := parts[1] == "6"
		w := c13NewWorld()
		max := 1472
		if v6 {
			max = 1452
		}
		for l := 0; l <= max; l++ {
			if tier != "thorough" && l > 64 && l < max-1 && l%53 != 0 {
				continue
			}
			f := w.round([]c13Req{{V6: v6, Ident: uint16(l), Seq: uint16(l * 3), Len: l}}, false)
			r.Execs++
			r.Transitions++
			r.Nontrivial++
			if f != nil && f.key == "malformed-reply" {
				report("frame:"+keyOf(fmt.Errorf("%s", f.msg)), f.msg, map[string]interface{}{"job": job, "len": l})
				break
			}
		}
		for k, v := range w.r.mon.ByKind {
			r.AddExtra("frames_"+k, int64(v))
		}
		w.close()
		r.Sample(map[string]interface{}{"job": job, "echo_lengths": "0.." + fmt.Sprint(max)})
	case "pair":
		var i, n int
		fmt.Sscanf(parts[1], "%d/%d", &i, &n)
		cfg := ParsePairCfg(parts[2])
		st := engine.ExploreEnv(job, func(prefix []int) *engine.EnvRun { return RunPair(cfg, prefix) }, engine.EnvCfg{Budget: cfg.Budget, Deadline: deadline, ShardI: i, ShardN: n})
		st.Into(r)
	case "raw":
		rawRunJob(r, job, deadline)
	case "handshake":
		// resets and SYN-ACKs of the handshake scenarios, all option sets
		alpha := c03PassiveAlphabet()
		for _, cookie := range []bool{false, true} {
			for _, os := range c03OptionSets() {
				for _, third := range []int{2, 7, 9} {
					f, _, _ := c03Passive(cookie, 0xfffffff0, []byte(os[1]), []int{0, third, 6}, alpha)
					r.Execs++
					r.Transitions += 3
					r.Nontrivial++
					if f != nil && f.key == "malformed" {
						report("frame:"+keyOf(fmt.Errorf("%s", f.msg)), "SYN options "+os[0]+": "+f.msg, map[string]interface{}{"job": job})
					}
				}
			}
		}
		for fl := 0; fl < 64; fl++ {
			if f, _ := c03Stray(false, uint8(fl), 5); f != nil && f.key == "malformed" {
				report("frame:stray", f.msg, map[string]interface{}{"job": job})
			}
			r.Execs++
			r.Transitions++
		}
		r.Sample(map[string]interface{}{"handshake": "SYN-ACK / RST frames for every SYN option set, cookie and normal mode; RSTs for 64 stray flag combinations"})
	}
	// keep only this property's violations (the shared runners may evaluate other oracles)
	var vs []engine.Violation
	for _, v := range r.Violations {
		if v.Property == "C06" {
			vs = append(vs, v)
		}
	}
	r.Violations = vs
	return r
}

func clip(b []byte) []byte {
	if len(b) > 8 {
		return b[:8]
	}
	return b
}

func c06Replay(rp json.RawMessage) *engine.Violation {
	var er engine.EnvReplay
	if json.Unmarshal(rp, &er) == nil && strings.HasPrefix(er.Job, "raw:") {
		return rawReplay(er)
	}
	if json.Unmarshal(rp, &er) == nil && strings.HasPrefix(er.Job, "pair:") {
		parts := strings.SplitN(er.Job, ":", 3)
		return RunPair(ParsePairCfg(parts[2]), er.Choices).Violation
	}
	var p struct {
		Job     string
		Payload []byte
		Len     int
	}
	if json.Unmarshal(rp, &p) != nil {
		return nil
	}
	parts := strings.SplitN(p.Job, ":", 3)
	switch parts[0] {
	case "udp2", "udplen":
		c := c11NewWorld()
		defer c.close()
		snd, _, _, _, f := c.sockets(c11Kind{parts[1], "conn", "any"})
		if f != nil {
			return nil
		}
		snd.Write(tcpip.SlicePayload(p.Payload), tcpip.WriteOptions{})
		c.w.Settle()
		if _, ferr := c.pump(); ferr != nil {
			return &engine.Violation{Property: "C06", Kind: "malformed-frame", Key: "frame:" + keyOf(ferr), Detail: ferr.Error()}
		}
	default:
		r := c06Run(p.Job, "quick", time.Now().Add(5*time.Minute))
		if len(r.Violations) > 0 {
			return &r.Violations[0]
		}
	}
	return nil
}

// c06Eth2 runs one two-link history; returns "" or what went wrong.
func c06Eth2(order [2]int, announce bool) string {
	w := NewWorld()
	mon := NewMonitor()
	gw := tcpip.Address("\x0a\x09\x09\x01")
	own := map[int]tcpip.Address{1: "\x0a\x09\x09\x02", 2: "\x0a\x09\x09\x03"}
	ownMAC := map[int]tcpip.LinkAddress{1: "\x02\x00\x00\x00\x01\x01", 2: "\x02\x00\x00\x00\x02\x02"}
	gwMAC := map[int]tcpip.LinkAddress{1: "\x02\xaa\xaa\xaa\xaa\xa1", 2: "\x02\xbb\xbb\xbb\xbb\xb2"}
	far := map[int]tcpip.Address{1: "\x14\x00\x00\x05", 2: "\x1e\x00\x00\x05"}
	n := w.AddNode(NodeCfg{Name: "S", V4: []tcpip.Address{own[1]}, MTU: 1500, LinkAddr: ownMAC[1]})
	w.AddNIC(n, 2, NodeCfg{V4: []tcpip.Address{own[2]}, MTU: 1500, LinkAddr: ownMAC[2]})
	n.S.SetRouteTable([]tcpip.Route{
		{Destination: "\x14\x00\x00\x00", Mask: "\xff\x00\x00\x00", Gateway: gw, NIC: 1},
		{Destination: "\x1e\x00\x00\x00", Mask: "\xff\x00\x00\x00", Gateway: gw, NIC: 2},
	})
	defer func() {
		n.S.RemoveAddress(1, own[1])
		n.S.RemoveAddress(2, own[2])
		w.Settle()
	}()
	sk := n.NewSock(udp.ProtocolNumber, ipv4.ProtocolNumber)
	defer sk.EP.Close()
	resolved := map[int]bool{}
	// pump: answer ARP requests for the gateway on the link they were sent on, check data frames
	pump := func(nicWant int) string {
		for i := 0; i < 20; i++ {
			w.Settle()
			fl := w.InFlight()
			if len(fl) == 0 {
				return ""
			}
			for _, f := range fl {
				w.Take(f)
				d, err := mon.Check(f, []tcpip.Address{own[1], own[2]})
				if err != nil {
					return "malformed frame: " + err.Error()
				}
				nic := int(f.NIC)
				if d.ARP != nil {
					if d.ARP.Op == 1 && string(d.ARP.TPA[:]) == string(gw) {
						if string(d.ARP.SHA[:]) != string(ownMAC[nic]) || string(d.ARP.SPA[:]) != string(own[nic]) {
							return fmt.Sprintf("ARP request on NIC %d carries sender %x/%x, the interface is %x/%x", nic, d.ARP.SPA, d.ARP.SHA, string(own[nic]), string(ownMAC[nic]))
						}
						resolved[nic] = true
						w.Inject(n, tcpip.NICID(nic), 0x0806, ref.BuildARP(2, []byte(gwMAC[nic]), []byte(gw), []byte(ownMAC[nic]), []byte(own[nic])), gwMAC[nic], ownMAC[nic])
					}
					continue
				}
				if d.UDP == nil {
					continue
				}
				if !resolved[nic] {
					return fmt.Sprintf("a datagram left through NIC %d to link address %x although the next hop %x was never resolved on that link", nic, string(f.DstMAC), string(gw))
				}
				if f.DstMAC != gwMAC[nic] {
					return fmt.Sprintf("datagram on NIC %d sent to link address %x, the next hop %x resolved there to %x", nic, string(f.DstMAC), string(gw), string(gwMAC[nic]))
				}
				if f.SrcMAC != ownMAC[nic] {
					return fmt.Sprintf("datagram on NIC %d carries source link address %x, the interface has %x", nic, string(f.SrcMAC), string(ownMAC[nic]))
				}
			}
		}
		return ""
	}
	for k, nic := range order {
		if k == 1 && announce {
			// the gateway of the first link announces itself there once more (a request for us)
			first := order[0]
			w.Inject(n, tcpip.NICID(first), 0x0806, ref.BuildARP(1, []byte(gwMAC[first]), []byte(gw), make([]byte, 6), []byte(own[first])), gwMAC[first], ownMAC[first])
			if m := pump(first); m != "" {
				return m
			}
		}
		for try := 0; try < 4; try++ {
			_, ch, err := sk.EP.Write(tcpip.SlicePayload([]byte(fmt.Sprintf("via-nic-%d", nic))), tcpip.WriteOptions{To: &tcpip.FullAddress{Addr: far[nic], Port: 99}})
			if m := pump(nic); m != "" {
				return fmt.Sprintf("order %v announce=%v: %s", order, announce, m)
			}
			if err == nil {
				break
			}
			if err != tcpip.ErrWouldBlock || try == 3 {
				return fmt.Sprintf("order %v: write through NIC %d failed: %v", order, nic, err)
			}
			_ = ch
		}
	}
	return ""
}
