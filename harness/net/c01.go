package main

import (
	"encoding/json"
	"fmt"
	"runtime"
	"strings"
	"time"

	"verif/engine"
)

// C01: TCP byte-stream integrity. (a) two real stacks over the scripted wire with
// drop/dup/defer/replay/app-order/early-timer deviations; (b) one stack against the raw
// peer (rawpeer.go) that acknowledges at arbitrary bytes.

func init() {
	engine.Register(&engine.Check{
		ID:        "C01",
		Technique: "stateless model checking of the real stack in a deterministic world (virtual clock, scripted wire, quiescence barrier): DFS over all environment histories within a deviation budget (drop, duplicate, reorder, replay, application/protocol order, early timer, peer ACK placement)",
		Rule:      "every environment history whose deviations from the default answer (deliver oldest frame, then next application call, then earliest timer) cost at most the budget, for each configuration (IPv4/IPv6, SACK, Reno/CUBIC, MTU, receive buffer, initial sequence numbers incl. wrap-adjacent, write chunkings, read pacing); distinct = distinct choice sequence; non-trivial = at least one deviation",
		Assumes: []string{
			"interleavings are explored between events (deliveries, timers, application calls), not between lock operations inside one event",
			"a step is atomic up to the stack's internal goroutine scheduling; the barrier guarantees the step has finished",
		},
		Jobs:       c01Jobs,
		Run:        c01Run,
		Replay:     c01Replay,
		NeedRepro:  false,
		WorkerJobs: 40,
		DeadlineQ:  150 * time.Second,
		DeadlineT:  45 * time.Minute,
	})
}

func c01Jobs(tier string) []string {
	var jobs []string
	add := func(s string, shards int) {
		for i := 0; i < shards; i++ {
			jobs = append(jobs, fmt.Sprintf("pair:%d/%d:%s", i, shards, s))
		}
	}
	base := "or=s,bw=40,close=none"
	if tier != "thorough" {
		add(base+",mtu=76,aw=96,b=1", 4)
		add(base+",mtu=76,aw=2x48,b=1", 4)
		add(base+",mtu=76,aw=24+0+48,b=1", 2) // a zero-length write in the middle of the stream
		add(base+",mtu=100,aw=3+93,sack=1,b=1", 2)
		add(base+",mtu=76,aw=4x24,read=end,b=1", 4)
		add(base+",mtu=100,aw=96,issa=2147483628,sack=1,b=1", 4)
		add(base+",mtu=76,aw=96,issa=4294967276,b=1", 4)
		add(base+",mtu=576,aw=20+100+30,issa=4294967285,b=1", 2)
		add(base+",aw=2x1400,v6=1,mtu=1280,b=1", 2)
		add(base+",mtu=76,aw=400,rcvbuf=100,b=1", 4)
		add(base+",mtu=76,aw=300+100,sndbuf=128,b=1", 4)
		add("or=s,bw=300,close=none,mtu=576,aw=2x500,b=1", 2)
		add("or=s,bw=24,close=none,mtu=76,aw=48,b=2", 8)
		for _, j := range rawJobsC01(tier) {
			jobs = append(jobs, j)
		}
		jobs = append(jobs, "loop")
		return jobs
	}
	for _, v6 := range []string{"", ",v6=1"} {
		for _, sack := range []string{"", ",sack=1"} {
			for _, cc := range []string{"", ",cc=cubic"} {
				for _, mtu := range []string{"76", "576", "1500"} {
					if sack != "" && mtu == "76" {
						mtu = "100"
					}
					for _, aw := range []string{"96", "2x48", "4x24", "3+93"} {
						if v6 != "" {
							if mtu != "1500" {
								mtu = "1280"
							}
							aw = map[string]string{"96": "2800", "2x48": "2x1400", "4x24": "4x700", "3+93": "3+2797"}[aw]
						}
						add(base+v6+sack+cc+",mtu="+mtu+",aw="+aw+",b=1", 1)
					}
				}
			}
		}
	}
	for _, iss := range []string{"issa=2147483628", "issa=4294967276", "issa=4294967295", "issa=2147483647", "issa=2147483551", "issa=4294967199"} {
		add(base+",mtu=100,aw=96,sack=1,"+iss+",b=1", 2)
		add(base+",mtu=76,aw=96,read=end,"+iss+",b=1", 2)
	}
	add(base+",mtu=76,aw=24+0+48,b=1", 2)
	add(base+",mtu=76,aw=0+24+0+0+48+0,b=1", 2)
	add(base+",mtu=76,aw=400,rcvbuf=100,b=1", 4)
	add(base+",mtu=76,aw=400,rcvbuf=100,read=end,b=1", 4)
	add(base+",mtu=76,aw=300+100,sndbuf=128,b=1", 4)
	add(base+",mtu=76,aw=300+100,sndbuf=128,rcvbuf=100,b=2", 32)
	// budget 2 on the smallest configurations
	add(base+",mtu=76,aw=48,bw=24,b=2", 16)
	add(base+",mtu=100,aw=2x24,bw=24,sack=1,b=2", 16)
	add(base+",mtu=76,aw=48,bw=24,issa=4294967276,b=2", 16)
	add("or=s,bw=,close=none,mtu=76,aw=24,b=3", 16)
	add(base+",mtu=76,aw=2x48,b=2", 32)
	add(base+",mtu=100,aw=96,sack=1,cc=cubic,b=2", 32)
	add(base+",mtu=76,aw=4x24,read=end,b=2", 32)
	add(base+",mtu=76,aw=200,rcvbuf=100,b=2", 32)
	add("or=s,bw=24,close=none,mtu=76,aw=48,b=3", 32)
	for _, j := range rawJobsC01(tier) {
		jobs = append(jobs, j)
	}
	jobs = append(jobs, "loop")
	return jobs
}

var c01LoopWrites = [][]int{{1}, {100}, {1460}, {1461}, {5000}, {70000}, {3, 3000, 1}, {200000}}

func c01Run(job, tier string, deadline time.Time) *engine.Result {
	r := &engine.Result{Exhaustive: true}
	if strings.HasPrefix(job, "raw:") {
		return rawRunJob(r, job, deadline)
	}
	if job == "loop" {
		for _, v6 := range []bool{false, true} {
			for _, ws := range c01LoopWrites {
				r.Execs++
				r.Nontrivial++
				r.Transitions += int64(len(ws)) * 2
				if m := c01Loopback(v6, ws); m != "" && len(r.Violations) < 4 {
					r.Violations = append(r.Violations, engine.Violation{Property: "C01", Kind: "loopback", Key: "loopback:" + keyOf(fmt.Errorf("%s", m[strings.Index(m, "): ")+3:])), Detail: m, Job: job, Replay: engine.MustJSON(map[string]interface{}{"job": "loop", "v6": v6, "writes": ws})})
				}
			}
		}
		r.States = r.Execs + 1
		r.Outcomes = []uint64{engine.Hash(job, len(r.Violations))}
		r.Sample(map[string]interface{}{"loop": "one stack connected to itself over the repository's loopback link, IPv4 and IPv6, 8 write patterns, data both ways, half-close both ways"})
		return r
	}
	var i, n int
	var rest string
	parts := strings.SplitN(job, ":", 3)
	fmt.Sscanf(parts[1], "%d/%d", &i, &n)
	rest = parts[2]
	cfg := ParsePairCfg(rest)
	st := engine.ExploreEnv(job, func(prefix []int) *engine.EnvRun { return RunPair(cfg, prefix) }, engine.EnvCfg{Budget: cfg.Budget, Deadline: deadline, ShardI: i, ShardN: n})
	st.Into(r)
	r.Bound = fmt.Sprintf("deviation budget %d", cfg.Budget)
	r.Recycle = runtime.NumGoroutine() > 100
	return r
}

func c01Replay(rp json.RawMessage) *engine.Violation {
	var lp struct {
		Job    string
		V6     bool
		Writes []int
	}
	if json.Unmarshal(rp, &lp) == nil && lp.Job == "loop" {
		if m := c01Loopback(lp.V6, lp.Writes); m != "" {
			return &engine.Violation{Property: "C01", Kind: "loopback", Key: "loopback:" + keyOf(fmt.Errorf("%s", m[strings.Index(m, "): ")+3:])), Detail: m}
		}
		return nil
	}
	var er engine.EnvReplay
	if json.Unmarshal(rp, &er) != nil {
		return nil
	}
	if strings.HasPrefix(er.Job, "raw:") {
		return rawReplay(er)
	}
	parts := strings.SplitN(er.Job, ":", 3)
	cfg := ParsePairCfg(parts[2])
	return RunPair(cfg, er.Choices).Violation
}
