package main

import (
	"fmt"
	"strings"

	tcpip "github.com/brewlin/net-protocol/protocol"
	"github.com/brewlin/net-protocol/protocol/network/ipv4"
	"github.com/brewlin/net-protocol/protocol/transport/tcp"

	"verif/ref"
)

// C07 "does not deadlock": more handshakes complete from the network than the listener's accept
// queue holds, then the application does what applications do with a listener - accepts,
// closes it, shuts it down, calls Listen again. Every call must return, and afterwards a new
// listener on the port must still accept a connection.

var c07AcceptOps = []string{"close", "shutdown", "listen-again", "accept-all-then-close", "accept-one-then-close"}

func c07AcceptOverflow(backlog, conns int, op string) string {
	r := NewRaw(false, 1500)
	ScriptRand(1, 2, 3)
	defer func() {
		r.n.S.RemoveAddress(1, addrA4)
		r.n.S.RemoveAddress(1, addrA6)
		r.w.Settle()
	}()
	what := fmt.Sprintf("listener with backlog %d, %d handshakes completed by the peer, then %s", backlog, conns, op)
	ls := r.n.NewSock(tcp.ProtocolNumber, ipv4.ProtocolNumber)
	must(ls.EP.Bind(tcpip.FullAddress{Port: 7000}, nil))
	must(ls.EP.Listen(backlog))
	handshake := func(port uint16, lport uint16) bool {
		piss := uint32(10000) * uint32(port)
		r.SendTCP(port, lport, piss, 0, ref.SYN, 30000, ref.PadOpts(ref.OptMSS(1460)), nil)
		var iss uint32
		ok := false
		for _, d := range r.Collect() {
			if d != nil && d.TCP != nil && d.TCP.Flags == ref.SYN|ref.ACK && d.TCP.DstPort == port {
				iss, ok = d.TCP.Seq, true
			}
		}
		if !ok {
			return false
		}
		r.SendTCP(port, lport, piss+1, iss+1, ref.ACK, 30000, nil, nil)
		r.Collect()
		return true
	}
	done := 0
	for i := 0; i < conns; i++ {
		if handshake(uint16(9000+i), 7000) {
			done++
		}
	}
	finished := make(chan string, 1)
	go func() {
		defer func() {
			if e := recover(); e != nil {
				finished <- fmt.Sprint("panic: ", e)
			}
		}()
		accept := func(max int) {
			for k := 0; k < max; k++ {
				ep, _, err := ls.EP.Accept()
				if err != nil {
					return
				}
				ep.Close()
			}
		}
		switch op {
		case "close":
			ls.EP.Close()
		case "shutdown":
			ls.EP.Shutdown(tcpip.ShutdownRead)
			ls.EP.Close()
		case "listen-again":
			ls.EP.Listen(backlog + 3)
			accept(100)
			ls.EP.Close()
		case "accept-all-then-close":
			accept(100)
			ls.EP.Close()
		case "accept-one-then-close":
			accept(1)
			ls.EP.Close()
		}
		finished <- ""
	}()
	r.w.Settle() // quiescent: the calls have returned or are blocked for good
	select {
	case m := <-finished:
		if m != "" {
			return what + ": " + m
		}
	default:
		dl := DeadlockedGoroutines()
		return fmt.Sprintf("%s: the application's calls on the listener do not return - the world is quiescent and they are still blocked (%d of %d handshakes had been answered with a SYN-ACK); goroutines waiting for a lock:\n%s", what, done, conns, strings.Join(dl, "\n---\n"))
	}
	r.Collect()
	// the stack still works: a new listener on the same port accepts a connection
	l2 := r.n.NewSock(tcp.ProtocolNumber, ipv4.ProtocolNumber)
	defer l2.EP.Close()
	if err := l2.EP.Bind(tcpip.FullAddress{Port: 7000}, nil); err != nil {
		return what + ": the port cannot be bound again afterwards: " + err.String()
	}
	must(l2.EP.Listen(4))
	if !handshake(9900, 7000) {
		return what + ": a new listener on the port does not answer a SYN afterwards"
	}
	if ep, _, err := l2.EP.Accept(); err != nil {
		return what + ": a new listener on the port hands out no connection afterwards: " + err.String()
	} else {
		ep.Close()
	}
	r.Collect()
	return ""
}
