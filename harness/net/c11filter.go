package main

import (
	"bytes"
	"fmt"

	tcpip "github.com/brewlin/net-protocol/protocol"
	"github.com/brewlin/net-protocol/protocol/network/ipv4"
	"github.com/brewlin/net-protocol/protocol/network/ipv6"
	"github.com/brewlin/net-protocol/protocol/transport/udp"

	"verif/ref"
)

// C11 "from the right sender", connected sockets: a socket that was bound and / or
// connected in every supported way (wildcard or specific bind, connect with and without a NIC,
// IPv4, dual-stack with a v4-mapped or an IPv6 peer, connected a second time to another peer
// or another family) receives the datagrams of its current peer and nothing else: not from
// another port or address, not from the other family, not from a previous peer. After Close the
// port is free again and nothing of the old association is left.

var (
	c11P2v4 = tcpip.Address("\x0a\x00\x00\x4d")
	c11P2v6 = tcpip.Address("\xfd\x00\x00\x00\x00\x00\x00\x00\x00\x00\x00\x00\x00\x00\x00\x4d")
)

const c11PeerPort = 4096

type c11Sender struct {
	v6   bool
	addr tcpip.Address
	port uint16
}

type c11Setup struct {
	name string
	v6   bool // socket family
	ops  func(ep tcpip.Endpoint) *tcpip.Error
	peer c11Sender
}

func c11Setups() []c11Setup {
	fa := func(nic tcpip.NICID, a tcpip.Address, p uint16) tcpip.FullAddress {
		return tcpip.FullAddress{NIC: nic, Addr: a, Port: p}
	}
	p1v4, p1v6 := c11Sender{false, addrB4, c11PeerPort}, c11Sender{true, addrB6, c11PeerPort}
	p2v4 := c11Sender{false, c11P2v4, c11PeerPort}
	seq := func(fs ...func(ep tcpip.Endpoint) *tcpip.Error) func(ep tcpip.Endpoint) *tcpip.Error {
		return func(ep tcpip.Endpoint) *tcpip.Error {
			for _, f := range fs {
				if err := f(ep); err != nil {
					return err
				}
			}
			return nil
		}
	}
	bind := func(a tcpip.FullAddress) func(tcpip.Endpoint) *tcpip.Error {
		return func(ep tcpip.Endpoint) *tcpip.Error { return ep.Bind(a, nil) }
	}
	conn := func(a tcpip.FullAddress) func(tcpip.Endpoint) *tcpip.Error {
		return func(ep tcpip.Endpoint) *tcpip.Error { return ep.Connect(a) }
	}
	P := uint16(c11RecvPort)
	return []c11Setup{
		{"v4 bind(*:P) connect(P1)", false, seq(bind(fa(0, "", P)), conn(fa(0, addrB4, c11PeerPort))), p1v4},
		{"v4 bind(A:P) connect(P1)", false, seq(bind(fa(0, addrA4, P)), conn(fa(0, addrB4, c11PeerPort))), p1v4},
		{"v4 connect(P1)", false, conn(fa(0, addrB4, c11PeerPort)), p1v4},
		{"v4 bind(*:P) connect(nic1,P1)", false, seq(bind(fa(0, "", P)), conn(fa(1, addrB4, c11PeerPort))), p1v4},
		{"v4 bind(nic1,*:P) connect(P1)", false, seq(bind(fa(1, "", P)), conn(fa(0, addrB4, c11PeerPort))), p1v4},
		{"v4 connect(P1) connect(P2)", false, seq(conn(fa(0, addrB4, c11PeerPort)), conn(fa(0, c11P2v4, c11PeerPort))), p2v4},
		{"v4 bind(*:P) connect(nic1,P1) connect(P2)", false, seq(bind(fa(0, "", P)), conn(fa(1, addrB4, c11PeerPort)), conn(fa(0, c11P2v4, c11PeerPort))), p2v4},
		{"dual bind(*:P) connect(mapped P1)", true, seq(bind(fa(0, "", P)), conn(fa(0, v4mapped(addrB4), c11PeerPort))), p1v4},
		{"dual bind(*:P) connect(v6 P1)", true, seq(bind(fa(0, "", P)), conn(fa(0, addrB6, c11PeerPort))), p1v6},
		{"dual connect(v6 P1) connect(mapped P1)", true, seq(conn(fa(0, addrB6, c11PeerPort)), conn(fa(0, v4mapped(addrB4), c11PeerPort))), p1v4},
		{"dual connect(mapped P1) connect(v6 P1)", true, seq(conn(fa(0, v4mapped(addrB4), c11PeerPort)), conn(fa(0, addrB6, c11PeerPort))), p1v6},
		{"dual bind(*:P) connect(nic1,mapped P1)", true, seq(bind(fa(0, "", P)), conn(fa(1, v4mapped(addrB4), c11PeerPort))), p1v4},
		{"dual bind(A6:P) connect(v6 P1)", true, seq(bind(fa(0, addrA6, P)), conn(fa(0, addrB6, c11PeerPort))), p1v6},
	}
}

// c11Filter runs setup i; returns the number of probes and a failure.
func c11Filter(i int) (int, *c11Fail) {
	su := c11Setups()[i]
	r := NewRaw(false, 1500)
	ScriptRand(1, 2)
	defer func() {
		r.n.S.RemoveAddress(1, addrA4)
		r.n.S.RemoveAddress(1, addrA6)
		r.w.Settle()
	}()
	net := tcpip.NetworkProtocolNumber(ipv4.ProtocolNumber)
	if su.v6 {
		net = ipv6.ProtocolNumber
	}
	ep := r.n.NewSock(udp.ProtocolNumber, net).EP
	closed := false
	defer func() {
		if !closed {
			ep.Close()
		}
	}()
	if err := su.ops(ep); err != nil {
		return 0, &c11Fail{"skip", su.name + ": " + err.String()} // this way of setting up is not supported
	}
	la, _ := ep.GetLocalAddress()
	port := la.Port
	if port == 0 {
		return 0, &c11Fail{"connected-without-port", su.name + ": the connected socket reports local port 0"}
	}
	inject := func(s c11Sender, data []byte) {
		if s.v6 {
			pk := ref.BuildIPv6([]byte(s.addr), []byte(addrA6), ref.ProtoUDP, 64, ref.BuildUDP(s.port, port, data, []byte(s.addr), []byte(addrA6)))
			r.w.Inject(r.n, 1, ipv6.ProtocolNumber, pk, "", "")
		} else {
			r.ipID++
			pk := ref.BuildIPv4([]byte(s.addr), []byte(addrA4), ref.ProtoUDP, r.ipID, 0, 0, 64, ref.BuildUDP(s.port, port, data, []byte(s.addr), []byte(addrA4)))
			r.w.Inject(r.n, 1, ipv4.ProtocolNumber, pk, "", "")
		}
	}
	senders := []c11Sender{
		{false, addrB4, c11PeerPort}, {false, addrB4, c11PeerPort + 1}, {false, c11P2v4, c11PeerPort}, {false, c11P2v4, c11PeerPort + 1},
		{true, addrB6, c11PeerPort}, {true, addrB6, c11PeerPort + 1}, {true, c11P2v6, c11PeerPort},
	}
	probes := 0
	for round := 0; round < 2; round++ {
		for k, s := range senders {
			data := []byte(fmt.Sprintf("from-%d-%d", k, round))
			inject(s, data)
			probes++
			var from tcpip.FullAddress
			v, _, err := ep.Read(&from)
			isPeer := s == su.peer
			who := fmt.Sprintf("%x port %d", []byte(s.addr), s.port)
			switch {
			case err == nil && !isPeer:
				return probes, &c11Fail{"connected-socket-foreign-datagram", fmt.Sprintf("%s (local port %d): a datagram from %s was returned by Read (reported sender %x port %d) although the socket is connected to %x port %d", su.name, port, who, []byte(from.Addr), from.Port, []byte(su.peer.addr), su.peer.port)}
			case err != nil && isPeer:
				return probes, &c11Fail{"connected-socket-peer-datagram-lost", fmt.Sprintf("%s (local port %d): the datagram of the connected peer %s was not delivered: Read returned %v", su.name, port, who, err)}
			case err == nil && !bytes.Equal(v, data):
				return probes, &c11Fail{"connected-socket-wrong-data", fmt.Sprintf("%s: Read returned %q, the peer sent %q", su.name, v, data)}
			case err == nil && (from.Port != s.port || !bytes.HasSuffix([]byte(from.Addr), []byte(s.addr))):
				return probes, &c11Fail{"connected-socket-wrong-sender", fmt.Sprintf("%s: datagram of %s reported as coming from %x port %d", su.name, who, []byte(from.Addr), from.Port)}
			}
		}
	}
	// after Close nothing of the association is left: the port can be bound again (both
	// families) and the new sockets get what is sent to it
	ep.Close()
	closed = true
	r.w.Settle()
	for _, v6 := range []bool{false, true} {
		net := tcpip.NetworkProtocolNumber(ipv4.ProtocolNumber)
		s := c11Sender{false, c11P2v4, c11PeerPort + 1}
		if v6 {
			net = ipv6.ProtocolNumber
			s = c11Sender{true, c11P2v6, c11PeerPort}
		}
		e2 := r.n.NewSock(udp.ProtocolNumber, net).EP
		if v6 {
			e2.SetSockOpt(tcpip.V6OnlyOption(1))
		}
		if err := e2.Bind(tcpip.FullAddress{Port: port}, nil); err != nil {
			e2.Close()
			return probes, &c11Fail{"port-not-released-after-close", fmt.Sprintf("%s: after Close, binding port %d again (v6=%v) fails: %v", su.name, port, v6, err)}
		}
		inject(s, []byte("after-close"))
		probes++
		if _, _, err := e2.Read(nil); err != nil {
			e2.Close()
			return probes, &c11Fail{"stale-association-after-close", fmt.Sprintf("%s: after Close a new socket bound to port %d (v6=%v) does not get a datagram sent to it: %v", su.name, port, v6, err)}
		}
		e2.Close()
	}
	return probes, nil
}
