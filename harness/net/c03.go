package main

import (
	"encoding/json"
	"fmt"
	"runtime"
	"strings"
	"time"

	tcpip "github.com/brewlin/net-protocol/protocol"
	"github.com/brewlin/net-protocol/protocol/transport/tcp"

	"verif/engine"
	"verif/ref"
	"verif/shim/vtime"
)

// C03: connections exist only after a correct handshake; strays are reset. Exhaustive
// sequences of handshake segments from the raw peer against one real stack, compared with
// a small reference state machine of the statement's clauses.

func init() {
	engine.Register(&engine.Check{
		ID:         "C03",
		Technique:  "explicit-state search: every sequence of handshake segments up to a depth (and the full product of SYN option sets x initial sequence numbers x acknowledgement numbers) replayed on a fresh real stack in the deterministic world and compared with a reference handshake machine; all 64 flag combinations for stray segments",
		Rule:       "passive open (normal and SYN-cookie mode): all sequences of length <=L over {SYN, SYN again, SYN other seq, right ACK, 5 wrong ACKs, RST in/out of window, SYN-ACK, data} for each peer ISS; option-set product x third-ACK menu; active open: all sequences of length <=L over {right SYN-ACK, wrong SYN-ACKs, bare SYN, RST+ACK right/wrong, RST, ACK right/wrong}; strays: 64 flag combinations x {0,5} payload bytes x {no socket, listener}; distinct = distinct sequence; all non-trivial",
		Assumes:    []string{"a bare ACK sent to a listener with no handshake in progress must create no connection; no reset is demanded for it (the statement does not)", "after a connection is established the remaining letters of a sequence are only checked for not creating further connections"},
		Jobs:       c03Jobs,
		Run:        c03Run,
		Replay:     c03Replay,
		NeedRepro:  true,
		WorkerJobs: 30,
	})
}

var c03PeerISS = []uint32{0, 1, 1<<31 - 1, 1 << 31, 0xffffffff}
var c03StackISS = []uint32{1, 1<<31 - 2, 0xfffffffe}

// option sets: name -> bytes (already padded)
func c03OptionSets() [][2]string {
	var sets [][2]string
	mssv := []uint16{1, 536, 1460, 65535}
	wsv := []uint8{0, 7, 14, 15}
	add := func(name string, b []byte) { sets = append(sets, [2]string{name, string(b)}) }
	add("none", nil)
	k := 0
	for mask := 1; mask < 16; mask++ {
		var linux, bsd [][]byte
		m := ref.OptMSS(mssv[k%4])
		w := ref.OptWS(wsv[k%4])
		ts := ref.OptTS(12345, 0)
		sp := ref.OptSACKPerm()
		k++
		name := ""
		if mask&1 != 0 {
			linux = append(linux, m)
			bsd = append(bsd, m)
			name += "mss"
		}
		if mask&8 != 0 {
			linux = append(linux, sp)
			name += "+sackperm"
		}
		if mask&4 != 0 {
			linux = append(linux, ts)
			name += "+ts"
		}
		if mask&2 != 0 {
			linux = append(linux, []byte{1}, w)
			bsd = append(bsd, []byte{1}, w)
			name += "+ws"
		}
		if mask&8 != 0 {
			bsd = append(bsd, []byte{1, 1}, sp)
		}
		if mask&4 != 0 {
			bsd = append(bsd, []byte{1, 1}, ts)
		}
		add(name+"/linux-order", ref.PadOpts(linux...))
		add(name+"/bsd-order", ref.PadOpts(bsd...))
	}
	add("nop-padded", []byte{1, 1, 1, 1, 2, 4, 5, 0xb4, 1, 1, 1, 1})
	add("eol-early", []byte{2, 4, 5, 0xb4, 0, 0, 0, 0})
	add("unknown-254", []byte{254, 4, 0xaa, 0xbb, 2, 4, 5, 0xb4})
	add("truncated-length", []byte{2, 4, 5, 0xb4, 8, 10, 0, 0})
	add("mss-zero", []byte{2, 4, 0, 0})
	return sets
}

type c03Letter struct {
	name string
	// build returns flags, seq, ack, payload given peer ISS p and the stack's ISS s
	build func(p, s uint32) (flags uint8, seq, ack uint32, payload []byte)
}

func c03Wrong(s uint32) []uint32 {
	w := []uint32{s, s + 2, s + 1 + 1<<31, 0, 0xffffffff}
	var out []uint32
	for _, x := range w {
		if x != s+1 {
			out = append(out, x)
		}
	}
	return out
}

func c03PassiveAlphabet() []c03Letter {
	L := []c03Letter{
		{"SYN", func(p, s uint32) (uint8, uint32, uint32, []byte) { return ref.SYN, p, 0, nil }},
		{"SYN-otherseq", func(p, s uint32) (uint8, uint32, uint32, []byte) { return ref.SYN, p + 1000, 0, nil }},
		{"ACK-right", func(p, s uint32) (uint8, uint32, uint32, []byte) { return ref.ACK, p + 1, s + 1, nil }},
		{"RST-inwindow", func(p, s uint32) (uint8, uint32, uint32, []byte) { return ref.RST, p + 1, 0, nil }},
		{"RST-outofwindow", func(p, s uint32) (uint8, uint32, uint32, []byte) { return ref.RST, p + 1 + 1<<30 + 1<<29, 0, nil }},
		{"SYNACK-right", func(p, s uint32) (uint8, uint32, uint32, []byte) { return ref.SYN | ref.ACK, p, s + 1, nil }},
		{"DATA-right", func(p, s uint32) (uint8, uint32, uint32, []byte) {
			return ref.ACK | ref.PSH, p + 1, s + 1, []byte("hello")
		}},
	}
	for i := 0; i < 5; i++ {
		i := i
		L = append(L, c03Letter{fmt.Sprintf("ACK-wrong%d", i), func(p, s uint32) (uint8, uint32, uint32, []byte) {
			w := c03Wrong(s)
			return ref.ACK, p + 1, w[i%len(w)], nil
		}})
	}
	// a wrong ACK that also lacks the timestamp option although timestamps were negotiated: the
	// acknowledgement number is judged first (it is still answered by a reset)
	L = append(L, c03Letter{"ACK-wrong1-noTS", func(p, s uint32) (uint8, uint32, uint32, []byte) {
		return ref.ACK, p + 1, c03Wrong(s)[1], nil
	}})
	return L
}

func c03ActiveAlphabet() []c03Letter {
	L := []c03Letter{
		{"SYNACK-right", func(p, s uint32) (uint8, uint32, uint32, []byte) { return ref.SYN | ref.ACK, p, s + 1, nil }},
		{"SYN", func(p, s uint32) (uint8, uint32, uint32, []byte) { return ref.SYN, p, 0, nil }},
		{"RSTACK-right", func(p, s uint32) (uint8, uint32, uint32, []byte) { return ref.RST | ref.ACK, 0, s + 1, nil }},
		{"RSTACK-wrong", func(p, s uint32) (uint8, uint32, uint32, []byte) { return ref.RST | ref.ACK, 0, s + 2, nil }},
		{"RST", func(p, s uint32) (uint8, uint32, uint32, []byte) { return ref.RST, p + 1, 0, nil }},
		{"ACK-right", func(p, s uint32) (uint8, uint32, uint32, []byte) { return ref.ACK, p + 1, s + 1, nil }},
	}
	for i := 0; i < 5; i++ {
		i := i
		L = append(L, c03Letter{fmt.Sprintf("SYNACK-wrong%d", i), func(p, s uint32) (uint8, uint32, uint32, []byte) {
			w := c03Wrong(s)
			return ref.SYN | ref.ACK, p, w[i%len(w)], nil
		}})
	}
	L = append(L, c03Letter{"ACK-wrong", func(p, s uint32) (uint8, uint32, uint32, []byte) { return ref.ACK, p + 1, s + 2, nil }})
	return L
}

type c03Fail struct{ key, msg string }

// c03Passive runs one sequence against a fresh listener. Returns a failure or nil.
func c03Passive(cookie bool, pISS uint32, opts []byte, seq []int, alpha []c03Letter) (fail *c03Fail, outcome uint64, trace []string) {
	old := tcp.SynRcvdCountThreshold
	if cookie {
		tcp.SynRcvdCountThreshold = 0
	}
	defer func() { tcp.SynRcvdCountThreshold = old }()
	r := NewRaw(false, 1500)
	ScriptRand(0x01010101, 0x02020202, 0x03030303)
	defer func() {
		if e := recover(); e != nil {
			fail = &c03Fail{"panic", fmt.Sprintf("panic: %v", e)}
		}
	}()
	sk := r.n.NewSock(tcp.ProtocolNumber, r.netProto())
	must(sk.EP.Bind(tcpip.FullAddress{Port: stackPort}, nil))
	must(sk.EP.Listen(8))
	r.w.Settle()
	var accepted []tcpip.Endpoint
	defer func() {
		for _, a := range accepted {
			a.Close()
		}
		sk.EP.Close()
		r.w.Settle()
		for i := 0; i < 20 && vtime.FireNext(); i++ {
			r.w.Settle()
		}
		r.n.S.RemoveAddress(1, addrA4)
		r.n.S.RemoveAddress(1, addrA6)
		r.w.Settle()
	}()
	// model
	state := "none" // none | synrcvd | est
	var s uint32 = 0x12345
	knowS := false
	wantConns := 0
	tsOn, tsEcho := false, uint32(0)
	issued := map[[2]uint32]bool{}
	optional := false
	bad := func(key, f string, a ...interface{}) *c03Fail {
		return &c03Fail{key, fmt.Sprintf("after %v: ", trace) + fmt.Sprintf(f, a...)}
	}
	var sig []interface{}
	for _, li := range seq {
		l := alpha[li]
		flags, sq, ak, payload := l.build(pISS, s)
		trace = append(trace, l.name)
		var o []byte
		if flags&ref.SYN != 0 {
			o = opts
		} else if tsOn && flags&ref.RST == 0 && !strings.HasSuffix(l.name, "-noTS") {
			// RFC 7323: once timestamps are negotiated every non-reset segment carries them
			o = ref.PadOpts(ref.OptTS(22222, tsEcho))
		}
		r.SendTCP(peerPort, stackPort, sq, ak, flags, 30000, o, payload)
		frames := r.Collect()
		if r.MonErr != nil {
			return bad("malformed", "stack emitted a malformed frame: %v", r.MonErr), 0, trace
		}
		var tcps []*ref.TCP
		for _, d := range frames {
			if d.TCP != nil {
				tcps = append(tcps, d.TCP)
				if d.TCP.Flags == ref.SYN|ref.ACK && d.TCP.Opts.HasTS {
					tsOn, tsEcho = true, d.TCP.Opts.TSVal
				}
			}
		}
		rsts, synacks := 0, 0
		var rst, sa *ref.TCP
		for _, t := range tcps {
			if t.Flags&ref.RST != 0 {
				rsts++
				rst = t
			}
			if t.Flags == ref.SYN|ref.ACK {
				synacks++
				sa = t
			}
		}
		sig = append(sig, len(tcps), rsts, synacks)
		if flags&ref.RST != 0 && len(tcps) > 0 {
			return bad("rst-answered", "a reset segment was answered with %d segment(s)", len(tcps)), 0, trace
		}
		isRightAck := flags&ref.ACK != 0 && knowS && ak == s+1 && flags&ref.RST == 0
		isWrongAck := flags&ref.ACK != 0 && !(knowS && ak == s+1) && flags&ref.RST == 0
		switch state {
		case "none":
			if flags == ref.SYN {
				if synacks != 1 || sa.Ack != sq+1 {
					return bad("no-synack", "SYN (seq %d) to a listener was answered by %d SYN-ACKs (ack %v), want one acknowledging %d", sq, synacks, sa, sq+1), 0, trace
				}
				if !cookie {
					state = "synrcvd"
				}
				s, knowS = sa.Seq, true
				issued[[2]uint32{sq, sa.Seq}] = true
				if l.name == "SYN-otherseq" {
					pISS = sq // this is now the handshake's peer ISS
				}
			} else if cookie && flags == ref.ACK && knowS && ak == s+1 && sq == pISS+1 {
				wantConns = 1
				state = "est"
			} else if flags == ref.ACK && issued[[2]uint32{sq - 1, ak - 1}] {
				// the initial sequence number of every SYN-ACK is a SYN cookie that stays valid:
				// an ACK that acknowledges exactly a number the stack chose for that SYN may
				// complete the handshake at the listener even after the first attempt was
				// abandoned; either outcome satisfies the statement
				optional = true
			}
		case "synrcvd":
			switch {
			case flags&ref.RST != 0:
				if l.name == "RST-inwindow" {
					state = "none"
					knowS = false
				}
			case flags&ref.SYN != 0 && sq != pISS && !(flags&ref.ACK != 0 && !isRightAck):
				// a SYN with another sequence number kills the passive handshake and is reset
				if rsts != 1 {
					return bad("syn-otherseq-not-reset", "SYN with a different sequence number during the handshake was answered by %d resets, want 1", rsts), 0, trace
				}
				state = "none"
				knowS = false
			case isWrongAck:
				if rsts != 1 || rst.Seq != ak {
					got := "none"
					if rst != nil {
						got = fmt.Sprint(rst.Seq)
					}
					return bad("wrong-ack-not-reset", "handshake segment acknowledging %d (the stack chose %d) was answered by %d resets (seq %s); want exactly one reset with sequence number %d", ak, s+1, rsts, got, ak), 0, trace
				}
			case isRightAck:
				state = "est"
				wantConns = 1
			}
		case "est":
		}
		// count connections
		for {
			ep, _, err := sk.EP.Accept()
			if err != nil {
				break
			}
			accepted = append(accepted, ep)
		}
		if optional {
			optional = false
			if len(accepted) == wantConns+1 {
				wantConns++
				state = "est"
			}
		}
		if len(accepted) != wantConns {
			key := "connection-without-handshake"
			if len(accepted) < wantConns {
				key = "handshake-without-connection"
			} else if flags == ref.ACK && state == "none" {
				for pr := range issued {
					if d := int32(ak - (pr[1] + 1)); pr[0] == sq-1 && d != 0 && d >= -3 && d <= 3 {
						key = "cookie-near-miss-ack" // D15: validated by the listener's SYN-cookie check
					}
				}
			}
			return bad(key, "Accept has handed out %d connection(s), the handshake reference says %d (state %s, stack ISS %d known=%v)", len(accepted), wantConns, state, s, knowS), 0, trace
		}
	}
	return nil, engine.Hash(sig...), trace
}

// c03Active runs one sequence of peer answers against a fresh active open.
func c03Active(sISS, pISS uint32, seq []int, alpha []c03Letter) (fail *c03Fail, outcome uint64, trace []string) {
	r := NewRaw(false, 1500)
	ScriptRand(0x01010101, sISS, sISS, sISS)
	defer func() {
		if e := recover(); e != nil {
			fail = &c03Fail{"panic", fmt.Sprintf("panic: %v", e)}
		}
	}()
	sk := r.n.NewSock(tcp.ProtocolNumber, r.netProto())
	must(sk.EP.Bind(tcpip.FullAddress{Port: stackPort}, nil))
	defer func() {
		sk.EP.Close()
		r.w.Settle()
		for i := 0; i < 20 && vtime.FireNext(); i++ {
			r.w.Settle()
		}
		r.n.S.RemoveAddress(1, addrA4)
		r.n.S.RemoveAddress(1, addrA6)
		r.w.Settle()
	}()
	bad := func(key, f string, a ...interface{}) *c03Fail {
		return &c03Fail{key, fmt.Sprintf("after %v: ", trace) + fmt.Sprintf(f, a...)}
	}
	if err := sk.EP.Connect(tcpip.FullAddress{Addr: tcpip.Address(r.pAddr), Port: peerPort}); err != tcpip.ErrConnectStarted {
		return bad("connect", "Connect returned %v", err), 0, nil
	}
	r.w.Settle()
	fr := r.Collect()
	if len(fr) != 1 || fr[0].TCP == nil || fr[0].TCP.Flags != ref.SYN {
		return bad("no-syn", "active open emitted %d frames, want one SYN", len(fr)), 0, nil
	}
	s := fr[0].TCP.Seq
	if s != sISS {
		return bad("harness-iss", "harness could not pin the stack's ISS (%d != %d)", s, sISS), 0, nil
	}
	state := "synsent" // synsent | synrcvd | est | refused
	var sig []interface{}
	for _, li := range seq {
		l := alpha[li]
		flags, sq, ak, payload := l.build(pISS, s)
		trace = append(trace, l.name)
		var o []byte
		if flags&ref.SYN != 0 {
			o = ref.PadOpts(ref.OptMSS(1460))
		}
		r.SendTCP(peerPort, stackPort, sq, ak, flags, 30000, o, payload)
		frames := r.Collect()
		if r.MonErr != nil {
			return bad("malformed", "stack emitted a malformed frame: %v", r.MonErr), 0, trace
		}
		var tcps []*ref.TCP
		for _, d := range frames {
			if d.TCP != nil {
				tcps = append(tcps, d.TCP)
			}
		}
		rsts := 0
		var rst *ref.TCP
		for _, t := range tcps {
			if t.Flags&ref.RST != 0 {
				rsts++
				rst = t
			}
		}
		sig = append(sig, len(tcps), rsts)
		if flags&ref.RST != 0 && len(tcps) > 0 {
			return bad("rst-answered", "a reset segment was answered with %d segment(s)", len(tcps)), 0, trace
		}
		rightAck := flags&ref.ACK != 0 && ak == s+1
		wrongAck := flags&ref.ACK != 0 && ak != s+1
		if state == "synsent" || state == "synrcvd" {
			switch {
			case flags&ref.RST != 0:
				if state == "synsent" && rightAck {
					state = "refused"
				} else if state == "synrcvd" && sq-(pISS+1) < 30000 {
					state = "refused" // in-window reset during simultaneous open
				}
			case wrongAck:
				if rsts != 1 || rst.Seq != ak {
					return bad("wrong-ack-not-reset", "segment acknowledging %d (the stack's SYN needs %d) was answered by %d resets; want exactly one with sequence number %d", ak, s+1, rsts, ak), 0, trace
				}
			case state == "synsent" && flags&ref.SYN != 0 && rightAck:
				state = "est"
			case state == "synsent" && flags == ref.SYN:
				state = "synrcvd"
			case state == "synrcvd" && rightAck && (flags&ref.SYN == 0 || sq == pISS):
				state = "est"
			}
		}
		st := tcp.VerifDump(sk.EP)
		connected := st.State == 4
		failed := st.State == 6
		if connected != (state == "est") {
			return bad("active-open-state", "endpoint connected=%v but the handshake reference is in state %s (a connection may complete only on a SYN-ACK acknowledging exactly %d)", connected, state, s+1), 0, trace
		}
		if failed != (state == "refused") {
			return bad("active-open-error", "endpoint failed=%v (%s) but the handshake reference is in state %s", failed, st.HardError, state), 0, trace
		}
		if state == "est" || state == "refused" {
			break
		}
	}
	return nil, engine.Hash(sig...), trace
}

// c03Stray: one segment with the given flags to a port; listener or no socket.
func c03Stray(listener bool, flags uint8, plen int) (fail *c03Fail, outcome uint64) {
	r := NewRaw(false, 1500)
	ScriptRand(0x01010101, 0x02020202)
	defer func() {
		if e := recover(); e != nil {
			fail = &c03Fail{"panic", fmt.Sprintf("panic: %v", e)}
		}
	}()
	var sk *Sock
	if listener {
		sk = r.n.NewSock(tcp.ProtocolNumber, r.netProto())
		must(sk.EP.Bind(tcpip.FullAddress{Port: stackPort}, nil))
		must(sk.EP.Listen(8))
		r.w.Settle()
	}
	defer func() {
		if sk != nil {
			sk.EP.Close()
		}
		r.w.Settle()
		for i := 0; i < 20 && vtime.FireNext(); i++ {
			r.w.Settle()
		}
		r.n.S.RemoveAddress(1, addrA4)
		r.n.S.RemoveAddress(1, addrA6)
		r.w.Settle()
	}()
	payload := []byte("stray")[:plen]
	const seq, ack = 0x7fffff00, 0x80000123
	r.SendTCP(peerPort, stackPort, seq, ack, flags, 1000, nil, payload)
	frames := r.Collect()
	name := fmt.Sprintf("flags %#02x payload %d to a port with listener=%v", flags, plen, listener)
	if r.MonErr != nil {
		return &c03Fail{"malformed", name + ": malformed frame: " + r.MonErr.Error()}, 0
	}
	var tcps []*ref.TCP
	for _, d := range frames {
		if d.TCP != nil {
			tcps = append(tcps, d.TCP)
		}
	}
	if flags&ref.RST != 0 {
		if len(tcps) != 0 {
			return &c03Fail{"rst-answered", name + fmt.Sprintf(": a reset was answered with %d segment(s)", len(tcps))}, 0
		}
		return nil, engine.Hash(flags, plen, 0)
	}
	if !listener {
		if len(tcps) != 1 || tcps[0].Flags&ref.RST == 0 {
			return &c03Fail{"stray-not-reset", name + fmt.Sprintf(": answered with %d segment(s), want exactly one reset", len(tcps))}, 0
		}
		t := tcps[0]
		wantSeq := uint32(0)
		if flags&ref.ACK != 0 {
			wantSeq = ack
		}
		ll := uint32(plen)
		if flags&ref.SYN != 0 {
			ll++
		}
		if flags&ref.FIN != 0 {
			ll++
		}
		if t.Seq != wantSeq {
			return &c03Fail{"stray-reset-seq", name + fmt.Sprintf(": reset has sequence number %d, want %d", t.Seq, wantSeq)}, 0
		}
		if t.Flags&ref.ACK == 0 || t.Ack != seq+ll {
			return &c03Fail{"stray-reset-ack", name + fmt.Sprintf(": reset acknowledges %d (ACK flag %v), want %d", t.Ack, t.Flags&ref.ACK != 0, seq+ll)}, 0
		}
		return nil, engine.Hash(flags, plen, 1)
	}
	// listener: a single stray segment never creates a connection
	if _, _, err := sk.EP.Accept(); err == nil {
		return &c03Fail{"connection-without-handshake", name + ": Accept handed out a connection after a single segment"}, 0
	}
	if flags == ref.SYN {
		if len(tcps) != 1 || tcps[0].Flags != ref.SYN|ref.ACK || tcps[0].Ack != seq+1 {
			return &c03Fail{"no-synack", name + fmt.Sprintf(": SYN answered with %d segments", len(tcps))}, 0
		}
	}
	return nil, engine.Hash(flags, plen, len(tcps))
}

// ---------- jobs ----------

func c03Jobs(tier string) []string {
	var jobs []string
	depth := 3
	if tier == "thorough" {
		depth = 4
	}
	na := len(c03PassiveAlphabet())
	for _, mode := range []string{"normal", "cookie"} {
		for pi := range c03PeerISS {
			if tier != "thorough" && pi != 0 && pi != 3 && pi != 4 {
				continue
			}
			for first := 0; first < na; first++ {
				jobs = append(jobs, fmt.Sprintf("passive:%s:%d:%d:%d", mode, pi, depth, first))
			}
		}
		jobs = append(jobs, "options:"+mode)
	}
	nb := len(c03ActiveAlphabet())
	for si := range c03StackISS {
		for first := 0; first < nb; first++ {
			jobs = append(jobs, fmt.Sprintf("active:%d:%d:%d", si, depth, first))
		}
	}
	jobs = append(jobs, "strays:0", "strays:1", "cross")
	return jobs
}

func c03Run(job, tier string, deadline time.Time) *engine.Result {
	r := &engine.Result{Exhaustive: true}
	parts := strings.Split(job, ":")
	report := func(f *c03Fail, replay interface{}) {
		if len(r.Violations) < 6 {
			r.Violations = append(r.Violations, engine.Violation{Property: "C03", Kind: "handshake", Key: f.key, Detail: f.msg, Job: job, Replay: engine.MustJSON(replay)})
		}
	}
	outcomes := map[uint64]bool{}
	defer func() {
		for o := range outcomes {
			if len(r.Outcomes) < 2000 {
				r.Outcomes = append(r.Outcomes, o)
			}
		}
		r.States = int64(len(outcomes)) + 1
		r.Recycle = runtime.NumGoroutine() > 100
	}()
	switch parts[0] {
	case "passive":
		var pi, depth, first int
		fmt.Sscan(parts[2], &pi)
		fmt.Sscan(parts[3], &depth)
		fmt.Sscan(parts[4], &first)
		alpha := c03PassiveAlphabet()
		cookie := parts[1] == "cookie"
		var rec func(seq []int)
		rec = func(seq []int) {
			if time.Now().After(deadline) {
				r.Exhaustive = false
				return
			}
			f, o, tr := c03Passive(cookie, c03PeerISS[pi], ref.PadOpts(ref.OptMSS(1460)), seq, alpha)
			r.Execs++
			r.Transitions += int64(len(seq))
			r.Nontrivial++
			outcomes[o] = true
			if f != nil {
				report(f, map[string]interface{}{"job": job, "seq": seq})
				return
			}
			if r.Execs == 5 {
				r.Sample(map[string]interface{}{"mode": parts[1], "peer_iss": c03PeerISS[pi], "segments": tr})
			}
			if len(seq) < depth {
				for l := range alpha {
					rec(append(append([]int(nil), seq...), l))
				}
			}
		}
		rec([]int{first})
	case "options":
		cookie := parts[1] == "cookie"
		alpha := c03PassiveAlphabet()
		third := []int{2, 7, 8, 9, 10, 11, 12} // right ACK and the wrong ACKs (the last without timestamps)
		for _, os := range c03OptionSets() {
			for _, p := range c03PeerISS {
				for _, t := range third {
					f, o, _ := c03Passive(cookie, p, []byte(os[1]), []int{0, t}, alpha)
					r.Execs++
					r.Transitions += 2
					r.Nontrivial++
					outcomes[o] = true
					if f != nil {
						f.msg = "SYN options " + os[0] + ": " + f.msg
						report(f, map[string]interface{}{"job": job, "opts": []byte(os[1]), "piss": p, "seq": []int{0, t}})
					}
				}
			}
		}
		r.Sample(map[string]interface{}{"option_sets": len(c03OptionSets()), "peer_iss": c03PeerISS, "third_segment": "right ACK and 5 wrong ACKs"})
	case "active":
		var si, depth, first int
		fmt.Sscan(parts[1], &si)
		fmt.Sscan(parts[2], &depth)
		fmt.Sscan(parts[3], &first)
		alpha := c03ActiveAlphabet()
		var rec func(seq []int)
		rec = func(seq []int) {
			if time.Now().After(deadline) {
				r.Exhaustive = false
				return
			}
			f, o, tr := c03Active(c03StackISS[si], 0x7ffffff0, seq, alpha)
			r.Execs++
			r.Transitions += int64(len(seq))
			r.Nontrivial++
			outcomes[o] = true
			if f != nil {
				report(f, map[string]interface{}{"job": job, "seq": seq})
				return
			}
			if r.Execs == 5 {
				r.Sample(map[string]interface{}{"stack_iss": c03StackISS[si], "segments": tr})
			}
			if len(seq) < depth {
				for l := range alpha {
					rec(append(append([]int(nil), seq...), l))
				}
			}
		}
		rec([]int{first})
	case "cross":
		for _, cookie := range []bool{false, true} {
			for _, v := range c03CrossVariants {
				for _, p := range c03PeerISS {
					f := c03Cross(cookie, v, p)
					r.Execs++
					r.Transitions += 2
					r.Nontrivial++
					outcomes[engine.Hash(cookie, v, f == nil)] = true
					if f != nil {
						report(f, map[string]interface{}{"job": job, "cross": v, "cookie": cookie, "piss": p})
					}
				}
			}
		}
		r.Sample(map[string]interface{}{"cross": "the numbers of a handshake on (X, port A) presented in a bare ACK from another port / another address / to another listening port, normal and cookie mode, 5 peer ISS"})
	case "strays":
		listener := parts[1] == "1"
		for fl := 0; fl < 64; fl++ {
			for _, pl := range []int{0, 5} {
				f, o := c03Stray(listener, uint8(fl), pl)
				r.Execs++
				r.Transitions++
				r.Nontrivial++
				outcomes[o] = true
				if f != nil {
					report(f, map[string]interface{}{"job": job, "flags": fl, "plen": pl})
				}
			}
		}
		r.Sample(map[string]interface{}{"strays": "all 64 flag combinations x payload {0,5}", "listener": listener})
	}
	return r
}

func c03Replay(rp json.RawMessage) *engine.Violation {
	var p struct {
		Job    string
		Seq    []int
		Opts   []byte
		Piss   uint32
		Flags  int
		Plen   int
		Cross  string
		Cookie bool
	}
	if json.Unmarshal(rp, &p) != nil {
		return nil
	}
	parts := strings.Split(p.Job, ":")
	var f *c03Fail
	switch parts[0] {
	case "passive":
		var pi int
		fmt.Sscan(parts[2], &pi)
		f, _, _ = c03Passive(parts[1] == "cookie", c03PeerISS[pi], ref.PadOpts(ref.OptMSS(1460)), p.Seq, c03PassiveAlphabet())
	case "options":
		f, _, _ = c03Passive(parts[1] == "cookie", p.Piss, p.Opts, p.Seq, c03PassiveAlphabet())
	case "active":
		var si int
		fmt.Sscan(parts[1], &si)
		f, _, _ = c03Active(c03StackISS[si], 0x7ffffff0, p.Seq, c03ActiveAlphabet())
	case "strays":
		f, _ = c03Stray(parts[1] == "1", uint8(p.Flags), p.Plen)
	case "cross":
		f = c03Cross(p.Cookie, p.Cross, p.Piss)
	}
	if f == nil {
		return nil
	}
	return &engine.Violation{Property: "C03", Kind: "handshake", Key: f.key, Detail: f.msg}
}
