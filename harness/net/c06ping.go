package main

import (
	"bytes"
	"fmt"

	tcpip "github.com/brewlin/net-protocol/protocol"
	"github.com/brewlin/net-protocol/protocol/header"
	"github.com/brewlin/net-protocol/protocol/network/ipv4"
	"github.com/brewlin/net-protocol/protocol/network/ipv6"
	"github.com/brewlin/net-protocol/protocol/transport/ping"
)

// C06, echo requests the stack originates itself (the bundled ping endpoint): stack A pings
// stack B over IPv4 and IPv6 with every payload length of a small set; the request and the
// reply must decode (ICMPv6 checksums include the pseudo-header) and the reply must come back
// to the ping socket with the bytes that were sent.
func c06Ping(v6 bool, payloadLen int) string {
	saved := allTrans
	allTrans = append(append([]string{}, allTrans...), ping.ProtocolName4, ping.ProtocolName6)
	defer func() { allTrans = saved }()
	c := c11NewWorld()
	defer c.close()
	net, trans, dst := tcpip.NetworkProtocolNumber(ipv4.ProtocolNumber), tcpip.TransportProtocolNumber(header.ICMPv4ProtocolNumber), addrB4
	typ, replyTyp := byte(8), byte(0)
	if v6 {
		net, trans, dst = ipv6.ProtocolNumber, header.ICMPv6ProtocolNumber, addrB6
		typ, replyTyp = 128, 129
	}
	sk := c.a.NewSock(trans, net)
	defer sk.EP.Close()
	msg := append([]byte{typ, 0, 0, 0, 0, 0, 0x00, 0x2a}, c11Data(byte(payloadLen), payloadLen)...)
	what := fmt.Sprintf("ping v6=%v payload %d", v6, payloadLen)
	if _, _, err := sk.EP.Write(tcpip.SlicePayload(append([]byte(nil), msg...)), tcpip.WriteOptions{To: &tcpip.FullAddress{NIC: 1, Addr: dst}}); err != nil {
		return what + ": write failed: " + err.String()
	}
	c.w.Settle()
	frames, ferr := c.pump()
	if ferr != nil {
		return what + ": malformed frame: " + ferr.Error()
	}
	var req, rep *Decoded
	for _, d := range frames {
		if d != nil && d.ICMP != nil && d.ICMP.Type == typ {
			req = d
		}
		if d != nil && d.ICMP != nil && d.ICMP.Type == replyTyp {
			rep = d
		}
	}
	if req == nil {
		return what + ": no echo request was emitted"
	}
	if !bytes.Equal(req.ICMP.Data, msg[8:]) || req.ICMP.Seq != 0x2a {
		return fmt.Sprintf("%s: the emitted request carries seq %d and %d payload bytes, written were seq 42 and %d bytes", what, req.ICMP.Seq, len(req.ICMP.Data), payloadLen)
	}
	if rep == nil {
		return what + ": the peer stack (same code) did not answer the request"
	}
	v, _, err := sk.EP.Read(nil)
	if err != nil {
		return what + ": the reply did not reach the ping socket: " + err.String()
	}
	if len(v) < 8 || v[0] != replyTyp || !bytes.Equal(v[8:], msg[8:]) {
		return fmt.Sprintf("%s: the ping socket read %x", what, []byte(v))
	}
	return ""
}
