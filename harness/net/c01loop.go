package main

import (
	"bytes"
	"fmt"
	"strings"

	"github.com/brewlin/net-protocol/pkg/waiter"
	tcpip "github.com/brewlin/net-protocol/protocol"
	"github.com/brewlin/net-protocol/protocol/link/loopback"
	"github.com/brewlin/net-protocol/protocol/network/ipv4"
	"github.com/brewlin/net-protocol/protocol/network/ipv6"
	"github.com/brewlin/net-protocol/protocol/transport/tcp"
)

// C01 over the repository's loopback link (synchronous delivery inside the sender's call,
// checksum offload): one stack connects to itself over IPv4 / IPv6, moves data both ways in
// the given write sizes, half-closes both ways; both streams must arrive complete and in
// order, followed by end-of-stream.
func c01Loopback(v6 bool, writes []int) string {
	w := NewWorld()
	ScriptRand(1, 2, 3)
	node := w.AddNode(NodeCfg{Name: "S", V4: []tcpip.Address{addrA4}, V6: []tcpip.Address{addrA6}, MTU: 1500})
	lo4 := tcpip.Address("\x7f\x00\x00\x01")
	lo6 := tcpip.Address(strings.Repeat("\x00", 15) + "\x01")
	must(node.S.CreateNIC(2, loopback.New()))
	must(node.S.AddAddress(2, ipv4.ProtocolNumber, lo4))
	must(node.S.AddAddress(2, ipv6.ProtocolNumber, lo6))
	node.S.SetRouteTable([]tcpip.Route{
		{Destination: lo4, Mask: tcpip.AddressMask("\xff\xff\xff\xff"), NIC: 2},
		{Destination: lo6, Mask: tcpip.AddressMask(strings.Repeat("\xff", 16)), NIC: 2},
	})
	defer func() {
		for _, a := range []tcpip.Address{addrA4, addrA6} {
			node.S.RemoveAddress(1, a)
		}
		node.S.RemoveAddress(2, lo4)
		node.S.RemoveAddress(2, lo6)
		w.Settle()
	}()
	net, dst := tcpip.NetworkProtocolNumber(ipv4.ProtocolNumber), lo4
	if v6 {
		net, dst = ipv6.ProtocolNumber, lo6
	}
	what := fmt.Sprintf("loopback v6=%v writes %v", v6, writes)
	ls := node.NewSock(tcp.ProtocolNumber, net)
	defer ls.EP.Close()
	must(ls.EP.Bind(tcpip.FullAddress{Port: 8080}, nil))
	must(ls.EP.Listen(2))
	cs := node.NewSock(tcp.ProtocolNumber, net)
	defer cs.EP.Close()
	if err := cs.EP.Connect(tcpip.FullAddress{Addr: dst, Port: 8080}); err != nil && err != tcpip.ErrConnectStarted {
		return what + ": connect: " + err.String()
	}
	w.Settle()
	srv, _, err := ls.EP.Accept()
	if err != nil {
		return what + ": no connection to accept after the handshake had every chance to finish: " + err.String()
	}
	defer srv.Close()
	if cs.EP.Readiness(waiter.EventOut) == 0 {
		return what + ": the connecting socket never became writable"
	}
	var sentA, sentB []byte
	transfer := func(from, to tcpip.Endpoint, seed byte, sent *[]byte) string {
		var got []byte
		for k, n := range writes {
			data := pattern(seed+byte(k), n, len(*sent))
			for len(data) > 0 {
				wrote, _, err := from.Write(tcpip.SlicePayload(append([]byte(nil), data...)), tcpip.WriteOptions{})
				w.Settle()
				if err != nil && err != tcpip.ErrWouldBlock {
					return "write: " + err.String()
				}
				*sent = append(*sent, data[:wrote]...)
				data = data[wrote:]
				for {
					v, _, rerr := to.Read(nil)
					w.Settle()
					if rerr != nil {
						break
					}
					got = append(got, v...)
				}
				if err == tcpip.ErrWouldBlock && wrote == 0 && from.Readiness(waiter.EventOut) == 0 {
					return fmt.Sprintf("the writer stays blocked with %d bytes delivered of %d written and nothing left to read", len(got), len(*sent))
				}
			}
		}
		if err := from.Shutdown(tcpip.ShutdownWrite); err != nil {
			return "shutdown: " + err.String()
		}
		w.Settle()
		for {
			v, _, rerr := to.Read(nil)
			w.Settle()
			if rerr == tcpip.ErrClosedForReceive {
				break
			}
			if rerr != nil {
				return fmt.Sprintf("after the writer shut down, Read returns %v instead of end-of-stream (%d of %d bytes delivered)", rerr, len(got), len(*sent))
			}
			got = append(got, v...)
		}
		if !bytes.Equal(got, *sent) {
			return fmt.Sprintf("%d bytes written, %d read, or different bytes", len(*sent), len(got))
		}
		return ""
	}
	if m := transfer(cs.EP, srv, 1, &sentA); m != "" {
		return what + " (client to server): " + m
	}
	if m := transfer(srv, cs.EP, 40, &sentB); m != "" {
		return what + " (server to client): " + m
	}
	return ""
}
