package main

import (
	"encoding/json"
	"fmt"
	"runtime"
	"sort"
	"strings"
	"time"

	tcpip "github.com/brewlin/net-protocol/protocol"
	"github.com/brewlin/net-protocol/protocol/network/ipv4"
	"github.com/brewlin/net-protocol/protocol/network/ipv6"
	"github.com/brewlin/net-protocol/protocol/transport/tcp"
	"github.com/brewlin/net-protocol/protocol/transport/udp"

	"verif/engine"
	"verif/ref"
	"verif/shim/vsched"
	"verif/shim/vtime"
)

// C09: inbound packets reach exactly the socket they are addressed to, or nobody.
//   sets:<i>/<n>   every compatible set of <=3 sockets from the menu, every open order, every single
//                  close; after each operation every inbound 4-tuple is injected and the receiver
//                  compared with the most-specific-match reference
//   coop:<prog>    bind/close racing packet delivery under the cooperative scheduler

func init() {
	engine.Register(&engine.Check{
		ID:         "C09",
		Technique:  "explicit-state search over socket-set histories (open orders, closes, interface toggles) on the real stack with exhaustive injection of the inbound 4-tuple alphabet after every operation, against a most-specific-match reference; stateless model checking (cooperative scheduler, all schedules) of registration/unregistration racing delivery",
		Rule:       "sockets from {UDP bound *:P, A1:P, A2:P, A3:P(NIC2), A1:P connected to R:Q, *:P connected to R:Q; the same connected through NIC 1 explicitly, A1:P bound on NIC 1, *:P bound on NIC 2; TCP listener *:P, A1:P}: all sets of size <=3 in all open orders, then each single close; toggles promiscuous on and off again / subnet added and removed again / removal of the second local address; every connected socket connecting again to the peer it already has; a TCP connection A1:P<-R:Q established through the listener (its segments must reach it, not the listener); after each operation inject dst {A1,A2,A3,foreign,unassigned} x dport {P,P'} x src {R,R'} x sport {Q,Q'} x {UDP, TCP SYN, TCP ACK+data} on each NIC; distinct = distinct (history, packet)",
		Assumes:    []string{"sockets are registered with the global demultiplexer (NIC 0) except accepted TCP connections"},
		Jobs:       c09Jobs,
		Run:        c09Run,
		Replay:     c09Replay,
		NeedRepro:  true,
		WorkerJobs: 30,
	})
}

var (
	c09A1      = addrA4
	c09A2      = tcpip.Address("\x0a\x00\x00\x07")
	c09A3      = tcpip.Address("\x0a\x00\x01\x01")
	c09Foreign = tcpip.Address("\x0a\x00\x00\x63")
	c09Unass   = tcpip.Address("\xc0\xa8\x4d\x01")
	c09R       = addrB4
	c09R2      = tcpip.Address("\x0a\x00\x00\x0b")
)

const (
	c09P, c09P2 = 7000, 7001
	c09Q, c09Q2 = 9000, 9001
)

type c09Spec struct {
	Name    string
	TCP     bool
	Listen  bool
	Local   tcpip.Address // "" = wildcard
	Conn    bool          // connected to R:Q
	BindNIC int           // Bind with FullAddress.NIC set (socket lives in that NIC's demultiplexer)
	ConnNIC int           // Connect with FullAddress.NIC set after a NIC-less bind
}

var c09Menu = []c09Spec{
	{Name: "udp*:P"},
	{Name: "udpA1:P", Local: c09A1},
	{Name: "udpA2:P", Local: c09A2},
	{Name: "udpA3:P", Local: c09A3},
	{Name: "udpA1:P>R:Q", Local: c09A1, Conn: true},
	{Name: "udp*:P>R:Q", Conn: true},
	{Name: "tcpL*:P", TCP: true, Listen: true},
	{Name: "tcpLA1:P", TCP: true, Listen: true, Local: c09A1},
	{Name: "udp*:P>R:Q@nic1", Conn: true, ConnNIC: 1},
	{Name: "udpA1:P@nic1", Local: c09A1, BindNIC: 1},
	{Name: "udp*:P@nic2", BindNIC: 2},
	{Name: "udpA2:P>R:Q", Local: c09A2, Conn: true}, // bound to a secondary address, then connected
}

type c09Sock struct {
	spec     c09Spec
	ep       tcpip.Endpoint
	conns    []tcpip.Endpoint // accepted connections (listeners)
	peer     tcpip.Address    // set once the socket connected to another peer than R:Q
	peerPort uint16
}

type c09World struct {
	r         *Raw
	socks     []*c09Sock
	promis    bool
	subnet    bool
	tcpConn   tcpip.Endpoint // established A1:P <-> R:Q (through a listener)
	connIss   uint32
	peerNxt   uint32
	counter   int
	oneNIC    bool
	removedA2 bool
}

func c09NewWorld() *c09World { return c09NewWorldN(2) }

// c09NewWorldN: nics=1 for the scheduler-controlled harness (the stack iterates its NIC map in
// random order while taking locks, which would make schedules non-replayable with two NICs).
func c09NewWorldN(nics int) *c09World {
	r := NewRaw(false, 1500)
	ScriptRand(1, 2, 3)
	must(r.n.S.AddAddress(1, ipv4.ProtocolNumber, c09A2))
	if nics < 2 {
		r.Local = append(r.Local, c09A2)
		return &c09World{r: r, oneNIC: true}
	}
	r.w.AddNIC(r.n, 2, NodeCfg{V4: []tcpip.Address{c09A3}, MTU: 1500})
	r.n.S.SetRouteTable([]tcpip.Route{
		{Destination: "\x0a\x00\x01\x00", Mask: "\xff\xff\xff\x00", NIC: 2},
		{Destination: "\x00\x00\x00\x00", Mask: "\x00\x00\x00\x00", NIC: 1},
	})
	r.Local = append(r.Local, c09A2, c09A3)
	return &c09World{r: r}
}

func (c *c09World) close() {
	for _, s := range c.socks {
		for _, k := range s.conns {
			k.Close()
		}
		s.ep.Close()
	}
	if c.tcpConn != nil {
		c.tcpConn.Close()
	}
	c.r.w.Settle()
	for i := 0; i < 20 && vtime.FireNext(); i++ {
		c.r.w.Settle()
	}
	for _, a := range []tcpip.Address{addrA4, addrA6, c09A2} {
		c.r.n.S.RemoveAddress(1, a)
	}
	if !c.oneNIC {
		c.r.n.S.RemoveAddress(2, c09A3)
	}
	c.r.w.Settle()
}

// open creates the socket; ok=false when the stack refuses it (incompatible with what is open).
func (c *c09World) open(spec c09Spec) bool {
	ok := c.open2(spec)
	c.r.w.Settle()
	return ok
}

// open2 is open without waiting for the world to settle.
func (c *c09World) open2(spec c09Spec) bool {
	proto := tcpip.TransportProtocolNumber(udp.ProtocolNumber)
	if spec.TCP {
		proto = tcp.ProtocolNumber
	}
	sk := c.r.n.NewSock(proto, ipv4.ProtocolNumber)
	if err := sk.EP.Bind(tcpip.FullAddress{NIC: tcpip.NICID(spec.BindNIC), Addr: spec.Local, Port: c09P}, nil); err != nil {
		sk.EP.Close()
		return false
	}
	if spec.Listen {
		if err := sk.EP.Listen(8); err != nil {
			sk.EP.Close()
			return false
		}
	}
	if spec.Conn {
		if err := sk.EP.Connect(tcpip.FullAddress{NIC: tcpip.NICID(spec.ConnNIC), Addr: c09R, Port: c09Q}); err != nil {
			sk.EP.Close()
			return false
		}
	}
	c.socks = append(c.socks, &c09Sock{spec: spec, ep: sk.EP})
	return true
}

type c09Pkt struct {
	NIC   int
	Dst   tcpip.Address
	DPort uint16
	Src   tcpip.Address
	SPort uint16
	Kind  string // udp | syn | ack
}

func c09Packets() []c09Pkt {
	var ps []c09Pkt
	for _, nic := range []int{1, 2} {
		for _, dst := range []tcpip.Address{c09A1, c09A2, c09A3, c09Foreign, c09Unass} {
			for _, dp := range []uint16{c09P, c09P2} {
				for _, src := range []tcpip.Address{c09R, c09R2} {
					for _, sp := range []uint16{c09Q, c09Q2} {
						for _, k := range []string{"udp", "ack", "syn"} {
							if nic == 2 && !(dst == c09A3 || dst == c09A1) {
								continue
							}
							ps = append(ps, c09Pkt{nic, dst, dp, src, sp, k})
						}
					}
				}
			}
		}
	}
	return ps
}

// expect computes the reference receiver: index into c.socks, or -1 for nobody; processed=false
// if the packet must not be processed at all (no response of any kind).
func (c *c09World) expect(p c09Pkt) (idx int, processed bool) {
	// a connected socket holds a route, and a route keeps its local address alive after
	// RemoveAddress until it is released (the repository's documented delayed removal)
	a2held := false
	for _, s := range c.socks {
		if s.spec.Conn && s.spec.Local == c09A2 {
			a2held = true
		}
	}
	assigned := (p.NIC == 1 && (p.Dst == c09A1 || (p.Dst == c09A2 && (!c.removedA2 || a2held)))) || (p.NIC == 2 && p.Dst == c09A3)
	if !assigned {
		if p.NIC == 1 && (c.promis || (c.subnet && p.Dst == c09Foreign)) {
			// promiscuous NIC / subnet owner processes it as if the address were local
		} else {
			return -1, false
		}
	}
	if p.DPort != c09P {
		return -1, true
	}
	best, bestRank := -1, 0
	for i, s := range c.socks {
		if s.spec.TCP != (p.Kind != "udp") {
			continue
		}
		if nic := s.spec.BindNIC + s.spec.ConnNIC; nic != 0 && nic != p.NIC {
			continue // the socket lives in one NIC's demultiplexer only
		}
		local := s.spec.Local
		if s.spec.Conn && local == "" {
			local = c09A1 // connect() on a wildcard-bound socket fixes the local address chosen by the route to R
		}
		if local != "" && local != p.Dst {
			continue
		}
		peer, peerPort := tcpip.Address(c09R), uint16(c09Q)
		if s.peer != "" {
			peer, peerPort = s.peer, s.peerPort
		}
		if s.spec.Conn && !(p.Src == peer && p.SPort == peerPort) {
			continue
		}
		// rank: connected+specific 4, connected+wildcard 3, specific 2, wildcard 1
		rank := 1
		if s.spec.Local != "" {
			rank = 2
		}
		if s.spec.Conn {
			rank += 2
		}
		if s.spec.BindNIC+s.spec.ConnNIC != 0 {
			rank += 4 // the NIC's own table is consulted before the stack-wide one
		}
		if rank > bestRank {
			best, bestRank = i, rank
		}
	}
	return best, true
}

type c09Fail struct{ key, msg string }

// connTuple: is p addressed to the established connection A1:P <- R:Q on NIC 1?
func (c *c09World) connTuple(p c09Pkt) bool {
	return c.tcpConn != nil && p.NIC == 1 && p.Dst == c09A1 && p.DPort == c09P && p.Src == c09R && p.SPort == c09Q
}

// establish completes a handshake R:Q -> A1:P through whichever listener matches and accepts it.
func (c *c09World) establish() *c09Fail {
	const piss = 91000
	syn := ref.BuildTCP(c09Q, c09P, piss, 0, ref.SYN, 30000, ref.PadOpts(ref.OptMSS(1460)), nil, []byte(c09R), []byte(c09A1))
	c.r.w.Inject(c.r.n, 1, ipv4.ProtocolNumber, ref.BuildIPv4([]byte(c09R), []byte(c09A1), ref.ProtoTCP, 7, 0, 0, 64, syn), "", "")
	var iss uint32
	found := false
	for _, d := range c.r.Collect() {
		if d.TCP != nil && d.TCP.Flags == ref.SYN|ref.ACK {
			iss, found = d.TCP.Seq, true
		}
	}
	if !found {
		return &c09Fail{"harness", "no SYN-ACK for the establishing handshake"}
	}
	ack := ref.BuildTCP(c09Q, c09P, piss+1, iss+1, ref.ACK, 30000, nil, nil, []byte(c09R), []byte(c09A1))
	c.r.w.Inject(c.r.n, 1, ipv4.ProtocolNumber, ref.BuildIPv4([]byte(c09R), []byte(c09A1), ref.ProtoTCP, 8, 0, 0, 64, ack), "", "")
	c.r.Collect()
	for _, sk := range c.socks {
		if sk.spec.Listen {
			if ep, _, err := sk.ep.Accept(); err == nil {
				c.tcpConn, c.connIss, c.peerNxt = ep, iss, piss+1
				return nil
			}
		}
	}
	return &c09Fail{"harness", "the establishing handshake produced no connection"}
}

// probe injects p and compares what happened with the reference.
func (c *c09World) probe(p c09Pkt, hist string) *c09Fail {
	c.counter++
	payload := []byte(fmt.Sprintf("probe-%06d", c.counter))
	var pkt []byte
	switch p.Kind {
	case "udp":
		pkt = ref.BuildUDP(p.SPort, p.DPort, payload, []byte(p.Src), []byte(p.Dst))
		pkt = ref.BuildIPv4([]byte(p.Src), []byte(p.Dst), ref.ProtoUDP, uint16(c.counter), 0, 0, 64, pkt)
	case "syn":
		pkt = ref.BuildTCP(p.SPort, p.DPort, 5000+uint32(c.counter)*100000, 0, ref.SYN, 30000, ref.PadOpts(ref.OptMSS(1460)), nil, []byte(p.Src), []byte(p.Dst))
		pkt = ref.BuildIPv4([]byte(p.Src), []byte(p.Dst), ref.ProtoTCP, uint16(c.counter), 0, 0, 64, pkt)
	case "ack":
		pkt = ref.BuildTCP(p.SPort, p.DPort, 777, 888, ref.ACK|ref.PSH, 30000, nil, payload, []byte(p.Src), []byte(p.Dst))
		if c.connTuple(p) {
			// the segment of the established connection: in sequence, so that delivery shows
			pkt = ref.BuildTCP(p.SPort, p.DPort, c.peerNxt, c.connIss+1, ref.ACK|ref.PSH, 30000, nil, payload, []byte(p.Src), []byte(p.Dst))
		}
		pkt = ref.BuildIPv4([]byte(p.Src), []byte(p.Dst), ref.ProtoTCP, uint16(c.counter), 0, 0, 64, pkt)
	}
	c.r.w.Inject(c.r.n, tcpip.NICID(p.NIC), ipv4.ProtocolNumber, pkt, "", "")
	frames := c.r.Collect()
	name := fmt.Sprintf("after [%s]%s: %s from %x:%d to %x:%d on NIC %d", hist, c.toggles(), p.Kind, string(p.Src), p.SPort, string(p.Dst), p.DPort, p.NIC)
	if c.r.MonErr != nil {
		return &c09Fail{"malformed-frame", name + ": " + c.r.MonErr.Error()}
	}
	want, processed := c.expect(p)
	if c.connTuple(p) && p.Kind != "udp" {
		// the established connection is the most specific match for its own 4-tuple: data goes
		// to it (not to the listener it came from), a SYN creates nothing new
		var rsts, synacks int
		for _, d := range frames {
			if d.TCP != nil && d.TCP.Flags&ref.RST != 0 {
				rsts++
			}
			if d.TCP != nil && d.TCP.Flags == ref.SYN|ref.ACK {
				synacks++
			}
		}
		if synacks != 0 {
			return &c09Fail{"connection-bypassed", name + ": the segment belongs to the established connection, yet a listener answered with a SYN-ACK"}
		}
		if p.Kind == "ack" {
			v, _, err := c.tcpConn.Read(nil)
			if err != nil || string(v) != string(payload) {
				return &c09Fail{"connection-missed", name + fmt.Sprintf(": in-sequence data for the established connection was not delivered to it (Read: %q, %v; %d resets emitted)", v, err, rsts)}
			}
			c.peerNxt += uint32(len(payload))
		}
		for _, sk := range c.socks {
			if sk.spec.Listen {
				if ep, _, err := sk.ep.Accept(); err == nil {
					ep.Close()
					return &c09Fail{"spurious-connection", name + ": a listener handed out a second connection for the established 4-tuple"}
				}
			}
		}
		return nil
	}
	// who received?
	got := []int{}
	for i, s := range c.socks {
		if s.spec.TCP {
			continue
		}
		for {
			var from tcpip.FullAddress
			v, _, err := s.ep.Read(&from)
			if err != nil {
				break
			}
			if string(v) != string(payload) {
				return &c09Fail{"wrong-payload", name + fmt.Sprintf(": socket %s read %q, the probe carried %q", s.spec.Name, v, payload)}
			}
			if from.Addr != p.Src || from.Port != p.SPort {
				return &c09Fail{"wrong-sender", name + fmt.Sprintf(": socket %s reports sender %x:%d", s.spec.Name, string(from.Addr), from.Port)}
			}
			got = append(got, i)
		}
	}
	var rsts, synacks int
	for _, d := range frames {
		if d.TCP != nil && d.TCP.Flags&ref.RST != 0 {
			rsts++
		}
		if d.TCP != nil && d.TCP.Flags == ref.SYN|ref.ACK {
			synacks++
		}
	}
	if !processed {
		if len(got) > 0 || len(frames) > 0 {
			return &c09Fail{"processed-unassigned", name + fmt.Sprintf(": the destination is not assigned to the receiving interface, yet %d socket(s) received it and %d frame(s) were emitted", len(got), len(frames))}
		}
		return nil
	}
	switch p.Kind {
	case "udp":
		if want < 0 {
			if len(got) != 0 {
				return &c09Fail{"delivered-to-nonmatching", name + fmt.Sprintf(": no socket matches, yet %s received it", c.socks[got[0]].spec.Name)}
			}
			return nil
		}
		if len(got) != 1 || got[0] != want {
			names := []string{}
			for _, g := range got {
				names = append(names, c.socks[g].spec.Name)
			}
			return &c09Fail{"wrong-socket", name + fmt.Sprintf(": most specific match is %s, received by %v", c.socks[want].spec.Name, names)}
		}
	case "syn":
		if synacks > 0 {
			// abort the half-open handshake so that later probes meet the listener again
			rst := ref.BuildTCP(p.SPort, p.DPort, 5000+uint32(c.counter)*100000+1, 0, ref.RST, 0, nil, nil, []byte(p.Src), []byte(p.Dst))
			c.r.w.Inject(c.r.n, tcpip.NICID(p.NIC), ipv4.ProtocolNumber, ref.BuildIPv4([]byte(p.Src), []byte(p.Dst), ref.ProtoTCP, 1, 0, 0, 64, rst), "", "")
			c.r.Collect()
		}
		if want >= 0 {
			if synacks != 1 || rsts != 0 {
				return &c09Fail{"listener-missed", name + fmt.Sprintf(": listener %s matches but %d SYN-ACKs / %d resets were emitted", c.socks[want].spec.Name, synacks, rsts)}
			}
		} else if rsts != 1 || synacks != 0 {
			return &c09Fail{"no-reset", name + fmt.Sprintf(": no socket matches a SYN: %d resets / %d SYN-ACKs emitted, want exactly one reset", rsts, synacks)}
		}
	case "ack":
		if want < 0 {
			if rsts != 1 {
				return &c09Fail{"no-reset", name + fmt.Sprintf(": no socket matches a TCP segment: %d resets emitted, want exactly one", rsts)}
			}
		} else if rsts != 0 {
			// a listener silently ignores a stray ACK (or checks it as a cookie); it must not reset
			return &c09Fail{"listener-reset", name + fmt.Sprintf(": listener %s matches, yet %d reset(s) were emitted", c.socks[want].spec.Name, rsts)}
		}
		if len(got) != 0 {
			return &c09Fail{"tcp-to-udp", name + ": a TCP segment was delivered to a UDP socket"}
		}
	}
	// no listener may have produced a connection out of probes
	for _, s := range c.socks {
		if s.spec.Listen {
			if ep, _, err := s.ep.Accept(); err == nil {
				ep.Close()
				return &c09Fail{"spurious-connection", name + ": a listener handed out a connection"}
			}
		}
	}
	return nil
}

func (c *c09World) toggles() string {
	s := ""
	if c.promis {
		s += "+promiscuous"
	}
	if c.subnet {
		s += "+subnet"
	}
	return s
}

// run executes one history: open the given sockets in order (probing after each), optional
// toggle, then close one (probing again).
func c09History(order []int, toggle string, closeIdx int, pkts []c09Pkt) (*c09Fail, int, bool) {
	c := c09NewWorld()
	defer c.close()
	probes := 0
	hist := ""
	sweep := func() *c09Fail {
		for _, p := range pkts {
			probes++
			if f := c.probe(p, hist); f != nil {
				return f
			}
		}
		return nil
	}
	for _, m := range order {
		if !c.open(c09Menu[m]) {
			return nil, probes, false // incompatible set
		}
		hist += c09Menu[m].Name + " "
		if toggle == "remove-A2" || toggle == "establish" || toggle == "subnet-off" || toggle == "promiscuous-off" {
			// no probes before the removal: a handshake in progress keeps a route, and a route
			// keeps its local address alive until it is released (the repository's documented
			// "delayed removal"), which is not what this history is about
			continue
		}
		if f := sweep(); f != nil {
			return f, probes, true
		}
	}
	if toggle == "establish" {
		if f := c.establish(); f != nil {
			return f, probes, true
		}
		hist += "established(A1:P<-R:Q) "
		if f := sweep(); f != nil {
			return f, probes, true
		}
		toggle = ""
	}
	if toggle == "reconnect" {
		// every connected socket connects once more to the peer it already has: the attempt may
		// be refused (its own 4-tuple is taken - by itself) or succeed, but whatever was
		// registered before must still be served afterwards
		n := 0
		for _, sk := range c.socks {
			if sk.spec.Conn {
				sk.ep.Connect(tcpip.FullAddress{NIC: tcpip.NICID(sk.spec.ConnNIC), Addr: c09R, Port: c09Q})
				n++
			}
		}
		c.r.w.Settle()
		if n > 0 {
			hist += "reconnect-same-peer "
			if f := sweep(); f != nil {
				return f, probes, true
			}
		}
		toggle = ""
	}
	if toggle == "reconnect-other" {
		// every connected UDP socket connects to another peer (R2:Q2): from then on it is that
		// peer's datagrams it gets, and the former peer's go to whoever matches them now
		n := 0
		for _, sk := range c.socks {
			if sk.spec.Conn && !sk.spec.TCP {
				if err := sk.ep.Connect(tcpip.FullAddress{NIC: tcpip.NICID(sk.spec.ConnNIC), Addr: c09R2, Port: c09Q2}); err == nil {
					sk.peer, sk.peerPort = c09R2, c09Q2
					n++
				}
			}
		}
		c.r.w.Settle()
		if n > 0 {
			hist += "connected-udp-sockets-connect-to(R2:Q2) "
			if f := sweep(); f != nil {
				return f, probes, true
			}
		}
		toggle = ""
	}
	if toggle == "subnet-off" || toggle == "promiscuous-off" {
		// the interface owns the subnet (is promiscuous) for a while, one datagram for a foreign
		// address inside it arrives meanwhile, then the subnet is given up (promiscuous mode is
		// switched off) again: the foreign address is foreign again
		sn, _ := tcpip.NewSubnet("\x0a\x00\x00\x00", "\xff\xff\xff\x00")
		if toggle == "subnet-off" {
			c.r.n.S.AddSubnet(1, ipv4.ProtocolNumber, sn)
		} else {
			c.r.n.S.SetPromiscuousMode(1, true)
		}
		dg := ref.BuildUDP(c09Q2, c09P2, []byte("meanwhile"), []byte(c09R2), []byte(c09Foreign))
		c.r.w.Inject(c.r.n, 1, ipv4.ProtocolNumber, ref.BuildIPv4([]byte(c09R2), []byte(c09Foreign), ref.ProtoUDP, 77, 0, 0, 64, dg), "", "")
		c.r.Collect()
		if toggle == "subnet-off" {
			c.r.n.S.RemoveSubnet(1, sn)
		} else {
			c.r.n.S.SetPromiscuousMode(1, false)
		}
		c.r.w.Settle()
		hist += toggle + " "
		if f := sweep(); f != nil {
			return f, probes, true
		}
		toggle = ""
	}
	if toggle == "remove-A2" {
		// the second address is taken off the interface (sockets bound to it specifically stay
		// open): from now on nothing addressed to it may be processed
		if err := c.r.n.S.RemoveAddress(1, c09A2); err != nil {
			return &c09Fail{"harness", "RemoveAddress: " + err.String()}, probes, true
		}
		c.r.w.Settle()
		c.removedA2 = true
		hist += "remove-address(A2) "
		if f := sweep(); f != nil {
			return f, probes, true
		}
		toggle = ""
	}
	if toggle != "" {
		c.r.Local = nil // answers may now carry any destination address the NIC accepted as source
	}
	switch toggle {
	case "promiscuous":
		c.r.n.S.SetPromiscuousMode(1, true)
		c.promis = true
	case "subnet":
		sn, _ := tcpip.NewSubnet("\x0a\x00\x00\x00", "\xff\xff\xff\x00")
		c.r.n.S.AddSubnet(1, ipv4.ProtocolNumber, sn)
		c.subnet = true
	}
	if toggle != "" {
		if f := sweep(); f != nil {
			return f, probes, true
		}
	}
	if closeIdx >= 0 && closeIdx < len(c.socks) {
		s := c.socks[closeIdx]
		s.ep.Close()
		c.r.w.Settle()
		hist += "close(" + s.spec.Name + ") "
		c.socks = append(c.socks[:closeIdx], c.socks[closeIdx+1:]...)
		if f := sweep(); f != nil {
			return f, probes, true
		}
	}
	return nil, probes, true
}

// ---------- address families: which UDP sockets see IPv4, which IPv6 ----------

type c09DualKind struct {
	name   string
	v6sock bool          // created as an IPv6 socket
	v6only bool          // with V6Only set
	addr   tcpip.Address // bind address
	getsV4 bool
	getsV6 bool
	rank   int           // specific address 2, wildcard 1, connected 3
	conn   tcpip.Address // != "": after the bind the socket connects to this peer (port Q)
}

var c09Mapped = func(a tcpip.Address) tcpip.Address {
	return tcpip.Address("\x00\x00\x00\x00\x00\x00\x00\x00\x00\x00\xff\xff" + string(a))
}

var c09DualKinds = []c09DualKind{
	{"v4 *:P", false, false, "", true, false, 1, ""},
	{"v4 A1:P", false, false, c09A1, true, false, 2, ""},
	{"v6 dual-stack [::]:P", true, false, "", true, true, 1, ""},
	{"v6 dual-stack [::ffff:0.0.0.0]:P", true, false, c09Mapped("\x00\x00\x00\x00"), true, false, 1, ""},
	{"v6 dual-stack [::ffff:A1]:P", true, false, c09Mapped(c09A1), true, false, 2, ""},
	{"v6-only [::]:P", true, true, "", false, true, 1, ""},
	{"v6 [A6]:P", true, false, addrA6, false, true, 2, ""},
	{"v6 dual-stack [::]:P connected to [::ffff:R]:Q", true, false, "", true, false, 3, c09Mapped(c09R)},
	{"v6 dual-stack [::]:P connected to [B6]:Q", true, false, "", false, true, 3, addrB6},
}

func c09DualNames() []string {
	var out []string
	for _, k := range c09DualKinds {
		out = append(out, k.name)
	}
	return out
}

// c09Dual opens kind a (and then kind b, if b >= 0) and sends one IPv4 and one IPv6 datagram
// to port P; ok=false if the stack refuses the combination.
func c09Dual(a, b int) (*c09Fail, bool) {
	c := c09NewWorldN(1)
	defer c.close()
	var eps []tcpip.Endpoint
	var kinds []c09DualKind
	defer func() {
		for _, ep := range eps {
			ep.Close()
		}
	}()
	for _, ki := range []int{a, b} {
		if ki < 0 {
			continue
		}
		k := c09DualKinds[ki]
		netp := tcpip.NetworkProtocolNumber(ipv4.ProtocolNumber)
		if k.v6sock {
			netp = ipv6.ProtocolNumber
		}
		sk := c.r.n.NewSock(udp.ProtocolNumber, netp)
		eps = append(eps, sk.EP)
		if k.v6only {
			if err := sk.EP.SetSockOpt(tcpip.V6OnlyOption(1)); err != nil {
				return nil, false
			}
		}
		if err := sk.EP.Bind(tcpip.FullAddress{Addr: k.addr, Port: c09P}, nil); err != nil {
			return nil, false
		}
		if k.conn != "" {
			if err := sk.EP.Connect(tcpip.FullAddress{Addr: k.conn, Port: c09Q}); err != nil {
				return nil, false
			}
		}
		kinds = append(kinds, k)
	}
	c.r.w.Settle()
	name := kinds[0].name
	if len(kinds) > 1 {
		name += " then " + kinds[1].name
	}
	for _, v6 := range []bool{false, true} {
		payload := []byte("family-probe-4")
		var pkt []byte
		proto := tcpip.NetworkProtocolNumber(ipv4.ProtocolNumber)
		if v6 {
			payload = []byte("family-probe-6")
			proto = ipv6.ProtocolNumber
			pkt = ref.BuildIPv6([]byte(addrB6), []byte(addrA6), ref.ProtoUDP, 64, ref.BuildUDP(c09Q, c09P, payload, []byte(addrB6), []byte(addrA6)))
		} else {
			pkt = ref.BuildIPv4([]byte(c09R), []byte(c09A1), ref.ProtoUDP, 9, 0, 0, 64, ref.BuildUDP(c09Q, c09P, payload, []byte(c09R), []byte(c09A1)))
		}
		c.r.w.Inject(c.r.n, 1, proto, pkt, "", "")
		c.r.Collect()
		want, bestRank := -1, 0
		for i, k := range kinds {
			if (v6 && k.getsV6 || !v6 && k.getsV4) && k.rank > bestRank {
				want, bestRank = i, k.rank
			}
		}
		for i, ep := range eps {
			v, _, err := ep.Read(nil)
			got := err == nil
			if got && string(v) != string(payload) {
				return &c09Fail{"wrong-payload", fmt.Sprintf("[%s]: socket %s read %q", name, kinds[i].name, v)}, true
			}
			fam := map[bool]string{false: "IPv4", true: "IPv6"}[v6]
			if got && i != want {
				return &c09Fail{"wrong-family-delivery", fmt.Sprintf("[%s]: the %s datagram to port P was delivered to %s, which is not bound for it", name, fam, kinds[i].name)}, true
			}
			if !got && i == want {
				return &c09Fail{"family-not-delivered", fmt.Sprintf("[%s]: the %s datagram to port P was not delivered to %s", name, fam, kinds[i].name)}, true
			}
		}
	}
	return nil, true
}

// c09Shadow: a connected socket is more specific than any listener, also when the listener is
// opened later on the very port the connection uses. variant 0: no listener, 1: listener on
// *:port, 2: listener on A1:port.
func c09Shadow(variant int) *c09Fail {
	c := c09NewWorld()
	defer c.close()
	name := []string{"connection alone", "listener *:port opened after the connection", "listener A1:port opened after the connection"}[variant]
	sk := c.r.n.NewSock(tcp.ProtocolNumber, ipv4.ProtocolNumber)
	defer sk.EP.Close()
	if err := sk.EP.Connect(tcpip.FullAddress{Addr: c09R, Port: c09Q}); err != tcpip.ErrConnectStarted {
		return &c09Fail{"harness", fmt.Sprintf("connect: %v", err)}
	}
	c.r.w.Settle()
	var port uint16
	var iss uint32
	for _, d := range c.r.Collect() {
		if d.TCP != nil && d.TCP.Flags == ref.SYN {
			port, iss = d.TCP.SrcPort, d.TCP.Seq
		}
	}
	if port == 0 {
		return &c09Fail{"harness", "no SYN emitted"}
	}
	const piss = 52000
	inject := func(flags uint8, seq, ack uint32, payload []byte) []*Decoded {
		seg := ref.BuildTCP(c09Q, port, seq, ack, flags, 30000, nil, payload, []byte(c09R), []byte(c09A1))
		c.r.w.Inject(c.r.n, 1, ipv4.ProtocolNumber, ref.BuildIPv4([]byte(c09R), []byte(c09A1), ref.ProtoTCP, 5, 0, 0, 64, seg), "", "")
		return c.r.Collect()
	}
	inject(ref.SYN|ref.ACK, piss, iss+1, nil)
	if st := tcp.VerifDump(sk.EP); st.State != 4 {
		return &c09Fail{"harness", fmt.Sprintf("active open did not complete (state %d)", st.State)}
	}
	if variant > 0 {
		l := c.r.n.NewSock(tcp.ProtocolNumber, ipv4.ProtocolNumber)
		defer l.EP.Close()
		addr := tcpip.Address("")
		if variant == 2 {
			addr = c09A1
		}
		if err := l.EP.Bind(tcpip.FullAddress{Addr: addr, Port: port}, nil); err != nil {
			return nil // the stack refuses the bind: nothing can be shadowed
		}
		if err := l.EP.Listen(4); err != nil {
			return nil
		}
		c.r.w.Settle()
	}
	frames := inject(ref.ACK|ref.PSH, piss+1, iss+1, []byte("for-the-connection"))
	rsts := 0
	for _, d := range frames {
		if d.TCP != nil && d.TCP.Flags&ref.RST != 0 {
			rsts++
		}
	}
	v, _, err := sk.EP.Read(nil)
	if err != nil || string(v) != "for-the-connection" {
		return &c09Fail{"connection-shadowed", fmt.Sprintf("%s (local port %d): in-sequence data for the established connection A1:%d<-R:%d was not delivered to it (Read: %q, %v); %d reset(s) were emitted instead", name, port, port, c09Q, v, err, rsts)}
	}
	return nil
}

func c09Orders() [][]int {
	var out [][]int
	n := len(c09Menu)
	for a := 0; a < n; a++ {
		out = append(out, []int{a})
		for b := 0; b < n; b++ {
			if b == a {
				continue
			}
			out = append(out, []int{a, b})
			for d := 0; d < n; d++ {
				if d == a || d == b {
					continue
				}
				out = append(out, []int{a, b, d})
			}
		}
	}
	return out
}

// ---------- coop: bind/close racing delivery ----------

var c09Progs = map[string][2]string{ // thread 1 socket ops, thread 2 deliveries to A1:P
	"bind-vs-deliver":   {"open1", "d d"},
	"close-vs-deliver":  {"pre1 close1", "d d"},
	"rebind-vs-deliver": {"pre0 close0 open1", "d d"},
	"two-specific":      {"pre0 open1", "d d"},
}

func c09Harness(p [2]string) engine.Harness {
	return func() (func(), func(*vsched.Sched) (*engine.Violation, uint64)) {
		vtime.EnableVirtual()
		c := c09NewWorldN(1)
		// pre-opened sockets: "preN" tokens
		var ops []string
		for _, t := range strings.Fields(p[0]) {
			if strings.HasPrefix(t, "pre") {
				c.open(c09Menu[int(t[3]-'0')])
			} else {
				ops = append(ops, t)
			}
		}
		ndeliver := len(strings.Fields(p[1]))
		port := c.r.n.Ports[1]
		var opened []*c09Sock
		type ev struct{ call, ret int }
		clk := 0
		regIv := map[int][2]int{} // menu index -> [registered from (ret of open), until (call of close)]
		for _, s := range c.socks {
			regIv[menuIndex(s.spec)] = [2]int{0, 1 << 30}
		}
		delivIv := make([][2]int, ndeliver)
		body := func() {
			t1 := vsched.Go(func() {
				for _, t := range ops {
					vsched.Point()
					mi := int(t[len(t)-1] - '0')
					clk++
					call := clk
					if strings.HasPrefix(t, "open") {
						sk := c.r.n.NewSock(udp.ProtocolNumber, ipv4.ProtocolNumber)
						if err := sk.EP.Bind(tcpip.FullAddress{Addr: c09Menu[mi].Local, Port: c09P}, nil); err == nil {
							s := &c09Sock{spec: c09Menu[mi], ep: sk.EP}
							opened = append(opened, s)
							clk++
							regIv[mi] = [2]int{clk, 1 << 30}
						}
					} else {
						for _, s := range c.socks {
							if menuIndex(s.spec) == mi {
								iv := regIv[mi]
								iv[1] = call
								regIv[mi] = iv
								s.ep.Close()
							}
						}
					}
					clk++
				}
			})
			t2 := vsched.Go(func() {
				for i := 0; i < ndeliver; i++ {
					vsched.Point()
					clk++
					delivIv[i][0] = clk
					pkt := ref.BuildIPv4([]byte(c09R), []byte(c09A1), ref.ProtoUDP, uint16(i+1), 0, 0, 64, ref.BuildUDP(c09Q2, c09P, []byte(fmt.Sprintf("d%d", i)), []byte(c09R), []byte(c09A1)))
					port.disp.DeliverNetworkPacket(port, "", "", ipv4.ProtocolNumber, chunked(pkt))
					clk++
					delivIv[i][1] = clk
				}
			})
			vsched.Join(t1, t2)
		}
		check := func(s *vsched.Sched) (*engine.Violation, uint64) {
			all := append(append([]*c09Sock(nil), c.socks...), opened...)
			recv := map[string][]int{} // payload -> menu indices that got it
			for _, sk := range all {
				for {
					v, _, err := sk.ep.Read(nil)
					if err != nil {
						break
					}
					recv[string(v)] = append(recv[string(v)], menuIndex(sk.spec))
				}
			}
			c.socks = all
			defer c.close()
			out := engine.Hash(s.Outcome, fmt.Sprint(recv))
			if s.Outcome != vsched.OK {
				return &engine.Violation{Property: "C09", Kind: s.Outcome.String(), Key: "coop-" + s.Outcome.String(), Detail: s.Detail}, out
			}
			unknown := ndeliver - int(c.r.n.S.Stats().UDP.PacketsReceived.Value()) // datagrams no socket took
			noneThrough := 0
			for i := 0; i < ndeliver; i++ {
				got := recv[fmt.Sprintf("d%d", i)]
				if len(got) > 1 {
					return &engine.Violation{Property: "C09", Kind: "demux-race", Key: "coop-duplicated", Detail: fmt.Sprintf("datagram %d was delivered to %d sockets", i, len(got))}, out
				}
				// sockets registered throughout the delivery, and at some point during it
				var through, sometime []int
				for mi, iv := range regIv {
					spec := c09Menu[mi]
					if spec.Local != "" && spec.Local != c09A1 {
						continue
					}
					if iv[0] <= delivIv[i][0] && iv[1] >= delivIv[i][1] {
						through = append(through, mi)
					}
					if iv[0] <= delivIv[i][1] && iv[1] >= delivIv[i][0] {
						sometime = append(sometime, mi)
					}
				}
				sort.Ints(through)
				if len(through) == 0 {
					noneThrough++
				}
				if len(got) == 0 {
					continue // it went to a socket that was closed afterwards, or to nobody: judged by the counter below
				}
				ok := false
				for _, mi := range sometime {
					if mi == got[0] {
						ok = true
					}
				}
				if !ok {
					return &engine.Violation{Property: "C09", Kind: "demux-race", Key: "coop-unregistered", Detail: fmt.Sprintf("datagram %d was delivered to %s, which was not registered at any time during the delivery", i, c09Menu[got[0]].Name)}, out
				}
				// a more specific socket registered throughout must win over a wildcard one
				for _, mi := range through {
					if c09Menu[mi].Local != "" && c09Menu[got[0]].Local == "" {
						return &engine.Violation{Property: "C09", Kind: "demux-race", Key: "coop-less-specific", Detail: fmt.Sprintf("datagram %d went to the wildcard socket although %s was registered throughout", i, c09Menu[mi].Name)}, out
					}
				}
			}
			if unknown > noneThrough {
				return &engine.Violation{Property: "C09", Kind: "demux-race", Key: "coop-lost", Detail: fmt.Sprintf("%d datagram(s) reached no socket, but only %d of the deliveries had no matching socket registered throughout", unknown, noneThrough)}, out
			}
			return nil, out
		}
		return body, check
	}
}

func menuIndex(s c09Spec) int {
	for i, m := range c09Menu {
		if m.Name == s.Name {
			return i
		}
	}
	return -1
}

// ---------- jobs ----------

func c09Jobs(tier string) []string {
	var jobs []string
	for i := 0; i < 32; i++ {
		jobs = append(jobs, fmt.Sprintf("sets:%d/32", i))
	}
	for name := range c09Progs {
		jobs = append(jobs, "coop:"+name)
	}
	jobs = append(jobs, "shadow", "dual", "relisten", "onefamily")
	return jobs
}

func c09Run(job, tier string, deadline time.Time) *engine.Result {
	r := &engine.Result{Exhaustive: true}
	defer func() {
		r.Recycle = runtime.NumGoroutine() > 100
		if r.States == 0 {
			r.States = r.Execs + 1
		}
		r.Outcomes = append(r.Outcomes, engine.Hash(job, len(r.Violations)))
	}()
	if job == "dual" {
		n := len(c09DualKinds)
		for a := 0; a < n; a++ {
			for b := -1; b < n; b++ {
				if b == a {
					continue
				}
				f, ok := c09Dual(a, b)
				if !ok {
					continue
				}
				r.Execs++
				r.Transitions += 2
				r.Nontrivial++
				if f != nil && len(r.Violations) < 4 {
					r.Violations = append(r.Violations, engine.Violation{Property: "C09", Kind: "demux", Key: f.key, Detail: f.msg, Job: job, Replay: engine.MustJSON(map[string]interface{}{"dual": []int{a, b}})})
				}
			}
		}
		r.Sample(map[string]interface{}{"dual": "UDP sockets of kinds " + strings.Join(c09DualNames(), ", ") + " alone and in ordered pairs; one IPv4 and one IPv6 datagram to port P"})
		return r
	}
	if job == "onefamily" {
		for _, v6 := range []bool{false, true} {
			for k := range c09OneFamilyKinds {
				f, probes := c09OneFamily(v6, k)
				if probes == 0 && f == nil {
					continue
				}
				r.Execs++
				r.Transitions += int64(probes) + 3
				r.Nontrivial++
				if f != nil {
					r.Violations = append(r.Violations, engine.Violation{Property: "C09", Kind: "demux", Key: f.key, Detail: f.msg, Job: job, Replay: engine.MustJSON(map[string]interface{}{"onefamily": k + 1, "v6stack": v6})})
				}
			}
		}
		r.Sample(map[string]interface{}{"onefamily": "stacks with IPv4 only / IPv6 only; dual-stack sockets of kinds " + strings.Join(c09OneFamilyKinds, ", ") + ": served while open, nobody served after Close, a plain successor can bind and is served"})
		return r
	}
	if job == "relisten" {
		for a := range c09RelistenKinds {
			for b := range c09RelistenKinds {
				for _, hold := range []bool{false, true} {
					f, probes := c09Relisten(a, b, hold)
					r.Execs++
					r.Transitions += int64(probes) + 3
					r.Nontrivial++
					if f != nil && len(r.Violations) < 4 {
						r.Violations = append(r.Violations, engine.Violation{Property: "C09", Kind: "demux", Key: f.key, Detail: f.msg, Job: job, Replay: engine.MustJSON(map[string]interface{}{"relisten": []int{a + 1, b + 1}, "hold": hold})})
					}
				}
			}
		}
		r.Sample(map[string]interface{}{"relisten": "a socket of kind {tcpL*:P, tcpLA1:P, udp*:P, udpA1:P} is closed and a successor of each kind is opened on the port, before and after the closed listener's goroutine has finished; then the full probe set"})
		return r
	}
	if job == "shadow" {
		for v := 0; v < 3; v++ {
			f := c09Shadow(v)
			r.Execs++
			r.Transitions += 5
			r.Nontrivial++
			if f != nil {
				r.Violations = append(r.Violations, engine.Violation{Property: "C09", Kind: "demux", Key: f.key, Detail: f.msg, Job: job, Replay: engine.MustJSON(map[string]interface{}{"shadow": v + 1})})
			}
		}
		r.Sample(map[string]interface{}{"shadow": "an actively opened connection on an ephemeral port, then {nothing, listener *:that port, listener A1:that port}; in-sequence data for the connection must reach the connection"})
		return r
	}
	if strings.HasPrefix(job, "coop:") {
		st := engine.Explore(job, c09Harness(c09Progs[job[5:]]), engine.CoopCfg{Bound: 2, Deadline: deadline})
		st.Into(r)
		r.Bound = "preemptions<=2"
		return r
	}
	var i, n int
	fmt.Sscanf(job, "sets:%d/%d", &i, &n)
	pkts := c09Packets()
	orders := c09Orders()
	compatible := 0
	for k, ord := range orders {
		if k%n != i {
			continue
		}
		if time.Now().After(deadline) {
			r.Exhaustive = false
			r.Caps = append(r.Caps, job+": deadline")
			break
		}
		if tier != "thorough" && len(ord) == 3 && k%3 != 0 {
			continue
		}
		variants := []struct {
			toggle string
			close  int
		}{{"", -1}}
		for ci := range ord {
			variants = append(variants, struct {
				toggle string
				close  int
			}{"", ci})
		}
		if len(ord) <= 2 {
			variants = append(variants, struct {
				toggle string
				close  int
			}{"promiscuous", -1}, struct {
				toggle string
				close  int
			}{"subnet", -1})
		}
		variants = append(variants, struct {
			toggle string
			close  int
		}{"remove-A2", -1})
		if len(ord) <= 2 {
			variants = append(variants, struct {
				toggle string
				close  int
			}{"subnet-off", -1}, struct {
				toggle string
				close  int
			}{"promiscuous-off", -1})
		}
		for _, m := range ord {
			if c09Menu[m].Listen {
				variants = append(variants, struct {
					toggle string
					close  int
				}{"establish", -1})
				break
			}
		}
		for _, m := range ord {
			if c09Menu[m].Conn {
				variants = append(variants, struct {
					toggle string
					close  int
				}{"reconnect", -1})
				if !c09Menu[m].TCP {
					variants = append(variants, struct {
						toggle string
						close  int
					}{"reconnect-other", -1})
				}
				break
			}
		}
		for _, v := range variants {
			var f *c09Fail
			var probes int
			var ok bool
			func() {
				defer func() {
					if e := recover(); e != nil {
						f = &c09Fail{"panic", fmt.Sprintf("panic: %v", e)}
					}
				}()
				f, probes, ok = c09History(ord, v.toggle, v.close, pkts)
			}()
			if !ok && f == nil {
				break // incompatible socket set: nothing to check for any variant
			}
			compatible++
			r.Execs++
			r.Transitions += int64(probes)
			r.Nontrivial++
			if f != nil && len(r.Violations) < 6 {
				r.Violations = append(r.Violations, engine.Violation{Property: "C09", Kind: "demux", Key: f.key, Detail: f.msg, Job: job, Replay: engine.MustJSON(map[string]interface{}{"job": job, "order": ord, "toggle": v.toggle, "close": v.close})})
			}
			if r.Execs == 2 {
				names := []string{}
				for _, m := range ord {
					names = append(names, c09Menu[m].Name)
				}
				r.Sample(map[string]interface{}{"open_order": names, "toggle": v.toggle, "close": v.close, "packets_injected_after_each_operation": len(pkts)})
			}
		}
	}
	r.AddExtra("compatible_histories", int64(compatible))
	return r
}

func c09Replay(rp json.RawMessage) *engine.Violation {
	var cr engine.CoopReplay
	if json.Unmarshal(rp, &cr) == nil && strings.HasPrefix(cr.Job, "coop:") {
		return engine.ReplayCoop(c09Harness(c09Progs[cr.Job[5:]]), cr.Choices)
	}
	var du struct {
		Dual []int `json:"dual"`
	}
	if json.Unmarshal(rp, &du) == nil && len(du.Dual) == 2 {
		if f, _ := c09Dual(du.Dual[0], du.Dual[1]); f != nil {
			return &engine.Violation{Property: "C09", Kind: "demux", Key: f.key, Detail: f.msg}
		}
		return nil
	}
	var of struct {
		OneFamily int  `json:"onefamily"`
		V6Stack   bool `json:"v6stack"`
	}
	if json.Unmarshal(rp, &of) == nil && of.OneFamily > 0 {
		if f, _ := c09OneFamily(of.V6Stack, of.OneFamily-1); f != nil {
			return &engine.Violation{Property: "C09", Kind: "demux", Key: f.key, Detail: f.msg}
		}
		return nil
	}
	var rl struct {
		Relisten []int `json:"relisten"`
		Hold     bool  `json:"hold"`
	}
	if json.Unmarshal(rp, &rl) == nil && len(rl.Relisten) == 2 {
		if f, _ := c09Relisten(rl.Relisten[0]-1, rl.Relisten[1]-1, rl.Hold); f != nil {
			return &engine.Violation{Property: "C09", Kind: "demux", Key: f.key, Detail: f.msg}
		}
		return nil
	}
	var sh struct {
		Shadow int `json:"shadow"`
	}
	if json.Unmarshal(rp, &sh) == nil && sh.Shadow > 0 {
		if f := c09Shadow(sh.Shadow - 1); f != nil {
			return &engine.Violation{Property: "C09", Kind: "demux", Key: f.key, Detail: f.msg}
		}
		return nil
	}
	var p struct {
		Order  []int
		Toggle string
		Close  int
	}
	if json.Unmarshal(rp, &p) != nil {
		return nil
	}
	f, _, _ := c09History(p.Order, p.Toggle, p.Close, c09Packets())
	if f == nil {
		return nil
	}
	return &engine.Violation{Property: "C09", Kind: "demux", Key: f.key, Detail: f.msg}
}
