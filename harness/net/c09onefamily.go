package main

import (
	"fmt"

	tcpip "github.com/brewlin/net-protocol/protocol"
	"github.com/brewlin/net-protocol/protocol/network/ipv4"
	"github.com/brewlin/net-protocol/protocol/network/ipv6"
	"github.com/brewlin/net-protocol/protocol/transport/tcp"
	"github.com/brewlin/net-protocol/protocol/transport/udp"

	"verif/ref"
)

// c09OneFamily: a stack that speaks one network protocol only (the way the repository's own
// applications run: IPv4 without IPv6). A dual-stack socket (created as IPv6, V6Only off)
// registers for both families and is served through the one that exists; once it is closed
// nothing of it may linger: probes reach nobody, and a plain socket of the stack's family
// can take the port over and is served.
//   v6stack: the stack has IPv6 only (else IPv4 only)
//   kind 0: UDP bound to the wildcard; 1: UDP bound to the wildcard and connected to the peer;
//   2: TCP listener on the wildcard
var c09OneFamilyKinds = []string{"udp dual-stack [::]:P", "udp dual-stack [::]:P connected to the peer", "tcp dual-stack listener [::]:P"}

func c09OneFamily(v6stack bool, kind int) (*c09Fail, int) {
	w := NewWorld()
	cfg := NodeCfg{Name: "S", MTU: 1500, Net: []string{ipv4.ProtocolName}, V4: []tcpip.Address{addrA4}}
	own, peer := addrA4, addrB4
	netp := tcpip.NetworkProtocolNumber(ipv4.ProtocolNumber)
	fam := "IPv4-only stack"
	if v6stack {
		cfg = NodeCfg{Name: "S", MTU: 1500, Net: []string{ipv6.ProtocolName}, V6: []tcpip.Address{addrA6}}
		own, peer, netp = addrA6, addrB6, ipv6.ProtocolNumber
		fam = "IPv6-only stack"
	}
	n := w.AddNode(cfg)
	r := &Raw{w: w, n: n, v6: v6stack, mon: NewMonitor(), Local: []tcpip.Address{own}, sAddr: []byte(own), pAddr: []byte(peer)}
	defer func() {
		n.S.RemoveAddress(1, own)
		w.Settle()
	}()
	isTCP := kind == 2
	trans := tcpip.TransportProtocolNumber(udp.ProtocolNumber)
	if isTCP {
		trans = tcp.ProtocolNumber
	}
	name := fam + ", " + c09OneFamilyKinds[kind]
	probes := 0
	counter := uint32(0)
	// probe: one datagram / SYN from the peer to own:P; reports who got it
	probe := func(eps []tcpip.Endpoint) (got []int, synacks, rsts int, payload string) {
		probes++
		counter++
		payload = fmt.Sprintf("one-family-%03d", counter)
		if isTCP {
			seq := 7000 + counter*100000
			r.InjectIP(ref.ProtoTCP, ref.BuildTCP(c09Q, c09P, seq, 0, ref.SYN, 30000, ref.PadOpts(ref.OptMSS(1200)), nil, r.pAddr, r.sAddr))
			for _, d := range r.Collect() {
				if d.TCP != nil && d.TCP.Flags == ref.SYN|ref.ACK {
					synacks++
				}
				if d.TCP != nil && d.TCP.Flags&ref.RST != 0 {
					rsts++
				}
			}
			if synacks > 0 {
				r.InjectIP(ref.ProtoTCP, ref.BuildTCP(c09Q, c09P, seq+1, 0, ref.RST, 0, nil, nil, r.pAddr, r.sAddr))
				r.Collect()
			}
			return
		}
		r.InjectIP(ref.ProtoUDP, ref.BuildUDP(c09Q, c09P, []byte(payload), r.pAddr, r.sAddr))
		r.Collect()
		for i, ep := range eps {
			for {
				v, _, err := ep.Read(nil)
				if err != nil {
					break
				}
				if string(v) == payload {
					got = append(got, i)
				} else {
					got = append(got, -1)
				}
			}
		}
		return
	}
	served := func(what string, eps []tcpip.Endpoint, want bool) *c09Fail {
		got, synacks, rsts, _ := probe(eps)
		if isTCP {
			if want && (synacks != 1 || rsts != 0) {
				return &c09Fail{"listener-missed", fmt.Sprintf("%s, %s: a SYN to port P got %d SYN-ACKs / %d resets, the listener should have answered", name, what, synacks, rsts)}
			}
			if !want && (synacks != 0 || rsts != 1) {
				return &c09Fail{"no-reset", fmt.Sprintf("%s, %s: nobody listens on port P, yet a SYN got %d SYN-ACKs / %d resets", name, what, synacks, rsts)}
			}
			return nil
		}
		if want && (len(got) != 1 || got[0] != len(eps)-1) {
			return &c09Fail{"wrong-socket", fmt.Sprintf("%s, %s: the datagram to port P was received by sockets %v, expected the open socket", name, what, got)}
		}
		if !want && len(got) != 0 {
			return &c09Fail{"delivered-to-nonmatching", fmt.Sprintf("%s, %s: no socket is open on port P, yet the datagram was received (%v)", name, what, got)}
		}
		return nil
	}
	a := n.NewSock(trans, ipv6.ProtocolNumber).EP // dual-stack: IPv6 socket, V6Only off
	if err := a.Bind(tcpip.FullAddress{Port: c09P}, nil); err != nil {
		a.Close()
		return nil, 0 // the stack refuses such a socket: nothing to check
	}
	switch kind {
	case 1:
		to := tcpip.Address(peer)
		if !v6stack {
			to = c09Mapped(peer)
		}
		if err := a.Connect(tcpip.FullAddress{Addr: to, Port: c09Q}); err != nil {
			a.Close()
			return nil, 0
		}
	case 2:
		if err := a.Listen(4); err != nil {
			a.Close()
			return nil, 0
		}
	}
	w.Settle()
	if f := served("socket open", []tcpip.Endpoint{a}, true); f != nil {
		a.Close()
		return f, probes
	}
	a.Close()
	w.Settle()
	r.Collect()
	if f := served("after Close", []tcpip.Endpoint{a}, false); f != nil {
		return f, probes
	}
	b := n.NewSock(trans, netp).EP
	defer func() { b.Close(); w.Settle(); r.Collect() }()
	if err := b.Bind(tcpip.FullAddress{Port: c09P}, nil); err != nil {
		return &c09Fail{"rebind-refused", fmt.Sprintf("%s: after Close a plain socket cannot bind port P: %v", name, err)}, probes
	}
	if isTCP {
		if err := b.Listen(4); err != nil {
			return &c09Fail{"rebind-refused", fmt.Sprintf("%s: after Close a plain socket cannot listen on port P: %v", name, err)}, probes
		}
	}
	w.Settle()
	if f := served("successor open", []tcpip.Endpoint{a, b}, true); f != nil {
		return f, probes
	}
	return nil, probes
}
