package main

import (
	"encoding/json"
	"fmt"
	"strings"
	"time"

	"verif/engine"
)

// C04: the stack respects the peer's window / MSS / path MTU and keeps its own advertised
// window honest. One real stack against the raw peer; the peer's window advertisement per
// ACK is the deviation alphabet (right edge never moves left: an RFC-conforming peer).

func init() {
	engine.Register(&engine.Check{
		ID:         "C04",
		Technique:  "stateless model checking of the real stack against a scripted raw peer in a deterministic world: DFS over all histories of peer window advertisements / ACK placements / ICMP fragmentation-needed within the deviation budget, every emitted segment checked against the window, MSS and MTU the peer has offered so far",
		Rule:       "for each (peer MSS, window scale, MTU, write sizes, read pacing) configuration: every history in which, at each delivered data segment, the peer acknowledges with a window from {0,1,MSS-1,MSS,3MSS,65535} (edge never retreating), acknowledges mid-segment, withholds the ACK, loses the segment, or an ICMP fragmentation-needed arrives, up to the deviation budget; plus peer->stack data under a small receive buffer with the application not reading until the window closes; distinct = distinct choice sequence; non-trivial = at least one deviation",
		Assumes:    []string{"the peer's advertisements reach the stack in the order the peer made them (no reordered/replayed ACKs in this alphabet; the stack has no SND.WL1/WL2 test)", "the peer is conforming: it never shrinks its own window and sends only inside the stack's advertised window (except the one deliberate far-beyond-window probe)"},
		Jobs:       c04Jobs,
		Run:        c04Run,
		Replay:     c04Replay,
		NeedRepro:  true,
		WorkerJobs: 40,
		DeadlineQ:  150 * time.Second,
		DeadlineT:  45 * time.Minute,
	})
}

func c04Jobs(tier string) []string {
	var jobs []string
	add := func(s string, shards int) {
		for i := 0; i < shards; i++ {
			jobs = append(jobs, fmt.Sprintf("raw:%d/%d:%s", i, shards, s))
		}
	}
	base := "or=w,devs=kwhlp"
	type mw struct{ mss, ws string }
	combos := []mw{{"88", "-1"}, {"536", "2"}, {"1460", "0"}}
	if tier == "thorough" {
		combos = nil
		for _, m := range []string{"-1", "1", "88", "536", "1460"} {
			for _, w := range []string{"-1", "0", "2", "14"} {
				combos = append(combos, mw{m, w})
			}
		}
	}
	for _, c := range combos {
		m := 88
		fmt.Sscan(c.mss, &m)
		if m <= 1 {
			m = 20
		}
		for _, mtu := range []string{"576", "1500"} {
			if tier != "thorough" && mtu == "576" && c.mss != "536" {
				continue
			}
			w := fmt.Sprintf("w=1+%d+%d+%d", m, m+1, 5*m)
			if c.mss == "1" {
				w = "w=1+5+12"
			}
			add(fmt.Sprintf("%s,mss=%s,ws=%s,mtu=%s,%s,ptb=296,b=1", base, c.mss, c.ws, mtu, w), 2)
		}
	}
	// a write larger than any window, tiny peer window
	add(base+",mss=536,ws=0,pwnd=1000,w=70000,b=1", 4)
	add(base+",mss=1460,ws=2,pwnd=300,w=70000,b=1", 4)
	// receive side: small buffer, application reads only once the window has closed
	add("or=w,devs=ob,mss=100,ws=-1,rcvbuf=200,pd=8x50,read=stall,b=1", 2)
	add("or=w,devs=ob,mss=100,ws=3,rcvbuf=4096,pd=6x1000,read=stall,b=1", 2)
	add("or=w,devs=o,mss=1460,ws=7,pd=1+7+33+1000+1,read=eager,b=1", 2)
	add("or=w,devs=o,mss=1460,ws=-1,pd=1+7+33+1000+1,read=eager,b=1", 2)
	// option space: SACK blocks (and timestamps) in data segments while the peer's data has a hole
	add("or=w,devs=e,mss=1460,ws=-1,psack=1,sack=1,pd=100+100+100,w=1460+3000,b=1", 1)
	add("or=w,devs=e,mss=1460,ws=2,psack=1,sack=1,ts=1,pd=100+100+100,w=1460+3000,b=1", 1)
	add("or=w,devs=e,mss=536,ws=-1,psack=1,sack=1,mtu=576,pd=50+50,w=536+1100,b=1", 1)
	// the peer's MSS, not the local MTU, is the binding limit and every segment carries options
	// (RFC 6691: the data length is reduced by the options the sender includes)
	add("or=w,devs=kwhl,mss=536,ws=-1,ts=1,w=536+1100,b=1", 1)
	add("or=w,devs=kwhle,mss=88,ws=2,ts=1,psack=1,sack=1,pd=50+50,w=88+300,b=1", 1)
	// the peer's MSS just above what the local MTU leaves once options are counted, and a
	// path-MTU report that lowers the MTU by less than the option length
	add("or=w,devs=kwhl,mss=1465,ws=-1,ts=1,w=1465+3000,b=1", 1)
	add("or=w,devs=kwhle,mss=1472,ws=2,ts=1,psack=1,sack=1,pd=50+50,w=1472+3000,b=1", 1)
	add("or=w,devs=kwhlp,mss=1460,ws=-1,ts=1,w=1448+3000,ptb=1492,b=1", 2)
	// the peer's application does not read (fixed right edge, shrinking window) and the network
	// delivers a stale copy of its first ACK after newer ones: the old, larger window must not
	// be applied to the newer acknowledgement number
	add("or=w,devs=z,mss=100,ws=-1,pwnd=300,pfix=1,w=500,b=1", 1)
	add("or=sw,devs=zkhl,mss=100,ws=2,pwnd=1000,pfix=1,w=300+900,b=1", 2)
	// a scaling peer that truncates its window field: with its buffer full and an ACK covering an
	// amount that is not a multiple of the scale unit, the advertised edge retreats a few bytes to
	// the left of SND.NXT while unsent data is queued (RFC 7323 2.4); nothing new may be sent
	add("or=w,devs=kh,mss=1001,ws=3,pwnd=4004,pfix=1,wfloor=1,w=8008,b=1", 1)
	add("or=w,devs=kwhl,mss=100,ws=2,pwnd=403,pfix=1,wfloor=1,rtt=50,w=9x100,b=1", 2)
	// a peer that takes window back: a second ACK with the same acknowledgement number and a
	// smaller window (0, 1, MSS/2) moves its right edge left; data already sent may be
	// retransmitted, but nothing new may go beyond the edge now in force
	add("or=w,devs=n,mss=100,pwnd=1000,w=300+700,b=1", 1)
	add("or=w,devs=nkh,mss=100,pwnd=1000,w=300+700,rtt=50,b=1", 1)
	add("or=w,devs=n,mss=100,ws=2,pwnd=250,w=1500,b=1", 1)
	// our handshake ACK is lost and the peer repeats its SYN-ACK after the connection is up: the
	// window field of a SYN is never scaled
	// a receive buffer that is not a multiple of the window-scale unit: the peer fills the scaled
	// window exactly, a few bytes of real window remain and the field says 0
	add("or=w,devs=k,mss=1460,ws=2,rcvbuf=70001,pd=71x1000,read=stall,b=0", 1)
	add("or=w,devs=kob,mss=1460,ws=7,rcvbuf=262147,pd=27x10000,read=stall,b=1", 2)
	// D31: a segment straddling the right edge and one wholly beyond it in one batch
	add("or=w,devs=o,mss=1460,ws=-1,rcvbuf=200,pd=150+100,read=stall,b=1", 1)
	add("or=w,devs=o,mss=1460,ws=-1,rcvbuf=200,pd=150+100+100,read=eager,b=1", 1)
	add("or=swc,devs=go,mss=100,ws=-1,rcvbuf=200,pd=8x50,read=stall,b=1", 1) // two segments in one batch
	add("or=swc,devs=go,mss=100,ws=3,rcvbuf=4096,pd=6x1000,read=eager,b=1", 1)
	add("or=w,devs=q,mss=100,ws=2,pwnd=300,w=2000,b=1", 1)
	add("or=w,devs=qkwhl,mss=536,ws=7,pwnd=1000,w=536+3000,b=1", 2)
	// a loss and a path-MTU report in one history (retransmissions must respect the new MTU)
	add(base+",mss=88,ws=-1,w=88+89+440,ptb=68,b=2", 16)
	if tier == "thorough" {
		add(base+",mss=536,ws=0,w=536+537+2680,ptb=296,b=2", 32)
		add(base+",mss=88,ws=2,w=88+89+440,ptb=68,b=2", 32)
		add("or=w,devs=kwhlpe,mss=536,ws=-1,psack=1,sack=1,mtu=576,pd=50+50,w=536+1100,ptb=296,b=2", 32)
		add("or=w,devs=e,mss=1460,ws=2,psack=1,sack=1,ts=1,pd=100+100+100,w=1460+3000,b=2", 16)
		add(base+",mss=88,ws=-1,w=88+177,ptb=68,b=3", 64)
		add(base+",mss=1460,ws=2,w=1460+1461,ptb=576,b=2", 16)
		add("or=w,devs=ob,mss=100,ws=-1,rcvbuf=200,pd=8x50,read=stall,b=2", 8)
		add("or=swc,devs=gob,mss=100,ws=3,rcvbuf=4096,pd=6x1000,read=stall,b=2", 8)
		add("or=swc,devs=go,mss=1460,ws=-1,pd=1+7+33+1000+1,read=eager,b=2", 8)
		add(base+",mss=536,ws=14,pwnd=4,w=70000,b=1", 4)
		add(base+",mss=88,ws=-1,w=88+89+440,iss=4294967200,piss=2147483600,b=1", 2)
	}
	return jobs
}

func c04Run(job, tier string, deadline time.Time) *engine.Result {
	r := &engine.Result{Exhaustive: true}
	return rawRunJob(r, job, deadline)
}

func c04Replay(rp json.RawMessage) *engine.Violation {
	var er engine.EnvReplay
	if json.Unmarshal(rp, &er) != nil || !strings.HasPrefix(er.Job, "raw:") {
		return nil
	}
	return rawReplay(er)
}
