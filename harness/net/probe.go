package main

import (
	"fmt"
	"os"
	"runtime"
	"strings"
	"verif/engine"

	"github.com/brewlin/net-protocol/pkg/waiter"
	tcpip "github.com/brewlin/net-protocol/protocol"
	"github.com/brewlin/net-protocol/protocol/network/ipv4"
	"github.com/brewlin/net-protocol/protocol/transport/tcp"

	"verif/shim/vtime"
)

func probe() {
	for iter := 0; iter < 3; iter++ {
		w := NewWorld()
		ScriptRand(1000, 2000, 3000, 4000, 5000)
		a := w.AddNode(NodeCfg{Name: "A", V4: []tcpip.Address{"\x0a\x00\x00\x01"}})
		b := w.AddNode(NodeCfg{Name: "B", V4: []tcpip.Address{"\x0a\x00\x00\x02"}})
		ls := b.NewSock(tcp.ProtocolNumber, ipv4.ProtocolNumber)
		fmt.Println("bind", errStr(ls.EP.Bind(tcpip.FullAddress{Port: 80}, nil)), "listen", errStr(ls.EP.Listen(5)))
		cs := a.NewSock(tcp.ProtocolNumber, ipv4.ProtocolNumber)
		fmt.Println("connect", errStr(cs.EP.Connect(tcpip.FullAddress{Addr: "\x0a\x00\x00\x02", Port: 80})))
		w.Settle()
		pump := func() {
			for {
				fl := w.InFlight()
				if len(fl) == 0 {
					return
				}
				f := fl[0]
				w.Take(f)
				to := a
				if f.From == a {
					to = b
				}
				w.Deliver(f, to, 1)
			}
		}
		pump()
		fmt.Println("frames so far", len(w.All), "writable", cs.Writable(), "listener readable", ls.EP.Readiness(waiter.EventIn))
		srv, _, err := ls.EP.Accept()
		fmt.Println("accept", errStr(err))
		data := make([]byte, 4000)
		for i := range data {
			data[i] = byte(i)
		}
		n, _, err := cs.EP.Write(tcpip.SlicePayload(data), tcpip.WriteOptions{})
		fmt.Println("write", n, errStr(err))
		w.Settle()
		pump()
		got := 0
		for {
			v, _, err := srv.Read(nil)
			if err != nil {
				fmt.Println("read", errStr(err))
				break
			}
			got += len(v)
		}
		fmt.Println("received", got, "frames", len(w.All), "barriers", w.barriers, "timers pending", vtime.Pending(), "elapsed", vtime.Elapsed())
		cs.EP.Close()
		srv.Close()
		ls.EP.Close()
		w.Settle()
		pump()
		for vtime.FireNext() {
			w.Settle()
			pump()
		}
		fmt.Println("end frames", len(w.All), "elapsed", vtime.Elapsed(), "fired", vtime.Fired)
	}
}

func probeTrace(job string) {
	cfg := ParsePairCfg(job)
	r := RunPair(cfg, nil)
	for i, t := range r.Trace {
		fmt.Println(i, t)
		if i > 120 {
			break
		}
	}
	fmt.Println("steps", r.Steps, "violation", r.Violation)
}

func probeRawTrace(job string) {
	var prefix []int
	if len(os.Args) > 3 {
		for _, t := range strings.Split(os.Args[3], ",") {
			var v int
			fmt.Sscan(t, &v)
			prefix = append(prefix, v)
		}
	}
	r := RunRaw(ParseRawCfg(job), prefix)
	if lastWorld != nil {
		for _, f := range lastWorld.All {
			if d, err := DecodeFrame(f); err == nil && d.TCP != nil {
				fmt.Printf("  emitted #%d at %v: flags %#02x seq %d ack %d len %d totlen %d\n", f.Seq, f.At, d.TCP.Flags, d.TCP.Seq, d.TCP.Ack, len(d.TCP.Payload), d.TotLen)
			}
		}
	}
	for i, t := range r.Trace {
		fmt.Println(i, t)
		if i > 150 {
			break
		}
	}
	fmt.Println("steps", r.Steps, "violation", r.Violation)
}

func probeLeak(job string) {
	cfg := ParsePairCfg(job)
	for i := 0; i < 5; i++ {
		RunPair(cfg, nil)
		fmt.Println("goroutines after run", i, runtime.NumGoroutine())
	}
	buf := make([]byte, 1<<20)
	n := runtime.Stack(buf, true)
	fmt.Println(string(buf[:n]))
}

func probeLeak2(job string) {
	cfg := ParsePairCfg(job)
	max := 0
	st := engine.ExploreEnv(job, func(prefix []int) *engine.EnvRun {
		r := RunPair(cfg, prefix)
		if n := runtime.NumGoroutine(); n > max {
			max = n
			fmt.Println("goroutines", n, "after prefix", prefix)
		}
		return r
	}, engine.EnvCfg{Budget: cfg.Budget})
	fmt.Println("execs", st.Execs, "max goroutines", max, "violations", len(st.Violations))
	buf := make([]byte, 1<<20)
	n := runtime.Stack(buf, true)
	s := string(buf[:n])
	if len(s) > 6000 {
		s = s[:6000]
	}
	fmt.Println(s)
}

func probeDet(job string) {
	cfg := ParsePairCfg(job)
	n, bad := 0, 0
	engine.ExploreEnv(job, func(prefix []int) *engine.EnvRun {
		r1 := RunPair(cfg, prefix)
		r2 := RunPair(cfg, prefix)
		n++
		if fmt.Sprint(r1.Trace) != fmt.Sprint(r2.Trace) || r1.Outcome != r2.Outcome {
			bad++
			if bad < 3 {
				fmt.Println("DIVERGED prefix", prefix)
				for i := range r1.Trace {
					if i >= len(r2.Trace) || r1.Trace[i] != r2.Trace[i] {
						fmt.Println(" first diff at", i, r1.Trace[i])
						if i < len(r2.Trace) {
							fmt.Println("                 ", r2.Trace[i])
						}
						break
					}
				}
			}
		}
		return r1
	}, engine.EnvCfg{Budget: cfg.Budget})
	fmt.Println("pairs", n, "diverged", bad, "goroutines", runtime.NumGoroutine())
}
