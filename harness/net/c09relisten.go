package main

import (
	"fmt"

	"github.com/brewlin/net-protocol/pkg/sleep"
)

// c09Relisten: a socket on port P is closed and another one is opened on the same port
// straight away (an in-process restart). A listener finishes its part of the close on its
// protocol goroutine; hold=true orders that part after the successor's Bind+Listen, hold=false
// lets it run first (the world settles in between). Either way, afterwards the successor is
// the only socket on the port and every probe must be handled by it.
var c09RelistenKinds = []int{6, 7, 0, 1} // tcpL*:P, tcpLA1:P, udp*:P, udpA1:P

func c09Relisten(a, b int, hold bool) (*c09Fail, int) {
	c := c09NewWorld()
	defer c.close()
	sa, sb := c09Menu[c09RelistenKinds[a]], c09Menu[c09RelistenKinds[b]]
	if !c.open(sa) {
		return &c09Fail{"harness", "cannot open " + sa.Name}, 0
	}
	old := c.socks[0]
	c.socks = nil
	release := func() {}
	if hold {
		release = sleep.VerifHoldWakeups()
	}
	old.ep.Close()
	if !hold {
		c.r.w.Settle()
	}
	ok := c.open2(sb)
	release()
	c.r.w.Settle()
	hist := fmt.Sprintf("%s close(%s) %s ", sa.Name, sa.Name, sb.Name)
	if hold {
		hist = fmt.Sprintf("%s close(%s)+%s-before-the-closed-socket's-goroutine-finishes ", sa.Name, sa.Name, sb.Name)
	}
	if !ok {
		return &c09Fail{"rebind-refused", "after [" + hist + "]: the port was released by Close, yet the successor cannot be opened"}, 0
	}
	probes := 0
	for _, p := range c09Packets() {
		probes++
		if f := c.probe(p, hist); f != nil {
			return f, probes
		}
	}
	return nil, probes
}
