package main

import (
	"bytes"
	"encoding/json"
	"fmt"
	"runtime"
	"strings"
	"time"

	"github.com/brewlin/net-protocol/pkg/sleep"
	tcpip "github.com/brewlin/net-protocol/protocol"
	"github.com/brewlin/net-protocol/protocol/network/ipv4"
	"github.com/brewlin/net-protocol/protocol/network/ipv6"
	"github.com/brewlin/net-protocol/protocol/transport/tcp"
	"github.com/brewlin/net-protocol/protocol/transport/udp"

	"verif/engine"
	"verif/ref"
	"verif/shim/vtime"
)

// C12: neighbour resolution - ARP/NDP answers, learning, waiting and failure.
//   resp:arp / resp:ndp   exhaustive request/reply field menus against one stack on an Ethernet-like port
//   wait:<scenario>       envx exploration of a resolution in progress (drops, late/early/contradicting replies)
//   cache:<i>/<n>         explicit-state search over lookup/learn/advance on the link-address cache

func init() {
	engine.Register(&engine.Check{
		ID:         "C12",
		Technique:  "exhaustive enumeration of ARP/NDP request and reply fields on the real stack; stateless model checking (deviation-bounded DFS in virtual time) of a resolution in progress under lost requests/replies, early timers, contradicting replies and concurrent askers; explicit-state search over the link-address cache against a reference map with expiry",
		Rule:       "resp: op x target {own A1, own A2, foreign, broadcast} x sender menu x malformed sizes (ARP), solicitation targets and addressing (NDP); wait: UDP write / TCP connect to an unresolved next hop (direct and via gateway), every history with up to 2 (thorough 3) deviations: dropping a request or reply, answering with another MAC, announcing unsolicited, firing timers early, a second socket asking meanwhile; cache: all sequences of depth <=4 (thorough 5) over lookup(a)/learn(a,m)/advance(30s|61s) on 3 addresses x 2 MACs + overflow of 520 neighbours; distinct = distinct input / choice sequence / sequence",
		Assumes:    []string{"the IPv6 NIC is given the solicited-node multicast address of its unicast address by the harness (configuration)", "'most recently learned address' is demanded for unconnected sockets, which resolve on every write; a connected socket keeps the route it resolved"},
		Jobs:       c12Jobs,
		Run:        c12Run,
		Replay:     c12Replay,
		NeedRepro:  true,
		WorkerJobs: 30,
	})
}

var (
	macS  = tcpip.LinkAddress("\x02\x00\x00\x00\x00\x01")
	macP  = tcpip.LinkAddress("\x02\x00\x00\x00\x00\x02")
	macQ  = tcpip.LinkAddress("\x02\x00\x00\x00\x00\x03")
	macGW = tcpip.LinkAddress("\x02\x00\x00\x00\x00\xfe")
	bcast = tcpip.LinkAddress("\xff\xff\xff\xff\xff\xff")
	ipA2  = tcpip.Address("\x0a\x00\x00\x07")
	ipX   = tcpip.Address("\x0a\x00\x00\x02")
	ipY   = tcpip.Address("\x0a\x00\x00\x03")
	ipGW  = tcpip.Address("\x0a\x00\x00\xfe")
	ipFar = tcpip.Address("\x14\x00\x00\x05")
	ip6X  = addrB6
	ip6Y  = tcpip.Address("\xfd\x00\x00\x00\x00\x00\x00\x00\x00\x00\x00\x00\x00\x00\x00\x03")
)

func solicitedNode(a tcpip.Address) tcpip.Address {
	return tcpip.Address("\xff\x02\x00\x00\x00\x00\x00\x00\x00\x00\x00\x01\xff" + string(a[13:]))
}

type c12World struct {
	w   *World
	n   *Node
	mon *Monitor
}

func c12NewWorld() *c12World {
	w := NewWorld()
	ScriptRand(1, 2, 3)
	c := &c12World{w: w, mon: NewMonitor()}
	c.n = w.AddNode(NodeCfg{Name: "S", V4: []tcpip.Address{addrA4, ipA2}, V6: []tcpip.Address{addrA6, solicitedNode(addrA6)}, MTU: 1500, LinkAddr: macS})
	c.n.S.SetRouteTable([]tcpip.Route{
		{Destination: "\x0a\x00\x00\x00", Mask: "\xff\xff\xff\x00", NIC: 1},
		{Destination: "\x14\x00\x00\x00", Mask: "\xff\x00\x00\x00", Gateway: ipGW, NIC: 1},
		{Destination: tcpip.Address(strings.Repeat("\x00", 16)), Mask: tcpip.AddressMask(strings.Repeat("\x00", 16)), NIC: 1},
	})
	return c
}

func (c *c12World) close() {
	c.w.Settle()
	for i := 0; i < 12 && vtime.FireNext(); i++ {
		c.w.Settle()
	}
	for _, a := range []tcpip.Address{addrA4, ipA2, addrA6, solicitedNode(addrA6)} {
		c.n.S.RemoveAddress(1, a)
	}
	c.w.Settle()
}

// take returns the frames emitted since the last call, after the frame monitor.
func (c *c12World) take() ([]*Decoded, error) {
	var out []*Decoded
	var ferr error
	for _, f := range c.w.InFlight() {
		c.w.Take(f)
		d, err := c.mon.Check(f, []tcpip.Address{addrA4, ipA2, addrA6})
		if err != nil && ferr == nil {
			ferr = fmt.Errorf("frame #%d: %v", f.Seq, err)
		}
		out = append(out, d)
	}
	return out, ferr
}

type c12Fail struct{ key, msg string }

// ---------- responder ----------

type c12ArpIn struct {
	Op     uint16
	Target int // 0 A1, 1 A2, 2 foreign, 3 broadcast
	Sender int // 0 (X,macP) 1 (Y,macQ) 2 (0.0.0.0,macP)
	Mal    int // 0 ok, 1 hlen 5, 2 plen 3, 3 htype 6, 4 ptype ipv6, 5 truncated
}

func c12ArpCase(in c12ArpIn) *c12Fail {
	c := c12NewWorld()
	defer c.close()
	tgt := []tcpip.Address{addrA4, ipA2, "\x0a\x00\x00\x63", "\xff\xff\xff\xff"}[in.Target]
	spa := []tcpip.Address{ipX, ipY, "\x00\x00\x00\x00"}[in.Sender]
	sha := []tcpip.LinkAddress{macP, macQ, macP}[in.Sender]
	pkt := ref.BuildARP(in.Op, []byte(sha), []byte(spa), make([]byte, 6), []byte(tgt))
	switch in.Mal {
	case 1:
		pkt[4] = 5
	case 2:
		pkt[5] = 3
	case 3:
		pkt[1] = 6
	case 4:
		pkt[2], pkt[3] = 0x86, 0xdd
	case 5:
		pkt = pkt[:27]
	}
	c.w.Inject(c.n, 1, 0x0806, pkt, sha, bcast)
	frames, ferr := c.take()
	name := fmt.Sprintf("ARP op %d target %x sender %x/%x malformed=%d", in.Op, string(tgt), string(spa), string(sha), in.Mal)
	if ferr != nil {
		return &c12Fail{"malformed-frame", name + ": " + ferr.Error()}
	}
	own := in.Target <= 1
	wantReply := in.Op == 1 && own && in.Mal == 0
	var replies []*Decoded
	for _, d := range frames {
		if d.ARP != nil && d.ARP.Op == 2 {
			replies = append(replies, d)
		} else {
			return &c12Fail{"unexpected-frame", name + fmt.Sprintf(": unexpected frame emitted: %x", d.F.Data)}
		}
	}
	if wantReply && len(replies) != 1 {
		return &c12Fail{"no-reply", name + fmt.Sprintf(": %d replies, want 1 (the target is an address of the stack)", len(replies))}
	}
	if !wantReply && len(replies) != 0 {
		return &c12Fail{"reply-for-foreign", name + fmt.Sprintf(": %d replies, want none", len(replies))}
	}
	if wantReply {
		a := replies[0].ARP
		if !bytes.Equal(a.SHA[:], []byte(macS)) || !bytes.Equal(a.SPA[:], []byte(tgt)) {
			return &c12Fail{"reply-sender", name + fmt.Sprintf(": reply says %x is at %x, want %x at the stack's own link address %x", a.SPA, a.SHA, string(tgt), string(macS))}
		}
		if !bytes.Equal(a.THA[:], []byte(sha)) || !bytes.Equal(a.TPA[:], []byte(spa)) {
			return &c12Fail{"reply-target", name + fmt.Sprintf(": reply addressed (ARP fields) to %x/%x, requester is %x/%x", a.TPA, a.THA, string(spa), string(sha))}
		}
		if replies[0].F.DstMAC != sha {
			return &c12Fail{"reply-link-destination", name + fmt.Sprintf(": reply sent to link address %x, requester is %x", string(replies[0].F.DstMAC), string(sha))}
		}
	}
	// learning: replies, and requests addressed to the stack, teach the sender mapping
	mustLearn := in.Mal == 0 && in.Sender != 2 && (in.Op == 2 || (in.Op == 1 && own))
	if mustLearn {
		sk := c.n.NewSock(udp.ProtocolNumber, ipv4.ProtocolNumber)
		defer sk.EP.Close()
		_, _, err := sk.EP.Write(tcpip.SlicePayload([]byte("hi")), tcpip.WriteOptions{To: &tcpip.FullAddress{Addr: spa, Port: 99}})
		c.w.Settle()
		fr, _ := c.take()
		if err != nil || len(fr) != 1 || fr[0].UDP == nil {
			return &c12Fail{"not-learned", name + fmt.Sprintf(": afterwards a datagram to %x does not leave at once (err %v, %d frames): the sender's mapping was not learned", string(spa), err, len(fr))}
		}
		if fr[0].F.DstMAC != sha {
			return &c12Fail{"learned-wrong", name + fmt.Sprintf(": afterwards traffic for %x goes to link address %x, learned mapping is %x", string(spa), string(fr[0].F.DstMAC), string(sha))}
		}
	}
	return nil
}

type c12NdpIn struct {
	Kind   int // 0 solicitation, 1 advertisement
	Target int // 0 own, 1 foreign
	Dst    int // 0 solicited-node multicast of own, 1 unicast own
	Opt    int // 0 with source link-layer option, 1 without
}

func c12NdpCase(in c12NdpIn) *c12Fail {
	c := c12NewWorld()
	defer c.close()
	tgt := []tcpip.Address{addrA6, "\xfd\x00\x00\x00\x00\x00\x00\x00\x00\x00\x00\x00\x00\x00\x00\x63"}[in.Target]
	dst := []tcpip.Address{solicitedNode(addrA6), addrA6}[in.Dst]
	src := ip6X
	name := fmt.Sprintf("NDP kind %d target %x dst %x opt %d", in.Kind, string(tgt), string(dst), in.Opt)
	body := make([]byte, 4+16)
	copy(body[4:], tgt)
	typ := uint8(135)
	if in.Kind == 1 {
		typ = 136
		body[0] = 0x60
		copy(body[4:], ip6Y) // advertisement about Y
		src = ip6Y
	}
	if in.Opt == 0 {
		ot := byte(1)
		sha := macP
		if in.Kind == 1 {
			ot = 2
			sha = macQ
		}
		body = append(body, ot, 1)
		body = append(body, sha...)
	}
	srcMAC := macP
	if in.Kind == 1 {
		srcMAC = macQ
	}
	msg := ref.BuildICMPv6(typ, 0, body, []byte(src), []byte(dst))
	c.w.Inject(c.n, 1, 0x86dd, ref.BuildIPv6([]byte(src), []byte(dst), ref.ProtoICMPv6, 255, msg), srcMAC, macS)
	frames, ferr := c.take()
	if ferr != nil {
		return &c12Fail{"malformed-frame", name + ": " + ferr.Error()}
	}
	var nas []*Decoded
	for _, d := range frames {
		if d.ICMP != nil && d.V6 && d.ICMP.Type == 136 {
			nas = append(nas, d)
		} else {
			return &c12Fail{"unexpected-frame", name + fmt.Sprintf(": unexpected frame emitted: %x", d.F.Data)}
		}
	}
	if in.Kind == 0 {
		want := in.Target == 0
		if want && len(nas) != 1 {
			return &c12Fail{"no-advertisement", name + fmt.Sprintf(": %d advertisements, want 1", len(nas))}
		}
		if !want && len(nas) != 0 {
			return &c12Fail{"advertisement-for-foreign", name + fmt.Sprintf(": %d advertisements for a target that is not an address of the stack", len(nas))}
		}
		if want {
			d := nas[0]
			r := d.ICMP.Rest
			if len(r) < 28 || !bytes.Equal(r[4:20], []byte(tgt)) {
				return &c12Fail{"advertisement-target", name + ": advertisement does not carry the solicited target"}
			}
			if r[20] != 2 || r[21] != 1 || !bytes.Equal(r[22:28], []byte(macS)) {
				return &c12Fail{"advertisement-lladdr", name + fmt.Sprintf(": target link-layer address option is %x, want type 2 len 1 %x", r[20:28], string(macS))}
			}
			if !bytes.Equal(d.Src, []byte(tgt)) || !bytes.Equal(d.Dst, []byte(src)) {
				return &c12Fail{"advertisement-addressing", name + fmt.Sprintf(": advertisement goes %x -> %x, want %x -> %x", d.Src, d.Dst, string(tgt), string(src))}
			}
			if d.F.DstMAC != macP {
				return &c12Fail{"advertisement-link-destination", name + fmt.Sprintf(": advertisement sent to link address %x, requester is %x", string(d.F.DstMAC), string(macP))}
			}
		}
	}
	// learning
	learnAddr, learnMAC := tcpip.Address(""), macP
	if in.Kind == 0 && in.Target == 0 {
		learnAddr = ip6X
	}
	if in.Kind == 1 {
		learnAddr, learnMAC = ip6Y, macQ
	}
	if learnAddr != "" {
		sk := c.n.NewSock(udp.ProtocolNumber, ipv6.ProtocolNumber)
		defer sk.EP.Close()
		_, _, err := sk.EP.Write(tcpip.SlicePayload([]byte("hi")), tcpip.WriteOptions{To: &tcpip.FullAddress{Addr: learnAddr, Port: 99}})
		c.w.Settle()
		fr, _ := c.take()
		if err != nil || len(fr) != 1 || fr[0].UDP == nil {
			return &c12Fail{"not-learned-v6", name + fmt.Sprintf(": afterwards a datagram to %x does not leave at once (err %v, %d frames)", string(learnAddr), err, len(fr))}
		}
		if fr[0].F.DstMAC != learnMAC {
			return &c12Fail{"learned-wrong-v6", name + fmt.Sprintf(": traffic for %x goes to %x, learned %x", string(learnAddr), string(fr[0].F.DstMAC), string(learnMAC))}
		}
	}
	return nil
}

// ---------- resolution in progress (envx) ----------

type c12Wait struct {
	lateReplies int
	advFromLL   bool
	scen        string // udp | udp2 | gw | tcp | udp6
	c           *c12World
	ch          *engine.Chooser
	viol        *engine.Violation
	trace       []string
	socks       []tcpip.Endpoint
	wrote       []bool // write i has succeeded
	failed      []string
	waitCh      []<-chan struct{}
	learned     tcpip.LinkAddress // MAC of the most recent reply delivered
	replies     int
	reqTimes    []time.Duration
	reqSeq      []int
	dropped     int
	dataSeen    int
	nextHop     tcpip.Address
	dst         tcpip.Address
	v6          bool
	tcpEP       tcpip.Endpoint
	tcpStarted  bool
	unsolicited bool
	states      []uint64
}

func (x *c12Wait) fail(key, f string, a ...interface{}) {
	if x.viol == nil {
		x.viol = &engine.Violation{Property: "C12", Kind: "resolution", Key: key, Detail: fmt.Sprintf(f, a...) + " | trace: " + strings.Join(x.trace, "; ")}
	}
}

func (x *c12Wait) hopMAC() tcpip.LinkAddress {
	if x.scen == "gw" {
		return macGW
	}
	return macP
}

func (x *c12Wait) deliverReply(mac tcpip.LinkAddress) {
	if x.v6 {
		body := make([]byte, 20)
		body[0] = 0x60
		copy(body[4:], x.nextHop)
		body = append(body, 2, 1)
		body = append(body, mac...)
		src := []byte(x.nextHop)
		if x.advFromLL {
			// RFC 4861 7.2.4: the advertisement may come from another address of the interface,
			// typically its link-local one; what it resolves is the target field
			src = []byte("\xfe\x80\x00\x00\x00\x00\x00\x00\x00\x00\x00\x00\x00\x00\x00\x42")
		}
		msg := ref.BuildICMPv6(136, 0, body, src, []byte(addrA6))
		x.c.w.Inject(x.c.n, 1, 0x86dd, ref.BuildIPv6(src, []byte(addrA6), ref.ProtoICMPv6, 255, msg), mac, macS)
	} else {
		x.c.w.Inject(x.c.n, 1, 0x0806, ref.BuildARP(2, []byte(mac), []byte(x.nextHop), []byte(macS), []byte(addrA4)), mac, macS)
	}
	x.learned = mac
	// a reply that arrives after the retry budget has run out and the failure has been
	// reported comes too late for the waiting operation: it only fills the cache
	if x.scen == "tcp" && x.tcpEP != nil {
		if st := tcp.VerifDump(x.tcpEP); st.State == 6 && st.HardError == tcpip.ErrNoLinkAddress.String() {
			x.lateReplies++
			return
		}
	}
	x.replies++
}

func (x *c12Wait) tryWrite(i int) {
	ep := x.socks[i]
	_, ch, err := ep.Write(tcpip.SlicePayload([]byte(fmt.Sprintf("datagram-%d", i))), tcpip.WriteOptions{To: &tcpip.FullAddress{Addr: x.dst, Port: 99}})
	switch err {
	case nil:
		x.wrote[i] = true
		x.waitCh[i] = nil
	case tcpip.ErrWouldBlock:
		x.waitCh[i] = ch
	default:
		x.failed[i] = err.String()
		x.waitCh[i] = nil
	}
}

func chClosed(ch <-chan struct{}) bool {
	if ch == nil {
		return true
	}
	select {
	case <-ch:
		return true
	default:
		return false
	}
}

func (x *c12Wait) menu() []action {
	var m []action
	fl := x.c.w.InFlight()
	timers := vtime.Pending()
	if len(fl) > 0 {
		f := fl[0]
		d, err := x.c.mon.Check(f, []tcpip.Address{addrA4, ipA2, addrA6})
		if err != nil {
			x.fail("malformed-frame", "frame #%d: %v", f.Seq, err)
		}
		isReq := d != nil && ((d.ARP != nil && d.ARP.Op == 1) || (d.ICMP != nil && d.V6 && d.ICMP.Type == 135))
		if isReq {
			x.onRequest(d)
			m = append(m, action{name: "request reaches the neighbour, which replies", do: func() { x.c.w.Take(f); x.deliverReply(x.hopMAC()) }})
			m = append(m, action{name: "request is lost", cost: 1, do: func() { x.c.w.Take(f); x.dropped++ }})
			m = append(m, action{name: "reply is lost", cost: 1, do: func() { x.c.w.Take(f); x.dropped++ }})
			m = append(m, action{name: "neighbour replies with another link address", cost: 1, do: func() { x.c.w.Take(f); x.deliverReply(macQ) }})
			m = append(m, action{name: "neighbour replies twice, second time with another link address", cost: 1, do: func() {
				x.c.w.Take(f)
				x.deliverReply(x.hopMAC())
				x.deliverReply(macQ)
			}})
			if len(timers) > 0 {
				m = append(m, action{name: "timer fires before the reply arrives", cost: 1, do: func() { vtime.FireNext() }})
			}
		} else {
			m = append(m, action{name: "data frame leaves", do: func() { x.c.w.Take(f); x.onData(d) }})
		}
		return m
	}
	// application calls
	for i := range x.socks {
		i := i
		if !x.wrote[i] && x.failed[i] == "" && chClosed(x.waitCh[i]) {
			m = append(m, action{name: fmt.Sprintf("socket %d: write", i), do: func() { x.tryWrite(i) }})
			break
		}
	}
	if x.scen == "tcp" && !x.tcpStarted {
		m = append(m, action{name: "tcp connect", do: func() {
			x.tcpStarted = true
			x.tcpEP.Connect(tcpip.FullAddress{Addr: x.dst, Port: 80})
		}})
	}
	if len(m) > 0 {
		if !x.unsolicited && x.replies == 0 {
			m = append(m, action{name: "unsolicited announcement arrives first", cost: 1, do: func() { x.unsolicited = true; x.deliverReply(x.hopMAC()) }})
		}
		return m
	}
	if len(timers) > 0 && vtime.Elapsed() < 2*time.Minute {
		m = append(m, action{name: fmt.Sprintf("timer(+%v)", timers[0]), do: func() { vtime.FireNext() }})
	}
	return m
}

func (x *c12Wait) onRequest(d *Decoded) {
	if d.F.DstMAC != bcast {
		x.fail("request-not-broadcast", "resolution request sent to link address %x, want broadcast", string(d.F.DstMAC))
	}
	if d.ARP != nil {
		if !bytes.Equal(d.ARP.TPA[:], []byte(x.nextHop)) {
			x.fail("request-wrong-target", "ARP request asks for %x, the next hop is %x", d.ARP.TPA, string(x.nextHop))
		}
		if !bytes.Equal(d.ARP.SHA[:], []byte(macS)) || !bytes.Equal(d.ARP.SPA[:], []byte(addrA4)) {
			x.fail("request-wrong-sender", "ARP request carries sender %x/%x, want %x/%x", d.ARP.SPA, d.ARP.SHA, string(addrA4), string(macS))
		}
	}
	// count each request once (the menu is rebuilt while the frame is still in flight)
	if n := len(x.reqSeq); n > 0 && x.reqSeq[n-1] == d.F.Seq {
		return
	}
	x.reqSeq = append(x.reqSeq, d.F.Seq)
	x.reqTimes = append(x.reqTimes, d.F.At)
	if n := len(x.reqTimes); n >= 2 && x.replies == 0 {
		if gap := x.reqTimes[n-1] - x.reqTimes[n-2]; gap != time.Second {
			x.fail("request-interval", "requests repeated after %v, want 1s", gap)
		}
	}
	if x.replies == 0 && len(x.reqTimes) > 3 {
		x.fail("too-many-requests", "%d requests in one resolution, the retry budget is 3", len(x.reqTimes))
	}
}

func (x *c12Wait) onData(d *Decoded) {
	if d == nil || (d.UDP == nil && d.TCP == nil) {
		return
	}
	x.dataSeen++
	if x.replies == 0 {
		x.fail("data-before-resolution", "a data frame for %x left the stack although no reply has been delivered yet", string(x.dst))
		return
	}
	if !bytes.Equal(d.Dst, []byte(x.dst)) {
		x.fail("data-wrong-destination", "data frame addressed to %x, socket wrote to %x", d.Dst, string(x.dst))
	}
	if d.F.DstMAC != x.learned && d.UDP != nil {
		x.fail("data-wrong-link-address", "data frame for next hop %x sent to link address %x, the most recently learned one is %x", string(x.nextHop), string(d.F.DstMAC), string(x.learned))
	}
	if d.TCP != nil && d.F.DstMAC != macP && d.F.DstMAC != macQ {
		x.fail("data-wrong-link-address", "TCP segment sent to link address %x which no reply ever announced", string(d.F.DstMAC))
	}
}

func c12RunWait(scen string, prefix []int) (res *engine.EnvRun) {
	x := &c12Wait{scen: scen, c: c12NewWorld(), ch: engine.NewChooser(prefix)}
	res = &engine.EnvRun{C: x.ch}
	defer func() {
		if e := recover(); e != nil {
			x.viol = &engine.Violation{Property: "C07", Kind: "panic", Key: "panic:" + keyOf(fmt.Errorf("%v", e)), Detail: fmt.Sprintf("panic: %v", e)}
			res.Violation = x.viol
		}
	}()
	x.dst, x.nextHop = ipX, ipX
	nsock := 1
	netp := tcpip.NetworkProtocolNumber(ipv4.ProtocolNumber)
	switch scen {
	case "udp2":
		nsock = 2
	case "gw":
		x.dst, x.nextHop = ipFar, ipGW
	case "udp255":
		// an ordinary neighbour whose address ends in .255 (10.0.1.255 inside 10.0.0.0/8): not a
		// broadcast address, it is resolved like any other
		x.dst, x.nextHop = "\x0a\x00\x01\xff", "\x0a\x00\x01\xff"
		x.c.n.S.SetRouteTable([]tcpip.Route{{Destination: "\x0a\x00\x00\x00", Mask: "\xff\x00\x00\x00", NIC: 1}})
	case "udp6", "udp6ll":
		x.advFromLL = scen == "udp6ll"
		x.v6 = true
		x.dst, x.nextHop = ip6X, ip6X
		netp = ipv6.ProtocolNumber
	case "tcp":
		nsock = 0
		x.tcpEP = x.c.n.NewSock(tcp.ProtocolNumber, ipv4.ProtocolNumber).EP
	}
	for i := 0; i < nsock; i++ {
		x.socks = append(x.socks, x.c.n.NewSock(udp.ProtocolNumber, netp).EP)
	}
	x.wrote = make([]bool, nsock)
	x.failed = make([]string, nsock)
	x.waitCh = make([]<-chan struct{}, nsock)
	for res.Steps < 400 && x.viol == nil {
		m := x.menu()
		if len(m) == 0 {
			break
		}
		costs := make([]int, len(m))
		for i := range m {
			costs[i] = m[i].cost
		}
		ci := x.ch.Choose(len(m), costs)
		x.trace = append(x.trace, m[ci].name)
		m[ci].do()
		x.c.w.Settle()
		res.Steps++
		x.states = append(x.states, engine.Hash(len(x.c.w.InFlight()), x.replies, x.dropped, x.wrote, x.failed, vtime.Pending()))
	}
	// end oracles
	if x.viol == nil {
		for i := range x.socks {
			switch {
			case x.replies > 0 && !x.wrote[i]:
				x.fail("write-not-completed", "a reply was delivered but write %d never completed (error %q)", i, x.failed[i])
			case x.replies == 0 && x.failed[i] != tcpip.ErrNoLinkAddress.String():
				x.fail("no-failure", "no reply was ever delivered, yet write %d ended with %q (want the no-link-address error after the retry budget)", i, x.failed[i])
			}
		}
		if x.replies == 0 && len(x.socks) > 0 && len(x.reqTimes) != 3 {
			x.fail("retry-budget", "%d requests were sent in a resolution that never got a reply, want 3", len(x.reqTimes))
		}
		if x.scen == "tcp" {
			st := tcp.VerifDump(x.tcpEP)
			if x.replies == 0 && (st.State != 6 || st.HardError != tcpip.ErrNoLinkAddress.String()) {
				x.fail("tcp-no-failure", "no reply was ever delivered but the connecting endpoint is in state %d error %q (want the no-link-address error)", st.State, st.HardError)
			}
			if x.replies > 0 && x.dataSeen == 0 {
				x.fail("tcp-syn-not-sent", "a reply was delivered but the SYN never left")
			}
		}
	}
	res.Violation = x.viol
	res.Trace = x.trace
	res.States = x.states
	res.Outcome = engine.Hash(x.wrote, x.failed, x.replies, len(x.reqTimes), x.dataSeen)
	for _, s := range x.socks {
		s.Close()
	}
	if x.tcpEP != nil {
		x.tcpEP.Close()
	}
	x.c.close()
	return res
}

// ---------- cache (seqx) ----------

type c12Cache struct {
	c     *c12World
	names []string
	ops   []c12COp
	ref   map[tcpip.Address]*c12Ent
}

type c12Ent struct {
	state string // ready | incomplete | failed
	mac   tcpip.LinkAddress
	born  time.Duration
}

type c12COp struct {
	kind byte // 'G' lookup, 'L' learn, 'A' advance
	a    int
	m    int
	d    time.Duration
}

var c12Addrs = []tcpip.Address{ipX, ipY, "\x0a\x00\x00\x04"}
var c12MACs = []tcpip.LinkAddress{macP, macQ}

func c12CacheAlphabet() ([]c12COp, []string) {
	var ops []c12COp
	var names []string
	for a := range c12Addrs {
		ops = append(ops, c12COp{kind: 'G', a: a})
		names = append(names, fmt.Sprintf("lookup(n%d)", a))
		for m := range c12MACs {
			ops = append(ops, c12COp{kind: 'L', a: a, m: m})
			names = append(names, fmt.Sprintf("learn(n%d,mac%d)", a, m))
		}
	}
	ops = append(ops, c12COp{kind: 'A', d: 30 * time.Second}, c12COp{kind: 'A', d: 61 * time.Second}, c12COp{kind: 'A', d: 1500 * time.Millisecond})
	names = append(names, "advance(30s)", "advance(61s)", "advance(1.5s)")
	return ops, names
}

func c12NewCache() engine.SeqSys {
	s := &c12Cache{c: c12NewWorld(), ref: map[tcpip.Address]*c12Ent{}}
	s.ops, s.names = c12CacheAlphabet()
	return s
}

func (s *c12Cache) Close() { s.c.close() }

func (s *c12Cache) Enabled() []int {
	en := make([]int, len(s.ops))
	for i := range en {
		en[i] = i
	}
	return en
}

const c12Age = time.Minute

// expire applies the reference's time-driven transitions up to now.
func (s *c12Cache) expire() {
	now := vtime.Elapsed()
	for a, e := range s.ref {
		if e.state == "incomplete" && now-e.born >= 3*time.Second {
			e.state = "failed"
		}
		if now-e.born > c12Age {
			delete(s.ref, a)
		}
	}
}

func (s *c12Cache) Apply(i int) *engine.Violation {
	o := s.ops[i]
	bad := func(key, f string, a ...interface{}) *engine.Violation {
		return &engine.Violation{Property: "C12", Kind: "cache", Key: "cache:" + key, Detail: s.names[i] + ": " + fmt.Sprintf(f, a...)}
	}
	switch o.kind {
	case 'A':
		// advance in steps so that resolution timers fire at their own times
		target := vtime.Elapsed() + o.d
		for {
			p := vtime.Pending()
			if len(p) == 0 || vtime.Elapsed()+p[0] > target {
				break
			}
			vtime.FireNext()
			s.c.w.Settle()
		}
		vtime.Advance(target - vtime.Elapsed())
		s.c.take()
		s.expire()
	case 'L':
		s.expire()
		s.c.n.S.AddLinkAddress(1, c12Addrs[o.a], c12MACs[o.m])
		s.c.w.Settle()
		e := s.ref[c12Addrs[o.a]]
		if e != nil && e.state == "ready" && e.mac == c12MACs[o.m] {
			// same mapping again: the entry keeps its age
		} else if e != nil && e.state == "incomplete" {
			e.state, e.mac = "ready", c12MACs[o.m]
		} else {
			s.ref[c12Addrs[o.a]] = &c12Ent{state: "ready", mac: c12MACs[o.m], born: vtime.Elapsed()}
		}
	case 'G':
		s.expire()
		w := &sleep.Waker{}
		mac, _, err := s.c.n.S.GetLinkAddress(1, c12Addrs[o.a], addrA4, ipv4.ProtocolNumber, w)
		s.c.w.Settle()
		frames, _ := s.c.take()
		e := s.ref[c12Addrs[o.a]]
		switch {
		case e != nil && e.state == "ready":
			if err != nil || mac != e.mac {
				return bad("lookup-ready", "returned (%x, %v), the cache holds a fresh entry %x learned %v ago", string(mac), err, string(e.mac), vtime.Elapsed()-e.born)
			}
		case e != nil && e.state == "failed":
			if err != tcpip.ErrNoLinkAddress {
				return bad("lookup-failed", "returned (%x, %v) for a neighbour whose resolution failed %v ago (want the no-link-address error)", string(mac), err, vtime.Elapsed()-e.born)
			}
		case e != nil && e.state == "incomplete":
			if err != tcpip.ErrWouldBlock {
				return bad("lookup-incomplete", "returned (%x, %v) while a resolution is in progress (want would-block)", string(mac), err)
			}
		default:
			if err != tcpip.ErrWouldBlock {
				return bad("lookup-stale", "returned (%x, %v) for a neighbour that is unknown or whose entry has expired: a stale or foreign entry was reported instead of starting a new resolution", string(mac), err)
			}
			reqs := 0
			for _, d := range frames {
				if d.ARP != nil && d.ARP.Op == 1 && bytes.Equal(d.ARP.TPA[:], []byte(c12Addrs[o.a])) {
					reqs++
				}
			}
			if reqs != 1 {
				return bad("lookup-no-request", "a lookup of an unknown/expired neighbour must start a resolution: %d requests for it were emitted", reqs)
			}
			s.ref[c12Addrs[o.a]] = &c12Ent{state: "incomplete", born: vtime.Elapsed()}
		}
	}
	return nil
}

func (s *c12Cache) Key() string { return "" }

func c12CacheCfg(tier string, i, n int, deadline time.Time) engine.SeqCfg {
	_, names := c12CacheAlphabet()
	d := 4
	if tier == "thorough" {
		d = 5
	}
	return engine.SeqCfg{Alphabet: names, New: c12NewCache, FullDepth: d, DedupDepth: d, Deadline: deadline, ShardI: i, ShardN: n}
}

// c12Overflow: learn 520 neighbours, then look every one up.
func c12Overflow() *c12Fail {
	c := c12NewWorld()
	defer c.close()
	addr := func(i int) tcpip.Address { return tcpip.Address([]byte{10, 0, byte(1 + i/200), byte(1 + i%200)}) }
	mac := func(i int) tcpip.LinkAddress { return tcpip.LinkAddress([]byte{2, 0, 0, 1, byte(i >> 8), byte(i)}) }
	const n = 520
	c.n.S.SetRouteTable([]tcpip.Route{{Destination: "\x0a\x00\x00\x00", Mask: "\xff\x00\x00\x00", NIC: 1}})
	for i := 0; i < n; i++ {
		c.n.S.AddLinkAddress(1, addr(i), mac(i))
	}
	for i := 0; i < n; i++ {
		w := &sleep.Waker{}
		m, _, err := c.n.S.GetLinkAddress(1, addr(i), addrA4, ipv4.ProtocolNumber, w)
		if err == nil && m != mac(i) {
			return &c12Fail{"overflow-wrong-entry", fmt.Sprintf("after learning %d neighbours, lookup of neighbour %d (%x) returns %x, which was learned for a different address (its own is %x)", n, i, string(addr(i)), string(m), string(mac(i)))}
		}
		if err != nil && err != tcpip.ErrWouldBlock {
			return &c12Fail{"overflow-error", fmt.Sprintf("lookup of neighbour %d returns %v", i, err)}
		}
	}
	return nil
}

// c12Wrap: a neighbour whose entry was overwritten / expired / failed earlier (leaving a stale
// ring slot behind) must survive as long as fewer than 512 newer entries have been created,
// and a lookup waiting for it must still be completed by the reply.
func c12Wrap() []c12Fail {
	var fails []c12Fail
	other := func(i int) tcpip.Address { return tcpip.Address([]byte{10, 0, byte(2 + i/200), byte(1 + i%200)}) }
	omac := func(i int) tcpip.LinkAddress { return tcpip.LinkAddress([]byte{2, 0, 0, 2, byte(i >> 8), byte(i)}) }
	k := ipX
	for _, prelude := range []string{"overwrite", "expire-relearn", "expire-lookup-pending", "failed-then-late-reply"} {
		for _, fill := range []int{500, 510, 511} {
			c := c12NewWorld()
			c.n.S.SetRouteTable([]tcpip.Route{{Destination: "\x0a\x00\x00\x00", Mask: "\xff\x00\x00\x00", NIC: 1}})
			var pending <-chan struct{}
			advance := func(d time.Duration) {
				target := vtime.Elapsed() + d
				for {
					p := vtime.Pending()
					if len(p) == 0 || vtime.Elapsed()+p[0] > target {
						break
					}
					vtime.FireNext()
					c.w.Settle()
				}
				vtime.Advance(target - vtime.Elapsed())
				c.take()
			}
			s := c.n.S
			want := macQ
			switch prelude {
			case "overwrite":
				s.AddLinkAddress(1, k, macP)
				s.AddLinkAddress(1, k, macQ)
			case "expire-relearn":
				s.AddLinkAddress(1, k, macP)
				advance(61 * time.Second)
				s.AddLinkAddress(1, k, macQ)
			case "expire-lookup-pending":
				s.AddLinkAddress(1, k, macP)
				advance(61 * time.Second)
				_, ch, err := s.GetLinkAddress(1, k, addrA4, ipv4.ProtocolNumber, &sleep.Waker{})
				c.w.Settle()
				c.take()
				if err != tcpip.ErrWouldBlock {
					fails = append(fails, c12Fail{"wrap-harness", fmt.Sprintf("prelude %s: lookup of an expired entry returned %v", prelude, err)})
				}
				pending = ch
			case "failed-then-late-reply":
				s.GetLinkAddress(1, k, addrA4, ipv4.ProtocolNumber, &sleep.Waker{})
				c.w.Settle()
				advance(4 * time.Second)
				s.AddLinkAddress(1, k, macQ)
			}
			for i := 0; i < fill; i++ {
				s.AddLinkAddress(1, other(i), omac(i))
			}
			if pending != nil {
				// the reply arrives now: the waiting lookup must be completed
				s.AddLinkAddress(1, k, macQ)
				c.w.Settle()
				if !chClosed(pending) {
					fails = append(fails, c12Fail{"wrap-waiter-abandoned", fmt.Sprintf("prelude %s, then %d other neighbours learned, then the reply for the pending neighbour: the waiting lookup was never completed", prelude, fill)})
				}
			}
			m, _, err := s.GetLinkAddress(1, k, addrA4, ipv4.ProtocolNumber, &sleep.Waker{})
			c.w.Settle()
			if err != nil || m != want {
				fails = append(fails, c12Fail{"wrap-live-entry-lost", fmt.Sprintf("prelude %s, then %d other neighbours learned (fewer than the 512 cache slots): lookup of the neighbour returns (%x, %v), its fresh entry %x was lost", prelude, fill, string(m), err, string(want))})
			}
			c.close()
		}
	}
	// an entry that is looked up again and again still expires one age limit (60 s) after it was
	// learned: the lookups do not prolong its life
	{
		c := c12NewWorld()
		c.n.S.SetRouteTable([]tcpip.Route{{Destination: "\x0a\x00\x00\x00", Mask: "\xff\x00\x00\x00", NIC: 1}})
		s := c.n.S
		s.AddLinkAddress(1, k, macP)
		for _, at := range []int{25, 50, 75} {
			vtime.Advance(25 * time.Second)
			m, _, err := s.GetLinkAddress(1, k, addrA4, ipv4.ProtocolNumber, &sleep.Waker{})
			c.w.Settle()
			c.take()
			if at < 60 && (err != nil || m != macP) {
				fails = append(fails, c12Fail{"refresh-harness", fmt.Sprintf("lookup %d s after learning returned (%x, %v)", at, string(m), err)})
			}
			if at > 60 && err == nil {
				fails = append(fails, c12Fail{"entry-outlives-age-limit", fmt.Sprintf("a neighbour learned at t=0 and looked up at t=25 s and t=50 s is still reported (%x) at t=%d s, after its 60 s lifetime: lookups prolonged the entry, it is never resolved again", string(m), at)})
			}
		}
		c.close()
	}
	// a lookup is waiting for neighbour k while so many other neighbours are learned that k's
	// slot is taken over: the waiting operation must not be forgotten - it is released at once
	// or at the latest when the retry budget is over
	for _, fill := range []int{511, 512, 513, 600} {
		c := c12NewWorld()
		c.n.S.SetRouteTable([]tcpip.Route{{Destination: "\x0a\x00\x00\x00", Mask: "\xff\x00\x00\x00", NIC: 1}})
		s := c.n.S
		wk := &sleep.Waker{}
		_, ch, err := s.GetLinkAddress(1, k, addrA4, ipv4.ProtocolNumber, wk)
		c.w.Settle()
		c.take()
		if err != tcpip.ErrWouldBlock || ch == nil {
			fails = append(fails, c12Fail{"wrap-harness", fmt.Sprintf("lookup of an unknown neighbour returned %v", err)})
			c.close()
			continue
		}
		for i := 0; i < fill; i++ {
			s.AddLinkAddress(1, other(i), omac(i))
		}
		c.w.Settle()
		for i := 0; i < 8; i++ { // more than the retry budget (3 attempts, 1 s each)
			if len(vtime.Pending()) == 0 {
				break
			}
			vtime.FireNext()
			c.w.Settle()
			c.take()
		}
		if !chClosed(ch) {
			fails = append(fails, c12Fail{"wrap-waiter-abandoned", fmt.Sprintf("a lookup was waiting for a neighbour, then %d other neighbours were learned (the cache has 512 slots) and the retry budget ran out: the waiting lookup was never released (no address, no failure)", fill)})
		}
		c.close()
	}
	return fails
}

// ---------- jobs ----------

func c12Jobs(tier string) []string {
	jobs := []string{"resp:arp", "resp:ndp", "overflow", "wrap"}
	for _, s := range []string{"udp", "udp2", "gw", "tcp", "udp6", "udp6ll", "udp255"} {
		b := 2
		if tier == "thorough" {
			b = 3
		}
		for i := 0; i < 4; i++ {
			jobs = append(jobs, fmt.Sprintf("wait:%s:%d:%d/4", s, b, i))
		}
	}
	for i := 0; i < 12; i++ {
		jobs = append(jobs, fmt.Sprintf("cache:%d/12", i))
	}
	return jobs
}

func c12Run(job, tier string, deadline time.Time) *engine.Result {
	r := &engine.Result{Exhaustive: true}
	parts := strings.Split(job, ":")
	defer func() {
		r.Recycle = runtime.NumGoroutine() > 100
		if r.States == 0 {
			r.States = r.Execs + 1
		}
		r.Outcomes = append(r.Outcomes, engine.Hash(job, len(r.Violations)))
	}()
	report := func(f *c12Fail, replay interface{}) {
		if f != nil && len(r.Violations) < 6 {
			r.Violations = append(r.Violations, engine.Violation{Property: "C12", Kind: "neighbour", Key: f.key, Detail: f.msg, Job: job, Replay: engine.MustJSON(replay)})
		}
	}
	switch parts[0] {
	case "resp":
		if parts[1] == "arp" {
			for _, op := range []uint16{1, 2, 3} {
				for t := 0; t < 4; t++ {
					for s := 0; s < 3; s++ {
						for mal := 0; mal < 6; mal++ {
							in := c12ArpIn{op, t, s, mal}
							report(c12ArpCase(in), map[string]interface{}{"job": job, "arp": in})
							r.Execs++
							r.Transitions++
							r.Nontrivial++
						}
					}
				}
			}
			r.Sample(map[string]interface{}{"arp": "op {1,2,3} x target {A1,A2,foreign,broadcast} x sender {X/macP, Y/macQ, 0.0.0.0/macP} x malformed {none,hlen,plen,htype,ptype,truncated}"})
		} else {
			for k := 0; k < 2; k++ {
				for t := 0; t < 2; t++ {
					for d := 0; d < 2; d++ {
						for o := 0; o < 2; o++ {
							in := c12NdpIn{k, t, d, o}
							if k == 1 && o == 1 {
								continue
							}
							report(c12NdpCase(in), map[string]interface{}{"job": job, "ndp": in})
							r.Execs++
							r.Transitions++
							r.Nontrivial++
						}
					}
				}
			}
			r.Sample(map[string]interface{}{"ndp": "solicitation/advertisement x target {own,foreign} x destination {solicited-node multicast, unicast} x link-layer option {present, absent}"})
		}
	case "overflow":
		report(c12Overflow(), map[string]interface{}{"job": job})
		r.Execs, r.Transitions, r.Nontrivial = 1, 1040, 1
		r.Sample(map[string]interface{}{"overflow": "learn 520 neighbours, look every one up"})
	case "wrap":
		for _, f := range c12Wrap() {
			f := f
			report(&f, map[string]interface{}{"job": job})
		}
		r.Execs, r.Transitions, r.Nontrivial = 12, 12*512, 12
		r.Sample(map[string]interface{}{"wrap": "preludes {overwrite, expire-relearn, expire-lookup-pending, failed-then-late-reply} x {500,510,511} other neighbours, then lookup"})
	case "wait":
		var b, i, n int
		fmt.Sscan(parts[2], &b)
		fmt.Sscanf(parts[3], "%d/%d", &i, &n)
		scen := parts[1]
		st := engine.ExploreEnv(job, func(prefix []int) *engine.EnvRun { return c12RunWait(scen, prefix) }, engine.EnvCfg{Budget: b, Deadline: deadline, ShardI: i, ShardN: n})
		st.Into(r)
		r.Bound = fmt.Sprintf("deviation budget %d", b)
	case "cache":
		var i, n int
		fmt.Sscanf(parts[1], "%d/%d", &i, &n)
		st := engine.ExploreSeq(job, c12CacheCfg(tier, i, n, deadline))
		st.Into(r)
		r.States = st.Sequences + 1
	}
	var vs []engine.Violation
	for _, v := range r.Violations {
		if v.Property == "C12" {
			vs = append(vs, v)
		}
	}
	r.Violations = vs
	return r
}

func c12Replay(rp json.RawMessage) *engine.Violation {
	var sr engine.SeqReplay
	if json.Unmarshal(rp, &sr) == nil && strings.HasPrefix(sr.Job, "cache:") {
		return engine.ReplaySeq(c12CacheCfg("quick", 0, 1, time.Time{}), sr.Ops)
	}
	var er engine.EnvReplay
	if json.Unmarshal(rp, &er) == nil && strings.HasPrefix(er.Job, "wait:") {
		return c12RunWait(strings.Split(er.Job, ":")[1], er.Choices).Violation
	}
	var p struct {
		Job string
		Arp *c12ArpIn
		Ndp *c12NdpIn
	}
	if json.Unmarshal(rp, &p) != nil {
		return nil
	}
	var f *c12Fail
	switch {
	case p.Arp != nil:
		f = c12ArpCase(*p.Arp)
	case p.Ndp != nil:
		f = c12NdpCase(*p.Ndp)
	case p.Job == "overflow":
		f = c12Overflow()
	case p.Job == "wrap":
		if fs := c12Wrap(); len(fs) > 0 {
			f = &fs[0]
		}
	}
	if f == nil {
		return nil
	}
	return &engine.Violation{Property: "C12", Kind: "neighbour", Key: f.key, Detail: f.msg}
}
