package main

import (
	"bytes"
	"encoding/json"
	"fmt"
	"runtime"
	"strings"
	"time"

	tcpip "github.com/brewlin/net-protocol/protocol"
	"github.com/brewlin/net-protocol/protocol/network/ipv4"
	"github.com/brewlin/net-protocol/protocol/network/ipv6"
	"github.com/brewlin/net-protocol/protocol/transport/udp"

	"verif/engine"
	"verif/ref"
	"verif/shim/vsched"
	"verif/shim/vtime"
)

// C11: UDP datagrams arrive whole, unmerged, at most once each, from the right sender.
//   len:<fam>:<i>/<n>   every payload length through every socket-kind combination
//   big                 lengths around the 16-bit boundaries (one emitted packet or an error)
//   seq:<i>/<n>         all interleavings of sends from two senders, reads, shutdown, close
//   raw                 datagrams from the raw peer with odd length fields
//   coop:<prog>         concurrent readers vs packet delivery under the cooperative scheduler

func init() {
	engine.Register(&engine.Check{
		ID:         "C11",
		Technique:  "exhaustive enumeration of payload lengths and socket kinds on two real stacks in the deterministic world; explicit-state search over all interleavings of sends, reads, shutdown and close against a reference queue; stateless model checking (cooperative scheduler, all schedules) of concurrent readers versus packet delivery",
		Rule:       "len: every payload length 0..1472 x {IPv4, IPv6, v4-mapped on a dual-stack socket} x sender kinds {bound *, bound specific, connected, unbound} x receiver kinds {bound *, bound specific, connected}; big: lengths {1473, 2000, 65507, 65508, 65527, 65528, 65535, 65536}; seq: all sequences of length <=6 over {send by sender 1/2 (sizes 0, 12000, 20000, 30000 bytes against the fixed 32 KiB receive buffer), read, shutdown(read), shutdown(write), shutdown(read+write), close} under receive-buffer pressure; coop: every schedule of 2 readers + 1 delivering thread; distinct = distinct input/sequence/schedule",
		Assumes:    []string{"a datagram is accepted if it fits (queued bytes + its size <= buffer size); when it does not fit it may be dropped, whole"},
		Jobs:       c11Jobs,
		Run:        c11Run,
		Replay:     c11Replay,
		NeedRepro:  true,
		WorkerJobs: 30,
	})
}

type c11World struct {
	w    *World
	a, b *Node
	mon  *Monitor
	seen int
}

func c11NewWorld() *c11World {
	w := NewWorld()
	ScriptRand(1, 2, 3)
	c := &c11World{w: w, mon: NewMonitor()}
	c.a = w.AddNode(NodeCfg{Name: "A", V4: []tcpip.Address{addrA4}, V6: []tcpip.Address{addrA6}, MTU: 65535})
	c.b = w.AddNode(NodeCfg{Name: "B", V4: []tcpip.Address{addrB4}, V6: []tcpip.Address{addrB6}, MTU: 65535})
	return c
}

func (c *c11World) close() {
	c.w.Settle()
	for _, n := range c.w.Nodes {
		for _, a := range []tcpip.Address{addrA4, addrA6, addrB4, addrB6} {
			n.S.RemoveAddress(1, a)
		}
	}
	c.w.Settle()
}

// pump delivers everything in flight to the other node; returns the frames (after monitor).
func (c *c11World) pump() ([]*Decoded, error) {
	var out []*Decoded
	var ferr error
	for {
		fl := c.w.InFlight()
		if len(fl) == 0 {
			return out, ferr
		}
		for _, f := range fl {
			c.w.Take(f)
			local := []tcpip.Address{addrA4, addrA6}
			to := c.b
			if f.From == c.b {
				local = []tcpip.Address{addrB4, addrB6}
				to = c.a
			}
			d, err := c.mon.Check(f, local)
			if err != nil && ferr == nil {
				ferr = fmt.Errorf("frame #%d from %s: %v", f.Seq, f.From.Name, err)
			}
			out = append(out, d)
			c.w.Deliver(f, to, 1)
		}
	}
}

type c11Fail struct{ key, msg string }

func c11Data(seed byte, n int) []byte {
	b := make([]byte, n)
	for i := range b {
		b[i] = seed + byte(i*31) + byte(i>>8)
	}
	return b
}

// sockets

func v4mapped(a tcpip.Address) tcpip.Address {
	return tcpip.Address("\x00\x00\x00\x00\x00\x00\x00\x00\x00\x00\xff\xff" + string(a))
}

type c11Kind struct {
	Fam  string // 4 | 6 | m (v4-mapped destination on a dual-stack sender socket)
	Send string // any | spec | conn | unbound
	Recv string // any | spec | conn
}

const (
	c11RecvPort = 5300
	c11SendPort = 5301
)

// c11Pair creates sender (on A) and receiver (on B) sockets of the given kinds.
func (c *c11World) sockets(k c11Kind) (snd, rcv tcpip.Endpoint, to *tcpip.FullAddress, wantSrc tcpip.FullAddress, f *c11Fail) {
	sendNet, recvNet := tcpip.NetworkProtocolNumber(ipv4.ProtocolNumber), tcpip.NetworkProtocolNumber(ipv4.ProtocolNumber)
	aAddr, bAddr := addrA4, addrB4
	dst := addrB4
	switch k.Fam {
	case "6":
		sendNet, recvNet = ipv6.ProtocolNumber, ipv6.ProtocolNumber
		aAddr, bAddr, dst = addrA6, addrB6, addrB6
	case "m":
		sendNet = ipv6.ProtocolNumber // dual-stack socket, v4-mapped destination
		dst = v4mapped(addrB4)
	}
	rcv = c.b.NewSock(udp.ProtocolNumber, recvNet).EP
	switch k.Recv {
	case "any":
		must(rcv.Bind(tcpip.FullAddress{Port: c11RecvPort}, nil))
	case "spec":
		must(rcv.Bind(tcpip.FullAddress{Addr: bAddr, Port: c11RecvPort}, nil))
	case "conn":
		must(rcv.Bind(tcpip.FullAddress{Port: c11RecvPort}, nil))
		if k.Send == "unbound" {
			return nil, nil, nil, wantSrc, &c11Fail{"skip", ""}
		}
		if err := rcv.Connect(tcpip.FullAddress{Addr: aAddr, Port: c11SendPort}); err != nil {
			return nil, nil, nil, wantSrc, &c11Fail{"receiver-connect", "receiver Connect: " + err.String()}
		}
	}
	snd = c.a.NewSock(udp.ProtocolNumber, sendNet).EP
	srcPort := uint16(c11SendPort)
	switch k.Send {
	case "any":
		must(snd.Bind(tcpip.FullAddress{Port: c11SendPort}, nil))
	case "spec":
		a := aAddr
		if k.Fam == "m" {
			a = v4mapped(addrA4)
		}
		if err := snd.Bind(tcpip.FullAddress{Addr: a, Port: c11SendPort}, nil); err != nil {
			return nil, nil, nil, wantSrc, &c11Fail{"sender-bind", "sender Bind: " + err.String()}
		}
	case "conn":
		must(snd.Bind(tcpip.FullAddress{Port: c11SendPort}, nil))
		if err := snd.Connect(tcpip.FullAddress{Addr: dst, Port: c11RecvPort}); err != nil {
			return nil, nil, nil, wantSrc, &c11Fail{"sender-connect", "sender Connect: " + err.String()}
		}
	case "unbound":
		srcPort = 16000 // first ephemeral port (the rand shim pins the search start)
	}
	if k.Send != "conn" {
		to = &tcpip.FullAddress{Addr: dst, Port: c11RecvPort}
	}
	wantSrc = tcpip.FullAddress{NIC: 1, Addr: aAddr, Port: srcPort}
	return
}

// c11Transfer: one datagram of n bytes through the kind; checks emission and reception.
func (c *c11World) transfer(snd, rcv tcpip.Endpoint, to *tcpip.FullAddress, wantSrc tcpip.FullAddress, n int, v6wire bool) *c11Fail {
	data := c11Data(byte(n), n)
	wrote, _, err := snd.Write(tcpip.SlicePayload(append([]byte(nil), data...)), tcpip.WriteOptions{To: to})
	c.w.Settle()
	frames, ferr := c.pump()
	if ferr != nil {
		return &c11Fail{"malformed-frame:" + keyOf(ferr), fmt.Sprintf("write of %d bytes: %v", n, ferr)}
	}
	if err != nil {
		if len(frames) != 0 {
			return &c11Fail{"error-but-packet", fmt.Sprintf("Write(%d bytes) failed with %v but %d packet(s) were emitted", n, err, len(frames))}
		}
		if n <= 1472 {
			return &c11Fail{"write-failed", fmt.Sprintf("Write(%d bytes) failed: %v", n, err)}
		}
		return nil
	}
	if int(wrote) != n {
		return &c11Fail{"short-write", fmt.Sprintf("Write(%d bytes) reported %d bytes written", n, wrote)}
	}
	if len(frames) != 1 || frames[0].UDP == nil {
		return &c11Fail{"not-one-packet", fmt.Sprintf("Write(%d bytes) emitted %d packet(s), want exactly one UDP packet", n, len(frames))}
	}
	if !bytes.Equal(frames[0].UDP.Payload, data) {
		return &c11Fail{"emitted-payload", fmt.Sprintf("Write(%d bytes): the emitted packet carries %d payload bytes that differ from the bytes written", n, len(frames[0].UDP.Payload))}
	}
	if frames[0].V6 != v6wire {
		return &c11Fail{"wrong-family", fmt.Sprintf("datagram left as v6=%v", frames[0].V6)}
	}
	if frames[0].UDP.SrcPort != wantSrc.Port || frames[0].UDP.DstPort != c11RecvPort {
		return &c11Fail{"emitted-ports", fmt.Sprintf("emitted packet has ports %d->%d, socket is %d->%d", frames[0].UDP.SrcPort, frames[0].UDP.DstPort, wantSrc.Port, c11RecvPort)}
	}
	var from tcpip.FullAddress
	v, _, rerr := rcv.Read(&from)
	if rerr != nil {
		return &c11Fail{"not-delivered", fmt.Sprintf("datagram of %d bytes was sent and delivered to the stack but Read returns %v", n, rerr)}
	}
	if !bytes.Equal(v, data) {
		return &c11Fail{"received-payload", fmt.Sprintf("datagram of %d bytes: Read returned %d bytes that differ from the datagram sent", n, len(v))}
	}
	if from.Addr != wantSrc.Addr || from.Port != wantSrc.Port {
		return &c11Fail{"sender-address", fmt.Sprintf("Read reports sender %x:%d, true sender is %x:%d", string(from.Addr), from.Port, string(wantSrc.Addr), wantSrc.Port)}
	}
	if v2, _, e2 := rcv.Read(nil); e2 == nil {
		return &c11Fail{"returned-twice", fmt.Sprintf("after one datagram of %d bytes a second Read returned %d bytes", n, len(v2))}
	}
	return nil
}

// ---------- sequence search: two senders, one receiver with a two-datagram buffer ----------

type c11Seq struct {
	c       *c11World
	s1, s2  tcpip.Endpoint
	rcv     tcpip.Endpoint
	queue   [][]byte // reference: accepted datagrams (payload)
	froms   []uint16
	maybe   [][]byte // datagrams that may or may not have been accepted (buffer pressure)
	bytesQ  int
	shut    bool
	closed  bool
	shutW   bool
	conn    bool // the receiving socket is connected to s1: s2's datagrams are no longer for it
	counter int
	names   []string
	bufMax  int
}

const c11Unit = 100

func c11SeqAlphabet() []string {
	return []string{"s1.send(12000)", "s1.send(20000)", "s2.send(12000)", "s2.send(30000)", "read", "shutdown(read)", "close", "s1.send(0)", "shutdown(write)", "shutdown(read+write)", "connect(to s1)"}
}

func c11NewSeq() engine.SeqSys {
	c := c11NewWorld()
	s := &c11Seq{c: c, names: c11SeqAlphabet(), bufMax: 32 * 1024} // the UDP receive buffer is fixed at 32 KiB
	s.rcv = c.b.NewSock(udp.ProtocolNumber, ipv4.ProtocolNumber).EP
	must(s.rcv.Bind(tcpip.FullAddress{Port: c11RecvPort}, nil))
	s.s1 = c.a.NewSock(udp.ProtocolNumber, ipv4.ProtocolNumber).EP
	must(s.s1.Bind(tcpip.FullAddress{Port: 6001}, nil))
	s.s2 = c.a.NewSock(udp.ProtocolNumber, ipv4.ProtocolNumber).EP
	must(s.s2.Bind(tcpip.FullAddress{Port: 6002}, nil))
	return s
}

func (s *c11Seq) Enabled() []int {
	if s.closed {
		return []int{0, 2}
	}
	en := []int{0, 1, 2, 3, 4, 7}
	if !s.shut {
		en = append(en, 5, 9)
	}
	if !s.shutW {
		en = append(en, 8)
	}
	if !s.conn {
		en = append(en, 10)
	}
	return append(en, 6)
}

func (s *c11Seq) Apply(i int) *engine.Violation {
	bad := func(key, f string, a ...interface{}) *engine.Violation {
		return &engine.Violation{Property: "C11", Kind: "udp-sequence", Key: "seq:" + key, Detail: s.names[i] + ": " + fmt.Sprintf(f, a...)}
	}
	send := func(ep tcpip.Endpoint, port uint16, n int) *engine.Violation {
		s.counter++
		data := c11Data(byte(s.counter*17), n)
		_, _, err := ep.Write(tcpip.SlicePayload(append([]byte(nil), data...)), tcpip.WriteOptions{To: &tcpip.FullAddress{Addr: addrB4, Port: c11RecvPort}})
		if err != nil {
			return bad("send-failed", "Write failed: %v", err)
		}
		s.c.w.Settle()
		if _, ferr := s.c.pump(); ferr != nil {
			return bad("malformed-frame", "%v", ferr)
		}
		if s.closed || s.shut || (s.conn && port != 6001) {
			return nil // must never be returned: checked by reads below (queue unchanged)
		}
		// fits => must be accepted; does not fit => may be dropped (whole)
		if s.bytesQ+n <= s.bufMax && len(s.maybe) == 0 {
			s.queue = append(s.queue, data)
			s.froms = append(s.froms, port)
			s.bytesQ += n
		} else {
			s.maybe = append(s.maybe, data)
			s.froms = append(s.froms, port)
		}
		return nil
	}
	switch i {
	case 0:
		return send(s.s1, 6001, 12000)
	case 1:
		return send(s.s1, 6001, 20000)
	case 2:
		return send(s.s2, 6002, 12000)
	case 3:
		return send(s.s2, 6002, 30000)
	case 7:
		return send(s.s1, 6001, 0)
	case 4:
		var from tcpip.FullAddress
		v, _, err := s.rcv.Read(&from)
		if err != nil {
			if len(s.queue) > 0 {
				return bad("lost", "Read returned %v although %d accepted datagram(s) are pending in the reference queue", err, len(s.queue))
			}
			if s.shut && err != tcpip.ErrClosedForReceive && len(s.maybe) == 0 {
				return bad("read-after-shutdown", "Read after Shutdown(read) returned %v, want ErrClosedForReceive", err)
			}
			s.maybe = nil // whatever was in doubt was dropped
			return nil
		}
		// must be the head of the definite queue, or (if that is empty) one of the doubtful ones in order
		if len(s.queue) > 0 {
			if !bytes.Equal(v, s.queue[0]) {
				return bad("wrong-datagram", "Read returned %d bytes that are not the oldest pending datagram (%d bytes): datagrams were reordered, merged, split or truncated", len(v), len(s.queue[0]))
			}
			s.bytesQ -= len(s.queue[0])
			s.queue = s.queue[1:]
		} else {
			found := -1
			for k, m := range s.maybe {
				if bytes.Equal(v, m) {
					found = k
					break
				}
			}
			if found < 0 {
				return bad("invented-datagram", "Read returned %d bytes matching no datagram that was sent and not yet returned", len(v))
			}
			s.maybe = s.maybe[found+1:]
		}
		if from.Addr != addrA4 || (from.Port != 6001 && from.Port != 6002) {
			return bad("sender-address", "Read reports sender %x:%d", string(from.Addr), from.Port)
		}
	case 5:
		if err := s.rcv.Shutdown(tcpip.ShutdownRead); err != nil {
			return bad("shutdown-failed", "%v", err)
		}
		s.shut = true
	case 8:
		if err := s.rcv.Shutdown(tcpip.ShutdownWrite); err != nil {
			return bad("shutdown-failed", "%v", err)
		}
		s.shutW = true
	case 9:
		if err := s.rcv.Shutdown(tcpip.ShutdownRead | tcpip.ShutdownWrite); err != nil {
			return bad("shutdown-failed", "%v", err)
		}
		s.shut, s.shutW = true, true
	case 10:
		// connecting the bound socket narrows what it accepts from now on; what is queued stays,
		// and a read side that was shut down stays shut
		if err := s.rcv.Connect(tcpip.FullAddress{Addr: addrA4, Port: 6001}); err != nil {
			return bad("connect-failed", "%v", err)
		}
		s.conn = true
	case 6:
		s.rcv.Close()
		s.closed = true
		s.conn = false
		s.queue, s.maybe, s.bytesQ = nil, nil, 0
		s.rcv = s.c.b.NewSock(udp.ProtocolNumber, ipv4.ProtocolNumber).EP // fresh unbound socket: reads must find nothing
	}
	return nil
}

func (s *c11Seq) Key() string { return "" }

func (s *c11Seq) Close() {
	for _, ep := range []tcpip.Endpoint{s.s1, s.s2, s.rcv} {
		if ep != nil {
			ep.Close()
		}
	}
	s.c.close()
}

func c11SeqCfg(tier string, i, n int, deadline time.Time) engine.SeqCfg {
	d := 5
	if tier == "thorough" {
		d = 6
	}
	return engine.SeqCfg{Alphabet: c11SeqAlphabet(), New: c11NewSeq, FullDepth: d, DedupDepth: d, Deadline: deadline, ShardI: i, ShardN: n}
}

// ---------- raw datagrams with inconsistent length fields ----------

func c11Raw() []c11Fail {
	var fails []c11Fail
	r := NewRaw(false, 1500)
	ScriptRand(1, 2)
	rcv := r.n.NewSock(udp.ProtocolNumber, ipv4.ProtocolNumber).EP
	must(rcv.Bind(tcpip.FullAddress{Port: c11RecvPort}, nil))
	defer func() {
		rcv.Close()
		r.n.S.RemoveAddress(1, addrA4)
		r.n.S.RemoveAddress(1, addrA6)
		r.w.Settle()
	}()
	for _, n := range []int{0, 1, 7, 100} {
		for _, extra := range []int{0, 1, 2, 4, 8, 12, 17} {
			// trailing octets: garbage, or zeros (sender padding: the checksum over datagram +
			// padding equals the datagram's), and the same without a UDP checksum
			for _, variant := range []string{"garbage", "zeros", "garbage-nochecksum"} {
				if extra == 0 && variant != "garbage" {
					continue
				}
				data := c11Data(byte(n+extra), n)
				u := ref.BuildUDP(7777, c11RecvPort, data, r.pAddr, r.sAddr)
				if variant == "garbage-nochecksum" {
					u[6], u[7] = 0, 0
				}
				// IP payload longer than the UDP length field: trailing octets are not part of the datagram
				fill := byte(0xEE)
				if variant == "zeros" {
					fill = 0
				}
				u = append(u, bytes.Repeat([]byte{fill}, extra)...)
				r.InjectIP(ref.ProtoUDP, u)
				v, _, err := rcv.Read(nil)
				if err != nil {
					if extra == 0 {
						fails = append(fails, c11Fail{"raw-not-delivered", fmt.Sprintf("well-formed datagram of %d bytes from the raw peer: Read returned %v", n, err)})
					}
					continue // dropping an inconsistent packet whole is fine
				}
				if !bytes.Equal(v, data) {
					fails = append(fails, c11Fail{"trailing-bytes-delivered", fmt.Sprintf("UDP datagram with length field %d inside an IP payload of %d bytes (%s): Read returned %d bytes (%d octets beyond the datagram were handed to the application)", 8+n, 8+n+extra, variant, len(v), len(v)-n)})
				}
			}
		}
	}
	// a datagram that lost its last octets on the way (the UDP length field says more than the
	// IP payload carries): never delivered, whether it has no checksum or the lost octets were
	// zeros (which the checksum cannot see)
	for _, n := range []int{10, 24, 100} {
		for _, lost := range []int{1, 4, 8, 9} {
			for _, variant := range []string{"nochecksum", "zero-tail"} {
				data := c11Data(byte(n+lost), n)
				if variant == "zero-tail" {
					for i := n - lost; i < n; i++ {
						data[i] = 0
					}
				}
				u := ref.BuildUDP(7779, c11RecvPort, data, r.pAddr, r.sAddr)
				if variant == "nochecksum" {
					u[6], u[7] = 0, 0
				}
				r.InjectIP(ref.ProtoUDP, u[:len(u)-lost])
				if v, _, err := rcv.Read(nil); err == nil {
					fails = append(fails, c11Fail{"truncated-datagram-delivered", fmt.Sprintf("a datagram of %d payload bytes that lost its last %d octets in transit (UDP length field %d, IP payload %d, %s): Read returned %d bytes - not a datagram that was sent", n, lost, 8+n, 8+n-lost, variant, len(v))})
				}
			}
		}
	}
	// a datagram damaged on the way (one payload bit flipped, checksum field as sent and not
	// zero) is not "a datagram that was sent to it": it must not be returned
	for _, n := range []int{1, 8, 1472} {
		for bit := 0; bit < 2; bit++ {
			data := c11Data(byte(3*n), n)
			u := ref.BuildUDP(7778, c11RecvPort, data, r.pAddr, r.sAddr)
			if u[6] == 0 && u[7] == 0 {
				continue // "no checksum" datagrams cannot be verified
			}
			pos := 8
			if bit == 1 {
				pos = len(u) - 1
			}
			u[pos] ^= 0x10
			r.InjectIP(ref.ProtoUDP, u)
			if v, _, err := rcv.Read(nil); err == nil {
				fails = append(fails, c11Fail{"corrupted-datagram-delivered", fmt.Sprintf("datagram of %d bytes with payload byte %d damaged in transit (UDP checksum %02x%02x no longer matches): Read returned it (%d bytes)", n, pos-8, u[6], u[7], len(v))})
			}
		}
	}
	return fails
}

// ---------- concurrent readers vs delivery (coop) ----------

var c11Progs = map[string][3]int{ // datagrams delivered, reads by reader 1, reads by reader 2
	"d2-r1-r1": {2, 1, 1},
	"d3-r2-r1": {3, 2, 1},
	"d2-r2-r2": {2, 2, 2},
	"d3-r2-r2": {3, 2, 2},
}

func c11Harness(p [3]int) engine.Harness {
	return func() (func(), func(*vsched.Sched) (*engine.Violation, uint64)) {
		vtime.EnableVirtual()
		r := NewRaw(false, 1500)
		rcv := r.n.NewSock(udp.ProtocolNumber, ipv4.ProtocolNumber).EP
		must(rcv.Bind(tcpip.FullAddress{Port: c11RecvPort}, nil))
		var pkts [][]byte
		var datas [][]byte
		for i := 0; i < p[0]; i++ {
			d := c11Data(byte(40+i), 20+i)
			datas = append(datas, d)
			pkts = append(pkts, ref.BuildIPv4(r.pAddr, r.sAddr, ref.ProtoUDP, uint16(i+1), 0, 0, 64, ref.BuildUDP(uint16(7000+i), c11RecvPort, d, r.pAddr, r.sAddr)))
		}
		got := [2][][]byte{}
		port := r.n.Ports[1]
		body := func() {
			var ts []*vsched.Thread
			ts = append(ts, vsched.Go(func() {
				for _, pk := range pkts {
					vsched.Point()
					port.disp.DeliverNetworkPacket(port, "", "", ipv4.ProtocolNumber, chunked(pk))
				}
			}))
			for rd := 0; rd < 2; rd++ {
				rd := rd
				ts = append(ts, vsched.Go(func() {
					for k := 0; k < p[1+rd]; k++ {
						vsched.Point()
						v, _, err := rcv.Read(nil)
						if err == nil {
							got[rd] = append(got[rd], append([]byte(nil), v...))
						}
					}
				}))
			}
			vsched.Join(ts...)
			// drain what is left
			for {
				v, _, err := rcv.Read(nil)
				if err != nil {
					break
				}
				got[0] = append(got[0], append([]byte{0xFE}, v...)) // marker: read after the race
			}
		}
		check := func(s *vsched.Sched) (*engine.Violation, uint64) {
			defer func() {
				rcv.Close()
				r.n.S.RemoveAddress(1, addrA4)
				r.n.S.RemoveAddress(1, addrA6)
			}()
			out := engine.Hash(s.Outcome, len(got[0]), len(got[1]))
			if s.Outcome != vsched.OK {
				return &engine.Violation{Property: "C11", Kind: s.Outcome.String(), Key: "coop-" + s.Outcome.String(), Detail: s.Detail}, out
			}
			seen := map[int]int{}
			total := 0
			for rd := 0; rd < 2; rd++ {
				last := -1
				for _, v := range got[rd] {
					after := false
					if len(v) > 0 && v[0] == 0xFE && rd == 0 {
						v, after = v[1:], true
					}
					idx := -1
					for i, d := range datas {
						if bytes.Equal(d, v) {
							idx = i
						}
					}
					if idx < 0 {
						return &engine.Violation{Property: "C11", Kind: "udp-race", Key: "coop-corrupt", Detail: fmt.Sprintf("a reader got %d bytes that are no datagram that was delivered", len(v))}, out
					}
					seen[idx]++
					total++
					if !after {
						if idx < last {
							return &engine.Violation{Property: "C11", Kind: "udp-race", Key: "coop-order", Detail: fmt.Sprintf("reader %d got datagram %d after datagram %d (arrival order violated)", rd, idx, last)}, out
						}
						last = idx
					}
				}
			}
			for i, n := range seen {
				if n > 1 {
					return &engine.Violation{Property: "C11", Kind: "udp-race", Key: "coop-duplicate", Detail: fmt.Sprintf("datagram %d was returned %d times", i, n)}, out
				}
			}
			if total != len(datas) {
				return &engine.Violation{Property: "C11", Kind: "udp-race", Key: "coop-lost", Detail: fmt.Sprintf("%d datagrams were delivered into an empty, large buffer but only %d were ever returned", len(datas), total)}, out
			}
			return nil, out
		}
		return body, check
	}
}

// ---------- jobs ----------

func c11Kinds() []c11Kind {
	var ks []c11Kind
	for _, fam := range []string{"4", "6", "m"} {
		for _, s := range []string{"any", "spec", "conn", "unbound"} {
			for _, r := range []string{"any", "spec", "conn"} {
				if fam == "m" && r == "conn" {
					continue
				}
				ks = append(ks, c11Kind{fam, s, r})
			}
		}
	}
	return ks
}

func c11Jobs(tier string) []string {
	var jobs []string
	for _, fam := range []string{"4", "6", "m"} {
		for i := 0; i < 8; i++ {
			jobs = append(jobs, fmt.Sprintf("len:%s:%d/8", fam, i))
		}
	}
	jobs = append(jobs, "big", "raw", "kinds", "filter", "loopback")
	for i := 0; i < 8; i++ {
		jobs = append(jobs, fmt.Sprintf("seq:%d/8", i))
	}
	for name := range c11Progs {
		jobs = append(jobs, "coop:"+name)
	}
	return jobs
}

func c11Run(job, tier string, deadline time.Time) *engine.Result {
	r := &engine.Result{Exhaustive: true}
	parts := strings.Split(job, ":")
	report := func(f *c11Fail, replay interface{}) {
		if f != nil && f.key != "skip" && len(r.Violations) < 6 {
			r.Violations = append(r.Violations, engine.Violation{Property: "C11", Kind: "udp", Key: f.key, Detail: f.msg, Job: job, Replay: engine.MustJSON(replay)})
		}
	}
	defer func() {
		r.Recycle = runtime.NumGoroutine() > 100
		if r.States == 0 {
			r.States = r.Execs + 1
		}
		r.Outcomes = append(r.Outcomes, engine.Hash(job, len(r.Violations)))
	}()
	switch parts[0] {
	case "len", "kinds":
		fam := ""
		var i, n int
		lens := []int{0, 1, 2, 7, 8, 9, 511, 512, 1471, 1472}
		if parts[0] == "len" {
			fam = parts[1]
			fmt.Sscanf(parts[2], "%d/%d", &i, &n)
			lens = nil
			for l := i; l <= 1472; l += n {
				lens = append(lens, l)
			}
		}
		for _, k := range c11Kinds() {
			if fam != "" && k.Fam != fam {
				continue
			}
			if parts[0] == "len" && !(k.Send == "conn" && k.Recv == "any") && !(k.Send == "any" && k.Recv == "spec") {
				continue // the full length sweep runs on two kinds per family; "kinds" covers the product
			}
			c := c11NewWorld()
			snd, rcv, to, src, f := c.sockets(k)
			if f != nil {
				report(f, map[string]interface{}{"job": job, "kind": k})
				c.close()
				continue
			}
			for _, l := range lens {
				var ff *c11Fail
				func() {
					defer func() {
						if e := recover(); e != nil {
							ff = &c11Fail{"panic", fmt.Sprintf("panic: %v", e)}
						}
					}()
					ff = c.transfer(snd, rcv, to, src, l, k.Fam == "6")
				}()
				r.Execs++
				r.Transitions += 2
				r.Nontrivial++
				if ff != nil {
					ff.msg = fmt.Sprintf("[family %s sender %s receiver %s] ", k.Fam, k.Send, k.Recv) + ff.msg
					report(ff, map[string]interface{}{"job": job, "kind": k, "len": l})
					break
				}
			}
			snd.Close()
			rcv.Close()
			c.close()
		}
		r.Sample(map[string]interface{}{"job": job, "lengths": len(lens), "kinds": "family x sender kind x receiver kind"})
	case "big":
		for _, fam := range []string{"4", "6"} {
			for _, l := range []int{1473, 2000, 65507, 65508, 65527, 65528, 65535, 65536} {
				c := c11NewWorld()
				k := c11Kind{fam, "conn", "any"}
				snd, rcv, to, src, f := c.sockets(k)
				if f == nil {
					f = c.transfer(snd, rcv, to, src, l, fam == "6")
				}
				r.Execs++
				r.Transitions += 2
				r.Nontrivial++
				if f != nil {
					if strings.HasPrefix(f.key, "malformed-frame") || f.key == "emitted-payload" || f.key == "not-one-packet" {
						if l > 65507 {
							f.key = "oversize-wrapped-length" // D12
						}
					}
					f.msg = fmt.Sprintf("[family %s] ", fam) + f.msg
					report(f, map[string]interface{}{"job": job, "kind": k, "len": l})
				}
				c.close()
			}
		}
		r.Sample(map[string]interface{}{"big_lengths": []int{1473, 2000, 65507, 65508, 65527, 65528, 65535, 65536}})
	case "raw":
		for _, f := range c11Raw() {
			f := f
			report(&f, map[string]interface{}{"job": job})
		}
		r.Execs, r.Transitions, r.Nontrivial = 76, 76, 76
		r.Sample(map[string]interface{}{"raw": "UDP length field vs IP payload length: payload {0,1,7,100} x trailing octets {0,1,2,4,8,12,17} x {garbage, zero padding, garbage without UDP checksum}"})
	case "loopback":
		for _, fam := range []string{"4", "6", "m"} {
			for _, l := range []int{0, 1, 7, 8, 1000, 1472, 9000, 60000} {
				r.Execs++
				r.Transitions += 2
				r.Nontrivial++
				report(c11Loopback(fam, l), map[string]interface{}{"job": job, "loopfam": fam, "len": l})
			}
		}
		r.Sample(map[string]interface{}{"loopback": "two sockets of one stack over the repository's loopback link (checksum offload), families 4/6/v4-mapped x 8 lengths"})
	case "filter":
		skipped := 0
		for i := range c11Setups() {
			n, f := c11Filter(i)
			r.Execs++
			r.Transitions += int64(n)
			if f != nil && f.key == "skip" {
				skipped++
				r.Sample(map[string]interface{}{"filter_setup_not_supported": f.msg})
				continue
			}
			r.Nontrivial++
			report(f, map[string]interface{}{"job": job, "filter": i})
		}
		r.AddExtra("filter_setups", int64(len(c11Setups())))
		r.AddExtra("filter_setups_not_supported", int64(skipped))
		r.Sample(map[string]interface{}{"filter": "13 ways of binding/connecting a UDP socket x 7 senders (peer, other port, other address, other family) x 2 rounds, then Close and rebind"})
	case "seq":
		var i, n int
		fmt.Sscanf(parts[1], "%d/%d", &i, &n)
		cfg := c11SeqCfg(tier, i, n, deadline)
		st := engine.ExploreSeq(job, cfg)
		st.Into(r)
		r.States = st.Sequences + 1
	case "coop":
		st := engine.Explore(job, c11Harness(c11Progs[parts[1]]), engine.CoopCfg{Bound: 2, Deadline: deadline})
		st.Into(r)
		r.Bound = "preemptions<=2"
	}
	return r
}

func c11Replay(rp json.RawMessage) *engine.Violation {
	var sr engine.SeqReplay
	if json.Unmarshal(rp, &sr) == nil && strings.HasPrefix(sr.Job, "seq:") {
		return engine.ReplaySeq(c11SeqCfg("quick", 0, 1, time.Time{}), sr.Ops)
	}
	var cr engine.CoopReplay
	if json.Unmarshal(rp, &cr) == nil && strings.HasPrefix(cr.Job, "coop:") {
		return engine.ReplayCoop(c11Harness(c11Progs[cr.Job[5:]]), cr.Choices)
	}
	var fl struct {
		Job    string
		Filter *int
	}
	if json.Unmarshal(rp, &fl) == nil && fl.Job == "filter" && fl.Filter != nil {
		if _, f := c11Filter(*fl.Filter); f != nil && f.key != "skip" {
			return &engine.Violation{Property: "C11", Kind: "udp", Key: f.key, Detail: f.msg}
		}
		return nil
	}
	var lp struct {
		Job     string
		Loopfam string
		Len     int
	}
	if json.Unmarshal(rp, &lp) == nil && lp.Job == "loopback" {
		if f := c11Loopback(lp.Loopfam, lp.Len); f != nil {
			return &engine.Violation{Property: "C11", Kind: "udp", Key: f.key, Detail: f.msg}
		}
		return nil
	}
	var p struct {
		Job  string
		Kind c11Kind
		Len  int
	}
	if json.Unmarshal(rp, &p) != nil {
		return nil
	}
	if p.Job == "raw" {
		if f := c11Raw(); len(f) > 0 {
			return &engine.Violation{Property: "C11", Kind: "udp", Key: f[0].key, Detail: f[0].msg}
		}
		return nil
	}
	c := c11NewWorld()
	defer c.close()
	snd, rcv, to, src, f := c.sockets(p.Kind)
	if f == nil {
		f = c.transfer(snd, rcv, to, src, p.Len, p.Kind.Fam == "6")
	}
	if f == nil || f.key == "skip" {
		return nil
	}
	return &engine.Violation{Property: "C11", Kind: "udp", Key: f.key, Detail: f.msg}
}
