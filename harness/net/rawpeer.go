package main

import (
	"bytes"
	"fmt"
	"runtime"
	"sort"
	"strconv"
	"strings"
	"time"

	tcpip "github.com/brewlin/net-protocol/protocol"
	"github.com/brewlin/net-protocol/protocol/network/ipv4"
	"github.com/brewlin/net-protocol/protocol/network/ipv6"
	"github.com/brewlin/net-protocol/protocol/transport/tcp"

	"verif/engine"
	"verif/ref"
	"verif/shim/vtime"
)

// ---------------------------------------------------------------------------------
// One real stack S against a scripted raw peer P built only on the independent codec.
// The peer keeps the tiny reference state it needs (its own sequence numbers, what it has
// received at which sequence position, what it has advertised).
// ---------------------------------------------------------------------------------

type Raw struct {
	w      *World
	n      *Node
	v6     bool
	sAddr  []byte
	pAddr  []byte
	mon    *Monitor
	seen   int // frames of w.All already decoded
	ipID   uint16
	MonErr error
	Local  []tcpip.Address // addresses of the stack (frame monitor: legal source addresses)
}

func NewRaw(v6 bool, mtu int) *Raw {
	w := NewWorld()
	r := &Raw{w: w, v6: v6, mon: NewMonitor(), Local: []tcpip.Address{addrA4, addrA6}}
	r.n = w.AddNode(NodeCfg{Name: "S", V4: []tcpip.Address{addrA4}, V6: []tcpip.Address{addrA6}, MTU: uint32(mtu)})
	if v6 {
		r.sAddr, r.pAddr = []byte(addrA6), []byte(addrB6)
	} else {
		r.sAddr, r.pAddr = []byte(addrA4), []byte(addrB4)
	}
	return r
}

func (r *Raw) netProto() tcpip.NetworkProtocolNumber {
	if r.v6 {
		return ipv6.ProtocolNumber
	}
	return ipv4.ProtocolNumber
}

// InjectIP wraps a transport payload into an IP packet from the peer and injects it.
func (r *Raw) InjectIP(proto uint8, payload []byte) {
	var pkt []byte
	if r.v6 {
		pkt = ref.BuildIPv6(r.pAddr, r.sAddr, proto, 64, payload)
	} else {
		r.ipID++
		pkt = ref.BuildIPv4(r.pAddr, r.sAddr, proto, r.ipID, 0, 0, 64, payload)
	}
	r.w.Inject(r.n, 1, r.netProto(), pkt, "", "")
}

// InjectBatch delivers several IP payloads of one protocol before the connection's protocol
// goroutine runs (they end up in one handleSegments batch).
func (r *Raw) InjectBatch(ep tcpip.Endpoint, proto uint8, payloads ...[]byte) {
	release := tcp.VerifHoldWork(ep)
	p := r.n.Ports[1]
	for _, payload := range payloads {
		var pkt []byte
		if r.v6 {
			pkt = ref.BuildIPv6(r.pAddr, r.sAddr, proto, 64, payload)
		} else {
			r.ipID++
			pkt = ref.BuildIPv4(r.pAddr, r.sAddr, proto, r.ipID, 0, 0, 64, payload)
		}
		p.disp.DeliverNetworkPacket(p, "", "", r.netProto(), chunked(pkt))
	}
	release()
	r.w.Settle()
}

// SendTCP injects one TCP segment from the peer.
func (r *Raw) SendTCP(sport, dport uint16, seq, ack uint32, flags uint8, wnd uint16, opts, payload []byte) {
	r.InjectIP(ref.ProtoTCP, ref.BuildTCP(sport, dport, seq, ack, flags, wnd, opts, payload, r.pAddr, r.sAddr))
}

// Collect decodes (and removes from the wire) every frame the stack emitted since the
// last call; each goes through the frame monitor.
func (r *Raw) Collect() []*Decoded {
	var out []*Decoded
	for _, f := range r.w.InFlight() {
		r.w.Take(f)
		d, err := r.mon.Check(f, r.Local)
		if err != nil && r.MonErr == nil {
			r.MonErr = fmt.Errorf("frame #%d: %v (bytes %x)", f.Seq, err, f.Data)
		}
		out = append(out, d)
	}
	return out
}

// ---------- the data-transfer scenario against the raw peer ----------

type RawCfg struct {
	V6            bool
	MTU           int
	Active        bool // stack connects (else the peer does)
	PeerMSS       int  // -1 = no MSS option
	PeerWS        int  // -1 = no window-scale option
	PeerTS        bool
	PeerSACK      bool
	PeerISS       uint32
	StackISS      uint32
	PeerWnd       int   // initial window advertised by the peer (unscaled field value)
	Writes        []int // application writes on the stack
	PeerData      []int // segments the peer sends (sizes)
	Read          string
	Devs          string // k ack placement, w window menu, h withhold ack, l lose segment (peer pretends it never arrived), o peer data reorder/overlap/dup, t early timer, a app-first, z zero window then reopen
	Budget        int
	Oracles       string // s stream+wire consistency (C01), w window/MSS (C04), r recovery/cwnd (C05), m monitor (C06)
	Cubic         bool
	SACK          bool // stack-side SACK enabled
	RcvBuf        int
	SndBuf        int    // send buffer of the stack endpoint (0 = default)
	WriteGapMs    int    // the application lets this many virtual ms pass between two writes (0 = writes back to back)
	SilentAfter   int    // with Silent: the peer answers this many ACKs normally (the stack gets RTT samples), then goes silent
	WndFloor      bool   // with window scaling the peer truncates its window field (edge retreats by < 2^shift)
	PeerFixedEdge bool   // the peer's application never reads: its window shrinks as data arrives (fixed right edge at ISS+1+PeerWnd)
	RTTms         int    // peer answers this many virtual ms after receiving (0 = immediately)
	Silent        int    // peer stays silent for this many timeouts at the start of the data phase
	Close         string // none | shut (stack shuts down its write side after writing)
	TrickleMs     int    // see TrickleN
	TrickleN      int    // > 0: the peer acknowledges the first TrickleN data segments TrickleMs apart and then goes silent
	PTBDelayMs    int    // the ICMP message arrives this long after the segment was sent (default: like an ACK, RTTms)
	PTB           int    // if >0: an ICMP "fragmentation needed" with this next-hop MTU is offered as a deviation (letter p)
}

func ParseRawCfg(s string) RawCfg {
	c := RawCfg{MTU: 1500, Active: true, PeerMSS: 1460, PeerWS: -1, PeerISS: 7000, StackISS: 1000, PeerWnd: 65535, Read: "eager", Devs: "kwhl", Budget: 1, Oracles: "s", Close: "none"}
	for _, kv := range strings.Split(s, ",") {
		p := strings.SplitN(kv, "=", 2)
		if len(p) != 2 {
			continue
		}
		k, v := p[0], p[1]
		atoi := func() int { n, _ := strconv.Atoi(v); return n }
		switch k {
		case "v6":
			c.V6 = v == "1"
		case "mtu":
			c.MTU = atoi()
		case "active":
			c.Active = v == "1"
		case "mss":
			c.PeerMSS = atoi()
		case "ws":
			c.PeerWS = atoi()
		case "ts":
			c.PeerTS = v == "1"
		case "psack":
			c.PeerSACK = v == "1"
		case "sack":
			c.SACK = v == "1"
		case "piss":
			n, _ := strconv.ParseUint(v, 10, 32)
			c.PeerISS = uint32(n)
		case "iss":
			n, _ := strconv.ParseUint(v, 10, 32)
			c.StackISS = uint32(n)
		case "pwnd":
			c.PeerWnd = atoi()
		case "w":
			c.Writes = parseInts(v)
		case "pd":
			c.PeerData = parseInts(v)
		case "read":
			c.Read = v
		case "devs":
			c.Devs = v
		case "b":
			c.Budget = atoi()
		case "or":
			c.Oracles = v
		case "cc":
			c.Cubic = v == "cubic"
		case "rcvbuf":
			c.RcvBuf = atoi()
		case "sndbuf":
			c.SndBuf = atoi()
		case "wgap":
			c.WriteGapMs = atoi()
		case "pfix":
			c.PeerFixedEdge = atoi() != 0
		case "wfloor":
			c.WndFloor = atoi() != 0
		case "silentafter":
			c.SilentAfter = atoi()
		case "rtt":
			c.RTTms = atoi()
		case "silent":
			c.Silent = atoi()
		case "close":
			c.Close = v
		case "ptb":
			c.PTB = atoi()
		case "ptbd":
			c.PTBDelayMs = atoi()
		case "trickle": // <ms>x<n>
			fmt.Sscanf(v, "%dx%d", &c.TrickleMs, &c.TrickleN)
		}
	}
	return c
}

const (
	stackPort = 4321
	peerPort  = 9999
)

type sentSeg struct {
	seq          uint32
	n            int
	at           time.Duration
	flags        uint8
	rtx          bool // the stack had sent this sequence range before
	ackTriggered bool // emitted while an ACK (not a timer) was being processed
}

type rawRun struct {
	cfg   RawCfg
	r     *Raw
	ch    *engine.Chooser
	viol  *engine.Violation
	trace []string
	ep    tcpip.Endpoint
	lst   tcpip.Endpoint

	// handshake results
	established bool
	sIss        uint32 // stack's ISS as seen on the wire
	sPort       uint16
	sMSS        int // MSS the stack announced
	sWS         int // window scale the stack announced (-1 none)
	tsOK        bool
	sackOK      bool
	wsOK        bool
	lastTSVal   uint32 // last TSval received from the stack
	pTS         uint32

	// peer send side
	pSndNxt uint32
	pData   []byte   // full peer->stack stream
	pSegs   [][2]int // [off,len] segments still to send
	pAcked  uint32   // highest ack received from the stack (absolute)
	got     []byte   // bytes the stack's application has read
	eof     bool
	readErr string

	// peer receive side (reference receiver)
	wrote    []byte // bytes accepted by the stack's Write
	chunks   [][]byte
	rcvNxt   uint32 // absolute sequence number
	ooo      map[uint32][]byte
	wireByte map[uint32]byte // sequence position -> byte seen on the wire
	recon    []byte          // reconstructed in-order stream
	finSeen  bool

	// what the peer has told the stack (C04 send-side oracle)
	advAck  uint32 // highest ack sent
	advEdge uint32 // right edge = ack + (wnd << peerShift) of the most recent advertisement delivered
	haveAdv bool
	maxEdge uint32
	pmtu    int // path MTU told to the stack via ICMP (0 = none)
	ptbSent bool
	ptbAt   int // index into sent at which the ICMP was delivered

	// what the stack has told the peer (C04 receive-side oracle)
	sEdge     uint32
	haveSEdge bool
	sAckMax   uint32

	// C05 bookkeeping
	sent                   []sentSeg
	dataSentBeforeFirstAck int
	firstAckDelivered      bool
	acksDelivered          int // ACKs delivered that acknowledged new data (segments acked counted separately)
	segsAcked              int
	dupAcksDelivered       int
	ackLog                 [][2]uint32 // every ACK the peer has sent (ack number, window field)
	lastWriteAt            time.Duration
	wroteOnce              bool
	recover, maxSentEnd    uint32 // RFC 6582 recover point; end of the highest data transmitted
	recoverExit            uint32 // the same, moved up once more when a recovery episode ends (what this stack does)
	episode                bool   // a fast-recovery episode is in progress
	haveRecover            bool
	haveMaxSent            bool
	inDupAckStep           bool
	timeoutsFired          int
	earlyTimer             bool
	lostOnce               map[uint32]bool
	shut                   bool
	states                 []uint64
	pending                []pendingAck // delayed peer answers (RTT menu)
	silentLeft             int
	wentSilent             bool
	noClamp, tookBack      bool // the next ACK may move the peer's right edge left; one such ACK was sent
	dupForUna              map[uint32]int // duplicate ACKs delivered per sndUna value
	lastRTOat              time.Duration
	eEdge                  uint32 // highest right edge over all emitted segments
	haveEEdge              bool
	emitSeen               int // frames of w.All already passed to onEmit
	frDone                 bool
	probed                 bool
	sendingProbe           bool
	straddled              bool
	trickled               int
	trickleDue             time.Duration
	pRecv                  [][2]uint32 // absolute ranges of conforming peer data injected so far
	pLast                  [2]uint32   // the most recent of them (zero length: none / not attributable)
	peerRtx                int
	probeInsideInternal    bool
	straddleSlack          int
	shrunk                 bool
	pSentMax               uint32 // highest sequence number (exclusive) a conforming send has covered
	inTimerStep            bool
	silentEmits            int
	rtxTimes               []time.Duration
	drain                  bool // stall mode: the application has started reading
	maxUnread              int
	hiRtx                  uint32 // highest sequence sent before the last timeout/recovery (RFC 6582 "recover")
	haveHiRtx              bool
	caps                   []string
}

type pendingAck struct { // (fields drain/maxUnread live in rawRun)
	due  time.Duration
	send func()
	name string
}

func (x *rawRun) fail(prop, kind, key, f string, a ...interface{}) {
	if x.viol == nil {
		x.viol = &engine.Violation{Property: prop, Kind: kind, Key: key, Detail: fmt.Sprintf(f, a...)}
	}
}
func (x *rawRun) has(o byte) bool { return strings.IndexByte(x.cfg.Oracles, o) >= 0 }
func (x *rawRun) dev(o byte) bool { return strings.IndexByte(x.cfg.Devs, o) >= 0 }

func (x *rawRun) peerShift() uint {
	if x.wsOK && x.cfg.PeerWS >= 0 {
		s := x.cfg.PeerWS
		if s > 14 {
			s = 14
		}
		return uint(s)
	}
	return 0
}

func (x *rawRun) stackShift() uint {
	if x.wsOK && x.sWS >= 0 {
		return uint(x.sWS)
	}
	return 0
}

func (x *rawRun) synOpts() []byte {
	var parts [][]byte
	c := x.cfg
	if c.PeerMSS >= 0 {
		parts = append(parts, ref.OptMSS(uint16(c.PeerMSS)))
	}
	if c.PeerWS >= 0 {
		parts = append(parts, ref.OptWS(uint8(c.PeerWS)))
	}
	if c.PeerTS {
		x.pTS += 10
		parts = append(parts, ref.OptTS(x.pTS, x.lastTSVal))
	}
	if c.PeerSACK {
		parts = append(parts, ref.OptSACKPerm())
	}
	return ref.PadOpts(parts...)
}

func (x *rawRun) segOpts(sack []ref.SACKBlock) []byte {
	var parts [][]byte
	if x.tsOK {
		x.pTS += 10
		parts = append(parts, []byte{1, 1}, ref.OptTS(x.pTS, x.lastTSVal))
	}
	if len(sack) > 0 && x.sackOK {
		parts = append(parts, []byte{1, 1}, ref.OptSACK(sack...))
	}
	return ref.PadOpts(parts...)
}

// sendAck sends a pure ACK from the peer with the given ack number and window field.
func (x *rawRun) sendAck(ack uint32, wnd int, sack []ref.SACKBlock) {
	if wnd > 65535 {
		wnd = 65535
	}
	// an RFC-conforming peer never moves its right edge left
	edge := ack + uint32(wnd)<<x.peerShift()
	if x.haveAdv && ref.SeqLT(edge, x.maxEdge) && !x.noClamp {
		need := (x.maxEdge - ack + (1 << x.peerShift()) - 1) >> x.peerShift()
		if x.cfg.WndFloor {
			// a peer that truncates like most stacks do: field = free >> shift, so its edge
			// retreats by less than one scale unit (RFC 7323 2.4 tolerates that)
			need = (x.maxEdge - ack) >> x.peerShift()
		}
		if need > 65535 {
			need = 65535
		}
		wnd = int(need)
		edge = ack + uint32(wnd)<<x.peerShift()
	}
	x.ackLog = append(x.ackLog, [2]uint32{ack, uint32(wnd)})
	isDup := x.haveAdv && ack == x.advAck
	if x.episode && x.haveRecover && ref.SeqLT(x.recover, ack) {
		// this ACK covers the recover point: the episode ends; the stack moves its marker to
		// the highest sequence sent so far (data sent during the recovery is not given a fast
		// retransmit of its own) - stricter than RFC 6582, see the known finding below
		x.episode = false
		if x.haveMaxSent && ref.SeqLT(x.recoverExit, x.maxSentEnd-1) {
			x.recoverExit = x.maxSentEnd - 1
		}
	}
	x.r.SendTCP(peerPort, x.sPort, x.pSndNxt, ack, ref.ACK, uint16(wnd), x.segOpts(sack), nil)
	x.firstAckDelivered = true // any ACK of the data phase, duplicate or not, ends the initial-window phase
	if !x.haveAdv || ref.SeqLT(x.maxEdge, edge) {
		x.maxEdge = edge
	}
	if ref.SeqLT(x.advAck, ack) || !x.haveAdv {
		if x.haveAdv {
			// count whole segments newly acknowledged
			for _, s := range x.sent {
				end := s.seq + uint32(s.n)
				if !s.rtx && s.n > 0 && ref.SeqLT(x.advAck, end) && ref.SeqLEQ(end, ack) {
					x.segsAcked++
				}
			}
		}
		x.advAck = ack
		x.firstAckDelivered = true
		x.acksDelivered++
	} else if isDup {
		x.dupAcksDelivered++
		x.dupForUna[ack]++
	}
	x.advEdge = edge
	x.haveAdv = true
	// C05 (1): the third duplicate ACK must be answered, in the same step, by a
	// retransmission of the earliest unacknowledged segment, unless it acknowledges nothing
	// beyond the RFC 6582 recover point (no second fast retransmit inside one episode, none
	// for data that was in flight when a timeout happened); for data sent after that point
	// it is demanded again.
	before := len(x.sent)
	// RFC 6582 3.2 step 2: the cumulative ACK must cover more than recover (ack-1 > recover)
	third := isDup && x.dupForUna[ack] == 3
	demand := third && (!x.haveRecover || ref.SeqLT(x.recoverExit, ack-1))
	demandRFC := third && !demand && ref.SeqLT(x.recover, ack-1)
	x.inDupAckStep = isDup && x.dupForUna[ack] >= 3
	x.scanEmitted()
	x.inDupAckStep = false
	if (demand || demandRFC) && x.has('r') {
		outstanding := false
		for _, sg := range x.sent[:before] {
			if sg.seq == ack && sg.n > 0 {
				outstanding = true
			}
		}
		if outstanding {
			x.frDone = true
			found := false
			for _, sg := range x.sent[before:] {
				if sg.seq == ack && sg.n > 0 {
					found = true
				}
			}
			if !found && demand {
				x.fail("C05", "no-fast-retransmit", "no-fast-retransmit", "three duplicate ACKs for seq+%d were delivered but the segment was not retransmitted at once (segments emitted in that step: %d)", ack-x.sIss, len(x.sent)-before)
			}
			if !found && demandRFC {
				x.fail("C05", "no-fast-retransmit", "no-fast-retransmit-after-recovery-exit", "three duplicate ACKs for seq+%d (first sent during the previous fast recovery, beyond its recover point seq+%d) were delivered but the segment was not retransmitted at once", ack-x.sIss, x.recover-x.sIss)
			}
		}
	}
}

func newRawRun(cfg RawCfg, prefix []int) *rawRun {
	x := &rawRun{cfg: cfg, ch: engine.NewChooser(prefix), ooo: map[uint32][]byte{}, wireByte: map[uint32]byte{}, lostOnce: map[uint32]bool{}, dupForUna: map[uint32]int{}, sWS: -1, pTS: 5000, silentLeft: cfg.Silent}
	if cfg.SilentAfter > 0 {
		x.silentLeft = 0
	}
	x.r = NewRaw(cfg.V6, cfg.MTU)
	// 4-byte random reads in order: endpoint ts offset, ISS (active) ...
	ScriptRand(0x01010101, cfg.StackISS, 0x02020202, cfg.StackISS)
	s := x.r.n.S
	if cfg.SACK {
		must(s.SetTransportProtocolOption(tcp.ProtocolNumber, tcp.SACKEnabled(true)))
	}
	if cfg.Cubic {
		must(s.SetTransportProtocolOption(tcp.ProtocolNumber, tcp.CongestionControlOption("cubic")))
	}
	if cfg.SndBuf > 0 {
		must(s.SetTransportProtocolOption(tcp.ProtocolNumber, tcp.SendBufferSizeOption{Min: 1, Default: cfg.SndBuf, Max: cfg.SndBuf * 4}))
	}
	if cfg.RcvBuf > 0 {
		must(s.SetTransportProtocolOption(tcp.ProtocolNumber, tcp.ReceiveBufferSizeOption{Min: 1, Default: cfg.RcvBuf, Max: cfg.RcvBuf * 4}))
	}
	off := 0
	for _, n := range cfg.Writes {
		x.chunks = append(x.chunks, pattern(0x20, n, off))
		off += n
	}
	off = 0
	for _, n := range cfg.PeerData {
		x.pData = append(x.pData, pattern(0xa0, n, off)...)
		x.pSegs = append(x.pSegs, [2]int{off, n})
		off += n
	}
	x.pSndNxt = cfg.PeerISS
	return x
}

// handshake brings the connection up (no exploration here; C03 explores handshakes).
func (x *rawRun) handshake() bool {
	cfg := x.cfg
	sk := x.r.n.NewSock(tcp.ProtocolNumber, x.r.netProto())
	if cfg.Active {
		x.ep = sk.EP
		must(sk.EP.Bind(tcpip.FullAddress{Port: stackPort}, nil))
		err := sk.EP.Connect(tcpip.FullAddress{Addr: tcpip.Address(x.r.pAddr), Port: peerPort})
		if err != tcpip.ErrConnectStarted {
			x.fail("C03", "connect", "connect-error", "Connect returned %v", err)
			return false
		}
		x.r.w.Settle()
		fr := x.r.Collect()
		if len(fr) != 1 || fr[0].TCP == nil || fr[0].TCP.Flags != ref.SYN {
			x.fail("C03", "handshake", "no-syn", "active open did not emit exactly one SYN (%d frames)", len(fr))
			return false
		}
		syn := fr[0].TCP
		x.noteSyn(syn)
		x.pSndNxt = cfg.PeerISS + 1
		x.rcvNxt = syn.Seq + 1
		x.r.SendTCP(peerPort, x.sPort, cfg.PeerISS, syn.Seq+1, ref.SYN|ref.ACK, uint16(cfg.PeerWnd), x.synOpts(), nil)
		x.noteAdv(syn.Seq+1, cfg.PeerWnd, true)
		for _, d := range x.r.Collect() {
			x.onStackFrame(d)
		}
		if x.dev('q') && x.ch.Choose(2, []int{0, 1}) == 1 {
			// our handshake ACK was lost: the peer repeats its SYN-ACK, whose window field - like
			// that of every SYN - is not scaled (RFC 7323 2.2)
			x.trace = append(x.trace, "peer retransmits its SYN-ACK")
			x.r.SendTCP(peerPort, x.sPort, cfg.PeerISS, syn.Seq+1, ref.SYN|ref.ACK, uint16(cfg.PeerWnd), x.synOpts(), nil)
			for _, d := range x.r.Collect() {
				x.onStackFrame(d)
			}
		}
	} else {
		x.lst = sk.EP
		must(sk.EP.Bind(tcpip.FullAddress{Port: stackPort}, nil))
		must(sk.EP.Listen(4))
		x.r.w.Settle()
		x.sPort = stackPort
		x.r.SendTCP(peerPort, stackPort, cfg.PeerISS, 0, ref.SYN, uint16(cfg.PeerWnd), x.synOpts(), nil)
		fr := x.r.Collect()
		if len(fr) != 1 || fr[0].TCP == nil || fr[0].TCP.Flags != ref.SYN|ref.ACK {
			x.fail("C03", "handshake", "no-synack", "listener did not answer the SYN with exactly one SYN-ACK (%d frames)", len(fr))
			return false
		}
		sa := fr[0].TCP
		x.noteSyn(sa)
		x.pSndNxt = cfg.PeerISS + 1
		x.rcvNxt = sa.Seq + 1
		x.sendAckRaw(sa.Seq+1, cfg.PeerWnd)
		x.noteAdv(sa.Seq+1, cfg.PeerWnd, false)
		ep, _, err := x.lst.Accept()
		if err != nil {
			x.fail("C03", "handshake", "no-accept", "Accept after a correct handshake returned %v", err)
			return false
		}
		x.ep = ep
	}
	x.established = true
	return true
}

func (x *rawRun) sendAckRaw(ack uint32, wnd int) {
	x.r.SendTCP(peerPort, x.sPort, x.pSndNxt, ack, ref.ACK, uint16(wnd), x.segOpts(nil), nil)
}

func (x *rawRun) noteAdv(ack uint32, wndField int, syn bool) {
	shift := x.peerShift()
	if syn {
		shift = 0 // the window field of a SYN segment is never scaled
	}
	x.advAck = ack
	x.advEdge = ack + uint32(wndField)<<shift
	x.maxEdge = x.advEdge
	x.haveAdv = true
}

func (x *rawRun) noteSyn(t *ref.TCP) {
	x.sIss = t.Seq
	x.sPort = t.SrcPort
	x.sMSS = 536
	if t.Opts.HasMSS {
		x.sMSS = int(t.Opts.MSS)
	}
	if t.Opts.HasWS {
		x.sWS = int(t.Opts.WS)
	}
	x.wsOK = t.Opts.HasWS && x.cfg.PeerWS >= 0
	x.tsOK = t.Opts.HasTS && x.cfg.PeerTS
	x.sackOK = t.Opts.SACKPerm && x.cfg.PeerSACK
	if t.Opts.HasTS {
		x.lastTSVal = t.Opts.TSVal
	}
}

// expected payload limit for a data segment (C04)
func (x *rawRun) mssLimit(optLen int) int {
	hdr := 20
	if x.cfg.V6 {
		hdr = 40
	}
	lim := x.cfg.MTU - hdr - 20 - optLen
	pm := 536
	if x.cfg.PeerMSS >= 0 {
		pm = x.cfg.PeerMSS
	}
	if pm == 0 {
		pm = 536
	}
	// the announced MSS counts payload + options
	if pm-optLen < lim {
		lim = pm - optLen
	}
	if lim < 1 {
		lim = 1 // options alone fill the announced MSS: one byte per segment is the least that makes progress
	}
	return lim
}

// onEmit runs the emission-time oracles on a segment the stack has just put on the wire
// (C01 wire consistency, C04 window/MSS/MTU, C05 timing and congestion bookkeeping).
func (x *rawRun) onEmit(d *Decoded) {
	if d == nil || d.TCP == nil {
		return
	}
	t := d.TCP
	if t.Opts.HasTS {
		x.lastTSVal = t.Opts.TSVal
	}
	if t.Flags&ref.RST != 0 {
		return
	}
	n := len(t.Payload)
	// --- C04 receive side: the stack's advertised right edge never moves left
	if t.Flags&ref.ACK != 0 && t.Flags&ref.SYN == 0 {
		edge := t.Ack + uint32(t.Window)<<x.stackShift()
		if x.haveEEdge && ref.SeqLT(edge, x.eEdge) && x.has('w') {
			retreat := x.eEdge - edge
			key := "own-edge-retreat"
			if x.stackShift() > 0 && retreat < 1<<x.stackShift() {
				key = "own-edge-retreat-below-scale-unit"
			}
			x.fail("C04", "advertised-edge-retreats", key, "the stack's advertised right edge moved left by %d: previous ack+wnd = %d, now ack %d + (wnd %d << %d) = %d", retreat, x.eEdge-x.sIssPeerBase(), t.Ack-x.sIssPeerBase(), t.Window, x.stackShift(), edge-x.sIssPeerBase())
		}
		if !x.haveEEdge || ref.SeqLT(x.eEdge, edge) {
			x.eEdge = edge
		}
		x.haveEEdge = true
		x.sackCheck(t)
		if x.probed && x.has('w') && x.pSentMax != 0 && ref.SeqLT(x.pSentMax, t.Ack) {
			key := "beyond-window-accepted"
			if x.probeInsideInternal {
				key = "beyond-window-accepted-below-scale-unit"
			}
			x.fail("C04", "beyond-window-accepted", key, "the stack acknowledges +%d although the only segment carrying those bytes lay wholly beyond the window it had advertised (conforming data ends at +%d)", t.Ack-x.cfg.PeerISS-1, x.pSentMax-x.cfg.PeerISS-1)
		}
	}
	if n == 0 && t.Flags&ref.FIN == 0 {
		return
	}
	seq := t.Seq
	// --- C01 wire consistency: every byte at sequence position p equals written byte p
	if x.has('s') {
		for i := 0; i < n; i++ {
			p := seq + uint32(i)
			off := p - x.sIss - 1
			if int(off) >= len(x.wrote) {
				x.fail("C01", "wire-invented", "wire-invented", "segment seq+%d len %d carries stream offset %d but the application has only written %d bytes", seq-x.sIss, n, off, len(x.wrote))
				break
			}
			if x.wrote[off] != t.Payload[i] {
				x.fail("C01", "wire-mismatch", "wire-mismatch", "segment seq+%d len %d: byte at stream offset %d is %#02x on the wire but the application wrote %#02x there (a retransmission carrying the wrong bytes for its sequence number)", seq-x.sIss, n, off, t.Payload[i], x.wrote[off])
				break
			}
		}
	}
	// --- C04 send side: within the offered window and MSS/MTU
	if x.has('w') && n > 0 {
		end := seq + uint32(n)
		if x.haveAdv && ref.SeqLT(x.maxEdge, end) {
			x.fail("C04", "beyond-window", "beyond-peer-window", "segment seq+%d len %d ends %d bytes beyond the right edge the peer has offered (ack+%d, window edge +%d)", seq-x.sIss, n, end-x.maxEdge, x.advAck-x.sIss, x.maxEdge-x.sIss)
		} else if x.tookBack && x.haveAdv && ref.SeqLT(x.advEdge, end) && (!x.haveMaxSent || ref.SeqLT(x.maxSentEnd, end)) {
			// the peer has taken window back (its edge moved left): what was sent before stays
			// legitimate and may be retransmitted, but nothing new may go beyond the current edge
			x.fail("C04", "beyond-window", "beyond-shrunk-window", "segment seq+%d len %d carries new data ending %d bytes beyond the window the peer offers now (ack+%d, window edge +%d; it had offered up to +%d earlier and took that back)", seq-x.sIss, n, end-x.advEdge, x.advAck-x.sIss, x.advEdge-x.sIss, x.maxEdge-x.sIss)
		}
		if lim := x.mssLimit(len(t.RawOpts)); n > lim {
			x.fail("C04", "oversized-segment", "oversized-segment", "segment payload %d exceeds what the peer's MSS (%d) / MTU %d allow with %d option bytes (%d)", n, x.cfg.PeerMSS, x.cfg.MTU, len(t.RawOpts), lim)
		}
		if x.pmtu > 0 && d.F.Seq >= x.ptbAt {
			hdr := 20
			if x.cfg.V6 {
				hdr = 40
			}
			if d.TotLen > x.pmtu && hdr > 0 {
				x.fail("C04", "exceeds-path-mtu", "exceeds-path-mtu", "packet of %d bytes sent after ICMP fragmentation-needed reported next-hop MTU %d", d.TotLen, x.pmtu)
			}
		}
	}
	// a segment that lies wholly below the cumulative ACK the peer has already delivered: the
	// stack did not take that ACK (it retransmits what was acknowledged)
	if sl := uint32(n) + uint32(t.Flags&ref.FIN); sl > 0 && x.haveAdv && ref.SeqLEQ(seq+sl, x.advAck) && (x.has('s') || x.has('w') || x.has('r') || x.has('c')) {
		x.fail("C01", "acked-data-retransmitted", "acked-data-retransmitted", "the stack sends seq+%d len %d (fin=%v) although the peer's ACK +%d, delivered earlier, covers all of it: that ACK was not taken", seq-x.sIss, n, t.Flags&ref.FIN != 0, x.advAck-x.sIss)
	}
	// --- C05 bookkeeping
	rtx := false
	for _, s := range x.sent {
		if s.n > 0 && s.seq == seq {
			rtx = true
		}
	}
	if n > 0 {
		if !x.firstAckDelivered && !rtx {
			x.dataSentBeforeFirstAck++
			if x.has('r') && x.dataSentBeforeFirstAck > 10 {
				x.fail("C05", "initial-window", "initial-window", "%d data segments sent before the first ACK was delivered (limit 10)", x.dataSentBeforeFirstAck)
			}
		}
		if x.has('r') {
			x.checkRecovery(seq, n, d.F.At, rtx)
		}
		// RFC 6582 "recover": the highest sequence number transmitted when a timeout (or a fast
		// retransmit) happened; duplicate ACKs for data at or below it must not start another
		// fast retransmit, duplicate ACKs for data sent later must
		if rtx && (x.inTimerStep || x.inDupAckStep) && (!x.haveRecover || ref.SeqLT(x.recover, x.maxSentEnd-1)) {
			x.recover, x.haveRecover = x.maxSentEnd-1, true
			x.recoverExit = x.recover
			x.episode = x.inDupAckStep
		}
		if !x.haveMaxSent || ref.SeqLT(x.maxSentEnd, seq+uint32(n)) {
			x.maxSentEnd, x.haveMaxSent = seq+uint32(n), true
		}
		x.sent = append(x.sent, sentSeg{seq: seq, n: n, at: d.F.At, flags: t.Flags, rtx: rtx, ackTriggered: !x.inTimerStep})
	}
}

// onStackFrame is the peer's reference receiver: called when a frame is delivered to the peer.
func (x *rawRun) onStackFrame(d *Decoded) {
	if d == nil || d.TCP == nil {
		return
	}
	t := d.TCP
	if t.Opts.HasTS {
		x.lastTSVal = t.Opts.TSVal
	}
	if t.Flags&ref.RST != 0 {
		return
	}
	n := len(t.Payload)
	seq := t.Seq
	if t.Flags&ref.ACK != 0 && t.Flags&ref.SYN == 0 {
		edge := t.Ack + uint32(t.Window)<<x.stackShift()
		if !x.haveSEdge || ref.SeqLT(x.sEdge, edge) {
			x.sEdge = edge
		}
		x.haveSEdge = true
		if ref.SeqLT(x.pAcked, t.Ack) || x.pAcked == 0 {
			x.pAcked = t.Ack
		}
	}
	if n == 0 && t.Flags&ref.FIN == 0 {
		return
	}
	// reference receiver
	if t.Flags&ref.FIN != 0 && seq+uint32(n) == x.rcvNxt+uint32(boolInt(seq == x.rcvNxt)*n) {
		// handled below once data is in order
	}
	if n > 0 {
		if ref.SeqLEQ(seq, x.rcvNxt) && ref.SeqLT(x.rcvNxt, seq+uint32(n)) {
			skip := x.rcvNxt - seq
			x.recon = append(x.recon, t.Payload[skip:]...)
			x.rcvNxt = seq + uint32(n)
			// pull buffered segments
			for {
				moved := false
				for s, b := range x.ooo {
					if ref.SeqLEQ(s, x.rcvNxt) && ref.SeqLT(x.rcvNxt, s+uint32(len(b))) {
						x.recon = append(x.recon, b[x.rcvNxt-s:]...)
						x.rcvNxt = s + uint32(len(b))
						delete(x.ooo, s)
						moved = true
					} else if ref.SeqLEQ(s+uint32(len(b)), x.rcvNxt) {
						delete(x.ooo, s)
					}
				}
				if !moved {
					break
				}
			}
		} else if ref.SeqLT(x.rcvNxt, seq) {
			x.ooo[seq] = append([]byte(nil), t.Payload...)
		}
	}
	if t.Flags&ref.FIN != 0 && seq+uint32(n) == x.rcvNxt {
		x.finSeen = true
		x.rcvNxt++
	}
	if x.has('s') && !bytes.HasPrefix(x.wrote, x.recon) {
		x.fail("C01", "peer-stream-mismatch", "peer-stream-mismatch", "the stream the peer reconstructs (%d bytes) is not a prefix of what the application wrote (%d bytes)", len(x.recon), len(x.wrote))
	}
}

// scanEmitted passes every frame emitted since the last call to the emission-time oracles.
func (x *rawRun) scanEmitted() {
	x.r.w.mu.Lock()
	frames := append([]*Frame(nil), x.r.w.All[x.emitSeen:]...)
	x.emitSeen = len(x.r.w.All)
	x.r.w.mu.Unlock()
	for _, f := range frames {
		d, err := DecodeFrame(f)
		if err != nil {
			if x.r.MonErr == nil {
				x.r.MonErr = fmt.Errorf("frame #%d: %v (bytes %x)", f.Seq, err, f.Data)
			}
			continue
		}
		if d.TCP != nil && x.established {
			x.onEmit(d)
		}
	}
}

func boolInt(b bool) int {
	if b {
		return 1
	}
	return 0
}

func (x *rawRun) sIssPeerBase() uint32 { return x.cfg.PeerISS }

// sackBlocks renders the peer's out-of-order store.
func (x *rawRun) sackBlocks() []ref.SACKBlock {
	var bl []ref.SACKBlock
	for s, b := range x.ooo {
		bl = append(bl, ref.SACKBlock{Start: s, End: s + uint32(len(b))})
	}
	sort.Slice(bl, func(i, j int) bool { return ref.SeqLT(bl[i].Start, bl[j].Start) })
	if len(bl) > 3 {
		bl = bl[:3]
	}
	return bl
}

// checkRecovery: C05 clauses (2) and (4) at every emission of a data segment.
func (x *rawRun) checkRecovery(seq uint32, n int, at time.Duration, rtx bool) {
	if rtx {
		// previous transmission of this very segment
		var prev *sentSeg
		for i := range x.sent {
			if x.sent[i].seq == seq && x.sent[i].n > 0 {
				prev = &x.sent[i]
			}
		}
		// a retransmission emitted while a timer fires is timeout-based; one emitted while an
		// ACK from the peer is being processed is ACK-triggered (fast retransmit, NewReno
		// partial-ACK retransmit) and exempt from the 200 ms rule
		if prev != nil && x.inTimerStep && at-prev.at < 200*time.Millisecond {
			key := "rto-too-early"
			if prev.rtx && prev.ackTriggered {
				key = "rto-too-early-after-fast-retransmit"
			}
			x.fail("C05", "early-retransmission", key, "segment seq+%d retransmitted by timeout %v after its previous transmission (minimum 200ms); previous transmission was ACK-triggered: %v; duplicate ACKs seen for it: %d", seq-x.sIss, at-prev.at, prev.ackTriggered, x.dupForUna[seq])
		}
	}
	// (4) Reno: segments in flight <= 10 + segments acked + dup acks delivered
	if !x.cfg.Cubic {
		inflight := 0
		seen := map[uint32]bool{}
		for _, s := range x.sent {
			if s.n > 0 && !seen[s.seq] && ref.SeqLT(x.advAck, s.seq+uint32(s.n)) {
				seen[s.seq] = true
				inflight++
			}
		}
		if !seen[seq] {
			inflight++
		}
		limit := 10 + x.segsAcked + x.dupAcksDelivered
		if inflight > limit {
			x.fail("C05", "cwnd-exceeded", "cwnd-exceeded", "%d segments in flight after sending seq+%d, limit is 10 + %d acknowledged + %d duplicate ACKs = %d", inflight, seq-x.sIss, x.segsAcked, x.dupAcksDelivered, limit)
		}
	}
}

// ---------- menu ----------

func (x *rawRun) appCalls() []action {
	var acts []action
	if x.ep == nil {
		return nil
	}
	sk := &Sock{EP: x.ep}
	st := tcp.VerifDump(x.ep)
	if st.State == 4 && len(x.chunks) > 0 && sk.Writable() && !x.shut && !x.writeWaits() {
		acts = append(acts, action{name: fmt.Sprintf("S.write(%d)", len(x.chunks[0])), do: func() {
			x.lastWriteAt, x.wroteOnce = vtime.Elapsed(), true
			c := x.chunks[0]
			// the bytes are part of the stream the moment Write may put them on the wire
			before := len(x.wrote)
			x.wrote = append(x.wrote, c...)
			n, _, err := x.ep.Write(tcpip.SlicePayload(append([]byte(nil), c...)), tcpip.WriteOptions{})
			x.wrote = x.wrote[:before+int(n)]
			if int(n) == len(c) {
				x.chunks = x.chunks[1:]
			} else {
				x.chunks[0] = c[n:]
			}
			_ = err
		}})
	}
	if (st.State >= 4) && sk.Readable() && !x.eof && x.readErr == "" && (x.cfg.Read == "eager" || (x.cfg.Read == "stall" && x.drain)) {
		acts = append(acts, action{name: "S.read", do: x.doRead})
	}
	if x.cfg.Close == "shut" && len(x.chunks) == 0 && st.State == 4 && !x.shut {
		acts = append(acts, action{name: "S.shutdown(write)", do: func() { x.shut = true; x.ep.Shutdown(tcpip.ShutdownWrite) }})
	}
	return acts
}

// writeWaits: with a write gap configured the application's next write is due only after the
// gap has passed since its previous one.
func (x *rawRun) writeWaits() bool {
	return x.cfg.WriteGapMs > 0 && x.wroteOnce && vtime.Elapsed() < x.lastWriteAt+time.Duration(x.cfg.WriteGapMs)*time.Millisecond
}

func (x *rawRun) doRead() {
	if x.has('s') {
		// look before reading: what Peek shows is the stream from the first unread byte on
		// (segments that arrived in several buffers are handed out one buffer per Read)
		b1, b2 := make([]byte, 7), make([]byte, 4096)
		if n, _, err := x.ep.Peek([][]byte{b1, b2}); err == nil && n > 0 {
			seen := append(append([]byte(nil), b1...), b2...)[:n]
			rest := x.pData[min(len(x.got), len(x.pData)):]
			if !bytes.HasPrefix(rest, seen) {
				i := 0
				for i < len(seen) && i < len(rest) && seen[i] == rest[i] {
					i++
				}
				x.fail("C01", "stream-mismatch", "peek-mismatch", "Peek after %d bytes were read shows %d bytes that are not the continuation of the stream the peer sent: first difference at offset %d of the peeked data", len(x.got), n, i)
			}
		}
	}
	v, _, err := x.ep.Read(nil)
	switch err {
	case nil:
		x.got = append(x.got, v...)
	case tcpip.ErrWouldBlock:
	case tcpip.ErrClosedForReceive:
		x.eof = true
	default:
		x.readErr = err.String()
	}
}

func (x *rawRun) windowMenu() []int {
	m := x.cfg.PeerMSS
	if m <= 0 {
		m = 536
	}
	return []int{0, 1, m - 1, m, 3 * m, 65535}
}

// answer builds the peer's default reaction to a delivered data/FIN segment and its deviations.
func (x *rawRun) deliverMenu(d *Decoded, f *Frame) []action {
	t := d.TCP
	name := x.segName(t)
	var m []action
	wnd := x.cfg.PeerWnd
	if x.cfg.PeerFixedEdge {
		// the window left once this segment has been taken in (computed before processing: the
		// segment is in order or not at all in the histories that use this mode)
		got := int(x.rcvNxt - (x.sIss + 1))
		if t != nil && t.Seq == x.rcvNxt {
			got += len(t.Payload)
		}
		if wnd -= got; wnd < 0 {
			wnd = 0
		}
		// PeerWnd is in bytes (it travels unscaled in the SYN); later segments carry a field
		if sh := x.peerShift(); sh > 0 {
			if x.cfg.WndFloor {
				wnd >>= sh
			} else {
				wnd = (wnd + (1 << sh) - 1) >> sh
			}
		}
	}
	process := func() { x.onStackFrame(d) }
	ackNow := func(ack uint32, w int) func() {
		return func() { x.sendAck(ack, w, x.sackBlocks()) }
	}
	later := func(nm string, send func()) {
		if x.cfg.RTTms > 0 {
			x.pending = append(x.pending, pendingAck{due: vtime.Elapsed() + time.Duration(x.cfg.RTTms)*time.Millisecond, send: send, name: nm})
		} else {
			send()
		}
	}
	hasData := t != nil && (len(t.Payload) > 0 || t.Flags&ref.FIN != 0)
	if !hasData {
		m = append(m, action{name: "peer gets " + name, do: process})
		return m
	}
	if x.cfg.SilentAfter > 0 && !x.wentSilent && len(x.ackLog) >= x.cfg.SilentAfter {
		// the peer has answered for a while (the stack has RTT samples), now it goes silent
		x.wentSilent, x.silentLeft, x.rtxTimes = true, x.cfg.Silent, nil
	}
	if x.silentLeft > 0 {
		m = append(m, action{name: "peer ignores (silent) " + name, do: func() {
			if len(x.rtxTimes) == 0 && t.Seq == x.advAck {
				x.rtxTimes = append(x.rtxTimes, f.At)
			}
		}})
		return m
	}
	if x.cfg.TrickleN > 0 {
		// a slow peer: the first segment is acknowledged at once, the next TrickleN-1 one after
		// the other TrickleMs apart, everything after that is ignored (the peer has gone silent)
		if x.trickled >= x.cfg.TrickleN {
			m = append(m, action{name: "peer ignores (gone silent) " + name, do: func() {}})
			return m
		}
		m = append(m, action{name: fmt.Sprintf("peer gets %s, acks it %d ms after the previous ack", name, x.cfg.TrickleMs), do: func() {
			process()
			x.trickled++
			due := vtime.Elapsed()
			if x.trickled > 1 {
				if x.trickleDue > due {
					due = x.trickleDue
				}
				due += time.Duration(x.cfg.TrickleMs) * time.Millisecond
			}
			x.trickleDue = due
			ack := x.rcvNxt
			x.pending = append(x.pending, pendingAck{due: due, send: ackNow(ack, wnd), name: "trickled ack"})
			sort.SliceStable(x.pending, func(i, j int) bool { return x.pending[i].due < x.pending[j].due })
		}})
		return m
	}
	m = append(m, action{name: "peer gets " + name + ", acks all", do: func() {
		process()
		later("ack", ackNow(x.rcvNxt, wnd))
	}})
	n := len(t.Payload)
	if x.dev('l') {
		m = append(m, action{name: "peer never gets " + name, cost: 1, do: func() {}})
	}
	if x.dev('h') {
		m = append(m, action{name: "peer gets " + name + ", withholds ack", cost: 1, do: process})
	}
	if x.dev('y') {
		// this one ACK takes 155 ms longer than the others (it may arrive after later segments
		// have been sent, acknowledging only part of what is then outstanding)
		m = append(m, action{name: "peer gets " + name + ", its ack is delayed by 155ms", cost: 1, do: func() {
			process()
			ack := x.rcvNxt
			x.pending = append(x.pending, pendingAck{due: vtime.Elapsed() + time.Duration(x.cfg.RTTms+155)*time.Millisecond, send: ackNow(ack, wnd), name: "late ack"})
			sort.SliceStable(x.pending, func(i, j int) bool { return x.pending[i].due < x.pending[j].due })
		}})
	}
	if x.dev('z') && len(x.ackLog) >= 2 {
		// the network delivers a stale copy of the peer's first ACK after the newest one: it
		// acknowledges less than is acknowledged already and carries the (larger) window of then
		old := x.ackLog[0]
		m = append(m, action{name: "peer gets " + name + ", acks all; then a stale copy of its first ACK (ack+" + fmt.Sprint(old[0]-x.sIss) + " win " + fmt.Sprint(old[1]) + ") arrives", cost: 1, do: func() {
			process()
			later("ack", ackNow(x.rcvNxt, wnd))
			x.r.SendTCP(peerPort, x.sPort, x.pSndNxt, old[0], ref.ACK, uint16(old[1]), x.segOpts(nil), nil)
			x.scanEmitted()
		}})
	}
	if x.dev('k') && n > 1 {
		m = append(m, action{name: "peer gets " + name + ", acks up to last byte-1", cost: 1, do: func() {
			process()
			if x.rcvNxt == t.Seq+uint32(n) {
				later("ack-1", ackNow(x.rcvNxt-1, wnd))
			} else {
				later("ack", ackNow(x.rcvNxt, wnd))
			}
		}})
		if n > 2 {
			m = append(m, action{name: "peer gets " + name + ", acks mid-segment", cost: 1, do: func() {
				process()
				if x.rcvNxt == t.Seq+uint32(n) {
					later("ack-mid", ackNow(t.Seq+uint32(n/2), wnd))
				} else {
					later("ack", ackNow(x.rcvNxt, wnd))
				}
			}})
		}
	}
	if x.dev('w') {
		for _, w := range x.windowMenu() {
			w := w
			if w == wnd {
				continue
			}
			m = append(m, action{name: fmt.Sprintf("peer gets %s, acks all with window %d", name, w), cost: 1, do: func() {
				process()
				later("ack-w", ackNow(x.rcvNxt, w))
			}})
		}
	}
	if x.dev('n') {
		// a peer that takes window back: a second ACK with the same acknowledgement number and a
		// smaller window, so that its right edge moves left (discouraged by RFC 793, but the
		// sender has to live with it: nothing new beyond the edge now in force)
		for _, w := range []int{0, 1, x.cfg.PeerMSS / 2} {
			w := w
			m = append(m, action{name: fmt.Sprintf("peer gets %s, acks all, then shrinks its window to %d with the same ack", name, w), cost: 1, do: func() {
				process()
				ack := x.rcvNxt
				later("ack", ackNow(ack, wnd))
				later("ack-shrink", func() {
					x.noClamp, x.tookBack = true, true
					x.sendAck(ack, w, nil)
					x.noClamp = false
				})
			}})
		}
	}
	if x.dev('p') && x.cfg.PTB > 0 && !x.ptbSent && n > 0 && !x.cfg.V6 {
		m = append(m, action{name: fmt.Sprintf("ICMP fragmentation-needed(mtu %d) for %s", x.cfg.PTB, name), cost: 1, do: func() {
			x.ptbSent = true
			x.r.w.mu.Lock()
			x.ptbAt = len(x.r.w.All) // frames emitted from now on must respect the reported MTU
			x.r.w.mu.Unlock()
			q := f.Data
			if len(q) > 28 {
				q = q[:28]
			}
			// the router's message takes as long as a segment's ACK would (it arrives while the
			// retransmission timer of that segment is already running)
			deliver := later
			if x.cfg.PTBDelayMs > 0 {
				deliver = func(nm string, send func()) {
					x.pending = append(x.pending, pendingAck{due: vtime.Elapsed() + time.Duration(x.cfg.PTBDelayMs)*time.Millisecond, send: send, name: nm})
				}
			}
			deliver("icmp-fragmentation-needed", func() {
				x.r.w.mu.Lock()
				x.ptbAt = len(x.r.w.All)
				x.r.w.mu.Unlock()
				x.r.InjectIP(ref.ProtoICMP, ref.BuildICMPv4Error(3, 4, uint32(x.cfg.PTB), q))
				x.pmtu = x.cfg.PTB
			})
		}})
	}
	return m
}

func (x *rawRun) segName(t *ref.TCP) string {
	if t == nil {
		return "non-tcp"
	}
	fl := ""
	for i, n := range []string{"F", "S", "R", "P", "A"} {
		if t.Flags&(1<<uint(i)) != 0 {
			fl += n
		}
	}
	return fmt.Sprintf("[%s seq+%d ack+%d len%d win%d]", fl, t.Seq-x.sIss, t.Ack-x.cfg.PeerISS, len(t.Payload), t.Window)
}

// peerSend sends peer data segment i (offset/len into pData), with optional shift.
func (x *rawRun) peerSendData(off, n int, fin bool) {
	if off+n > len(x.pData) {
		n = len(x.pData) - off
	}
	flags := uint8(ref.ACK | ref.PSH)
	if fin {
		flags |= ref.FIN
	}
	if end := x.cfg.PeerISS + 1 + uint32(off+n); !x.sendingProbe && (x.pSentMax == 0 || ref.SeqLT(x.pSentMax, end)) {
		x.pSentMax = end
	}
	if !x.sendingProbe && n > 0 {
		st := x.cfg.PeerISS + 1 + uint32(off)
		x.pRecv = append(x.pRecv, [2]uint32{st, st + uint32(n)})
		x.pLast = [2]uint32{st, st + uint32(n)}
		if ref.SeqLT(x.pSndNxt, st+uint32(n)) {
			x.pSndNxt = st + uint32(n) // the peer's later ACKs carry its SND.NXT
		}
	} else {
		x.pLast = [2]uint32{}
	}
	x.r.InjectIP(ref.ProtoTCP, ref.BuildTCP(peerPort, x.sPort, x.cfg.PeerISS+1+uint32(off), x.rcvNxt, flags, uint16(x.cfg.PeerWnd), x.segOpts(nil), x.pData[off:off+n], x.r.pAddr, x.r.sAddr))
	x.scanEmitted() // what the stack answers to this segment is judged against the state right now
}

// sackCheck: the SACK blocks of one ACK of the stack against what the peer has sent so far
// (RFC 2018 4): every block lies above the cumulative ACK and covers only bytes that were
// received; the first block contains the segment that triggered the ACK and is exactly the
// maximal run of received bytes around it.
func (x *rawRun) sackCheck(t *ref.TCP) {
	if len(t.Opts.SACK) == 0 || !(x.has('s') || x.has('w')) {
		return
	}
	covered := func(a, b uint32) bool { // [a,b) inside the union of received ranges
		for ref.SeqLT(a, b) {
			moved := false
			for _, r := range x.pRecv {
				if ref.SeqLEQ(r[0], a) && ref.SeqLT(a, r[1]) {
					a = r[1]
					moved = true
				}
			}
			if !moved {
				return false
			}
		}
		return true
	}
	for i, b := range t.Opts.SACK {
		if !ref.SeqLT(b.Start, b.End) || !ref.SeqLT(t.Ack, b.Start) && b.Start != t.Ack || !covered(b.Start, b.End) {
			if !ref.SeqLT(b.Start, b.End) || ref.SeqLT(b.Start, t.Ack) || !covered(b.Start, b.End) {
				x.fail("C01", "sack-block-wrong", "sack-block-wrong", "ACK +%d carries SACK block %d [+%d,+%d), which is empty, below the cumulative ACK or covers bytes the peer never sent", t.Ack-x.cfg.PeerISS-1, i, b.Start-x.cfg.PeerISS-1, b.End-x.cfg.PeerISS-1)
				return
			}
		}
	}
	if x.pLast[0] == x.pLast[1] || !ref.SeqLT(t.Ack, x.pLast[1]) || x.shrunk || !(x.cfg.RcvBuf == 0 || len(x.pData) < x.cfg.RcvBuf) {
		return
	}
	// maximal run around the most recent segment, above the cumulative ACK
	lo, hi := x.pLast[0], x.pLast[1]
	if ref.SeqLT(lo, t.Ack) {
		lo = t.Ack
	}
	for changed := true; changed; {
		changed = false
		for _, r := range x.pRecv {
			if ref.SeqLT(r[0], lo) && ref.SeqLEQ(lo, r[1]) && ref.SeqLT(t.Ack, r[1]) {
				lo = r[0]
				if ref.SeqLT(lo, t.Ack) {
					lo = t.Ack
				}
				changed = true
			}
			if ref.SeqLEQ(r[0], hi) && ref.SeqLT(hi, r[1]) {
				hi = r[1]
				changed = true
			}
		}
	}
	if b := t.Opts.SACK[0]; b.Start != lo || b.End != hi {
		x.fail("C01", "sack-first-block", "sack-first-block", "the segment [+%d,+%d) just arrived out of order (cumulative ACK +%d); the first SACK block of the answer is [+%d,+%d), the received run around that segment is [+%d,+%d)", x.pLast[0]-x.cfg.PeerISS-1, x.pLast[1]-x.cfg.PeerISS-1, t.Ack-x.cfg.PeerISS-1, b.Start-x.cfg.PeerISS-1, b.End-x.cfg.PeerISS-1, lo-x.cfg.PeerISS-1, hi-x.cfg.PeerISS-1)
	}
}

// peerSendBatch sends several peer data segments that reach the connection in one batch.
func (x *rawRun) peerSendBatch(segs ...[2]int) {
	var pl [][]byte
	for _, sg := range segs {
		seq := x.cfg.PeerISS + 1 + uint32(sg[0])
		if end := seq + uint32(sg[1]); x.pSentMax == 0 || ref.SeqLT(x.pSentMax, end) {
			x.pSentMax = end
		}
		pl = append(pl, ref.BuildTCP(peerPort, x.sPort, seq, x.rcvNxt, ref.ACK|ref.PSH, uint16(x.cfg.PeerWnd), x.segOpts(nil), x.pData[sg[0]:sg[0]+sg[1]], x.r.pAddr, x.r.sAddr))
		x.pRecv = append(x.pRecv, [2]uint32{seq, seq + uint32(sg[1])})
		if ref.SeqLT(x.pSndNxt, seq+uint32(sg[1])) {
			x.pSndNxt = seq + uint32(sg[1])
		}
	}
	x.pLast = [2]uint32{}
	x.r.InjectBatch(x.ep, ref.ProtoTCP, pl...)
}

func (x *rawRun) menu() []action {
	var m []action
	fl := x.r.w.InFlight()
	apps := x.appCalls()
	timers := vtime.Pending()
	horizon := vtime.Elapsed() > 15*time.Minute
	// the application's next (paced) write is an event in virtual time like a timer or a
	// delayed answer: it happens when it is the earliest of them
	if len(fl) == 0 && len(apps) == 0 && x.writeWaits() && len(x.chunks) > 0 && x.established {
		wait := x.lastWriteAt + time.Duration(x.cfg.WriteGapMs)*time.Millisecond - vtime.Elapsed()
		if (len(timers) == 0 || wait <= timers[0]) && (len(x.pending) == 0 || x.lastWriteAt+time.Duration(x.cfg.WriteGapMs)*time.Millisecond <= x.pending[0].due) {
			return []action{{name: fmt.Sprintf("application waits %v before its next write", wait), do: func() { vtime.Advance(wait) }}}
		}
	}
	// delayed peer answers that are due come first (time order)
	appNow := x.cfg.WriteGapMs > 0 && len(apps) > 0 && len(x.pending) > 0 && x.pending[0].due > vtime.Elapsed() // a paced write that is due now precedes an answer that is still on its way
	if len(x.pending) > 0 && (len(timers) == 0 || x.pending[0].due <= vtime.Elapsed()+timers[0]) && len(fl) == 0 && !appNow {
		p := x.pending[0]
		m = append(m, action{name: fmt.Sprintf("delayed %s arrives (t=%v)", p.name, p.due), do: func() {
			if p.due > vtime.Elapsed() {
				vtime.Advance(p.due - vtime.Elapsed())
			}
			x.pending = x.pending[1:]
			p.send()
		}})
		return m
	}
	switch {
	case len(fl) > 0:
		f := fl[0]
		d, _ := x.r.mon.Check(f, []tcpip.Address{addrA4, addrA6})
		if _, err := DecodeFrame(f); err != nil && x.r.MonErr == nil {
			x.r.MonErr = fmt.Errorf("frame #%d: %v (bytes %x)", f.Seq, err, f.Data)
		}
		dm := x.deliverMenu(d, f)
		for i := range dm {
			do := dm[i].do
			dm[i].do = func() { x.r.w.Take(f); do() }
		}
		m = append(m, dm...)
		if x.dev('a') && len(apps) > 0 {
			a := apps[0]
			m = append(m, action{name: "app-first " + a.name, cost: 1, do: a.do})
		}
		if x.dev('t') && len(timers) > 0 && !horizon {
			m = append(m, action{name: "early timer", cost: 1, do: func() {
				x.earlyTimer = true
				x.timeoutsFired++
				x.inTimerStep = true
				vtime.FireNext()
				x.r.w.Settle()
				x.scanEmitted()
				x.inTimerStep = false
			}})
		}
	case len(apps) > 0:
		m = append(m, apps[0])
		// the peer's data overtakes the application: its second segment arrives first (a hole,
		// hence SACK blocks in everything the stack sends until the first one shows up)
		if x.dev('e') && x.established && len(x.pSegs) >= 2 && x.fits(x.pSegs[0]) && x.fits(x.pSegs[1]) {
			nx := x.pSegs[1]
			m = append(m, action{name: fmt.Sprintf("peer sends [%d,+%d) out of order before %s", nx[0], nx[1], apps[0].name), cost: 1, do: func() {
				x.pSegs = append([][2]int{x.pSegs[0]}, x.pSegs[2:]...)
				x.peerSendData(nx[0], nx[1], false)
			}})
		}
	case len(x.pSegs) > 0 && x.established && !x.fits(x.pSegs[0]) && x.room() > 0:
		s := x.pSegs[0]
		k := x.room()
		m = append(m, action{name: fmt.Sprintf("peer sends the %d bytes of [%d,+%d) that fit the advertised window", k, s[0], s[1]), do: func() {
			x.pSegs[0] = [2]int{s[0] + k, s[1] - k}
			x.peerSendData(s[0], k, false)
		}})
		if edgeOff := int(x.sEdge - (x.cfg.PeerISS + 1)); x.dev('o') && !x.probed && edgeOff+8 <= len(x.pData) {
			n := len(x.pData) - edgeOff
			if n > 50 {
				n = 50
			}
			m = append(m, action{name: fmt.Sprintf("non-conforming peer sends [%d,+%d), which starts at the window edge (wholly outside the window)", edgeOff, n), cost: 1, do: func() {
				x.probed = true
				// with window scaling the stack's own idea of its right edge can lie up to
				// 2^scale - 1 bytes beyond what the truncated window field tells the peer (D9)
				if st := tcp.VerifDump(x.ep); st.HasRcv && x.stackShift() > 0 && ref.SeqLT(x.sEdge, st.RcvAcc) && st.RcvAcc-x.sEdge < 1<<x.stackShift() {
					x.probeInsideInternal = true
				}
				x.sendingProbe = true
				x.peerSendData(edgeOff, n, false)
				x.sendingProbe = false
			}})
		}
		if x.dev('o') && !x.probed && !x.straddled {
			// the segment that straddles the right edge arrives whole (only its head is inside the
			// window), and right behind it, before the stack has answered, a segment that lies
			// wholly beyond the edge
			m = append(m, action{name: fmt.Sprintf("non-conforming peer sends all of [%d,+%d) (only %d bytes fit) and right behind it 8 bytes wholly beyond the advertised window", s[0], s[1], k), cost: 1, do: func() {
				x.straddled = true
				x.straddleSlack = s[1] - k // the stack takes a partly acceptable segment whole
				seq := x.cfg.PeerISS + 1 + uint32(s[0])
				if end := seq + uint32(s[1]); x.pSentMax == 0 || ref.SeqLT(x.pSentMax, end) {
					x.pSentMax = end
				}
				x.pRecv = append(x.pRecv, [2]uint32{seq, seq + uint32(s[1])})
				x.pLast = [2]uint32{}
				x.r.InjectBatch(x.ep, ref.ProtoTCP,
					ref.BuildTCP(peerPort, x.sPort, seq, x.rcvNxt, ref.ACK|ref.PSH, uint16(x.cfg.PeerWnd), x.segOpts(nil), x.pData[s[0]:s[0]+s[1]], x.r.pAddr, x.r.sAddr),
					ref.BuildTCP(peerPort, x.sPort, seq+uint32(s[1]), x.rcvNxt, ref.ACK|ref.PSH, uint16(x.cfg.PeerWnd), x.segOpts(nil), []byte("XXXXXXXX"), x.r.pAddr, x.r.sAddr))
			}})
		}
	case len(x.pSegs) > 0 && x.established && !x.fits(x.pSegs[0]) && x.cfg.Read == "stall" && !x.drain:
		m = append(m, action{name: "peer is blocked by the advertised window; application starts reading", do: func() { x.drain = true }})
		if x.dev('o') && !x.probed {
			sg := x.pSegs[0]
			m = append(m, action{name: fmt.Sprintf("non-conforming peer sends [%d,+%d) although it lies wholly beyond the advertised window", sg[0], sg[1]), cost: 1, do: func() {
				x.probed = true
				if st := tcp.VerifDump(x.ep); st.HasRcv && x.stackShift() > 0 && ref.SeqLT(x.sEdge, st.RcvAcc) && st.RcvAcc-x.sEdge < 1<<x.stackShift() && x.cfg.PeerISS+1+uint32(sg[0]) == x.sEdge {
					x.probeInsideInternal = true // D38: the segment starts inside the stack's own (unscaled) window
				}
				x.sendingProbe = true
				x.peerSendData(sg[0], sg[1], false) // not counted as sent: the peer sends it again once the window allows
				x.sendingProbe = false
			}})
		}
		if x.dev('b') && !x.shrunk && x.cfg.RcvBuf > 0 {
			m = append(m, action{name: "application shrinks its receive buffer to a quarter", cost: 1, do: func() {
				x.shrunk = true
				x.ep.SetSockOpt(tcpip.ReceiveBufferSizeOption(x.cfg.RcvBuf / 4))
			}})
		}
	case len(x.pSegs) > 0 && x.established && x.fits(x.pSegs[0]):
		s := x.pSegs[0]
		last := len(x.pSegs) == 1
		m = append(m, action{name: fmt.Sprintf("peer sends data [%d,+%d)", s[0], s[1]), do: func() { x.pSegs = x.pSegs[1:]; x.peerSendData(s[0], s[1], false) }})
		if x.dev('b') && !x.shrunk && x.cfg.RcvBuf > 0 && s[0] > 0 {
			m = append(m, action{name: "application shrinks its receive buffer to a quarter", cost: 1, do: func() {
				x.shrunk = true
				x.ep.SetSockOpt(tcpip.ReceiveBufferSizeOption(x.cfg.RcvBuf / 4))
			}})
		}
		if x.dev('g') && !last && x.fits(x.pSegs[1]) {
			// two segments arrive before the protocol goroutine runs (one handleSegments batch)
			nx := x.pSegs[1]
			m = append(m, action{name: fmt.Sprintf("peer sends [%d,+%d) and [%d,+%d) back to back (one batch)", s[0], s[1], nx[0], nx[1]), cost: 1, do: func() {
				x.pSegs = x.pSegs[2:]
				x.peerSendBatch(s, nx)
			}})
			m = append(m, action{name: fmt.Sprintf("peer sends [%d,+%d) and then [%d,+%d) back to back (one batch, out of order)", nx[0], nx[1], s[0], s[1]), cost: 1, do: func() {
				x.pSegs = x.pSegs[2:]
				x.peerSendBatch(nx, s)
			}})
		}
		if x.dev('o') {
			if !last && x.fits(x.pSegs[1]) {
				nx := x.pSegs[1]
				m = append(m, action{name: fmt.Sprintf("peer sends [%d,+%d) before [%d,+%d)", nx[0], nx[1], s[0], s[1]), cost: 1, do: func() {
					x.pSegs[0], x.pSegs[1] = x.pSegs[1], x.pSegs[0]
					x.pSegs = x.pSegs[1:]
					x.peerSendData(nx[0], nx[1], false)
				}})
			}
			m = append(m, action{name: fmt.Sprintf("a pure ACK the peer sent after [%d,+%d) overtakes it", s[0], s[1]), cost: 1, do: func() {
				x.pSegs = x.pSegs[1:]
				if e := x.cfg.PeerISS + 1 + uint32(s[0]+s[1]); ref.SeqLT(x.pSndNxt, e) {
					x.pSndNxt = e
				}
				x.r.SendTCP(peerPort, x.sPort, x.pSndNxt, x.rcvNxt, ref.ACK, uint16(x.cfg.PeerWnd), x.segOpts(nil), nil)
				x.peerSendData(s[0], s[1], false)
			}})
			m = append(m, action{name: fmt.Sprintf("peer sends [%d,+%d) twice", s[0], s[1]), cost: 1, do: func() {
				x.pSegs = x.pSegs[1:]
				x.peerSendData(s[0], s[1], false)
				x.peerSendData(s[0], s[1], false)
			}})
			if s[0] >= 3 {
				m = append(m, action{name: fmt.Sprintf("peer sends overlapping [%d,+%d)", s[0]-3, s[1]+3), cost: 1, do: func() {
					x.pSegs = x.pSegs[1:]
					x.peerSendData(s[0]-3, s[1]+3, false)
				}})
			}
			if !last && x.fits(x.pSegs[1]) {
				nx := x.pSegs[1]
				ext := nx[1] / 2
				if ext > 0 {
					// re-segmented retransmission: the later segment arrives first, then a segment
					// that fills the hole and reaches into the middle of the one already received
					m = append(m, action{name: fmt.Sprintf("peer sends [%d,+%d) first, then [%d,+%d) which reaches into it", nx[0], nx[1], s[0], s[1]+ext), cost: 1, do: func() {
						x.pSegs = x.pSegs[2:]
						x.peerSendData(nx[0], nx[1], false)
						x.peerSendData(s[0], s[1]+ext, false)
					}})
				}
				m = append(m, action{name: fmt.Sprintf("peer sends [%d,+%d), reaching into the next segment", s[0], s[1]+ext), cost: 1, do: func() {
					x.pSegs = x.pSegs[1:]
					x.peerSendData(s[0], s[1]+ext, false)
				}})
			}
			if len(x.pSegs) >= 9 && x.fits(x.pSegs[8]) {
				// islands: every other segment arrives first (4-5 disjoint ranges wait out of order, so
				// the stack's ACKs carry as many SACK blocks as fit), then the gaps are filled in order
				segs := append([][2]int(nil), x.pSegs[:9]...)
				m = append(m, action{name: fmt.Sprintf("peer sends segments 2,4,6,8 of the next nine first, then 9,1,3,5,7 ([%d,+%d) ...)", s[0], s[1]), cost: 1, do: func() {
					x.pSegs = x.pSegs[9:]
					for _, k := range []int{1, 3, 5, 7, 8, 0, 2, 4, 6} {
						x.peerSendData(segs[k][0], segs[k][1], false)
					}
				}})
			}
			if len(x.pSegs) >= 3 && x.fits(x.pSegs[1]) && x.fits(x.pSegs[2]) {
				// two segments wait out of order behind a hole
				a, b, c := x.pSegs[0], x.pSegs[1], x.pSegs[2]
				m = append(m, action{name: fmt.Sprintf("peer sends [%d,+%d), [%d,+%d) and only then [%d,+%d)", b[0], b[1], c[0], c[1], a[0], a[1]), cost: 1, do: func() {
					x.pSegs = x.pSegs[3:]
					x.peerSendData(b[0], b[1], false)
					x.peerSendData(c[0], c[1], false)
					x.peerSendData(a[0], a[1], false)
				}})
				m = append(m, action{name: fmt.Sprintf("peer sends [%d,+%d), [%d,+%d), [%d,+%d) in reverse order", a[0], a[1], b[0], b[1], c[0], c[1]), cost: 1, do: func() {
					x.pSegs = x.pSegs[3:]
					x.peerSendData(c[0], c[1], false)
					x.peerSendData(b[0], b[1], false)
					x.peerSendData(a[0], a[1], false)
				}})
			}
			if s[1] > 4 {
				m = append(m, action{name: fmt.Sprintf("peer sends [%d,+%d) in two pieces, second first", s[0], s[1]), cost: 1, do: func() {
					x.pSegs = x.pSegs[1:]
					h := s[1] / 2
					x.peerSendData(s[0]+h, s[1]-h, false)
					x.peerSendData(s[0], h, false)
				}})
			}
			// data beyond the advertised window must never be delivered
			m = append(m, action{name: "peer sends a segment far beyond the advertised window", cost: 1, do: func() {
				far := x.sEdge + 1000
				x.pRecv = append(x.pRecv, [2]uint32{far, far + 8}) // (the stack may hold it out of order and report it; it must never deliver it)
				x.pLast = [2]uint32{}
				x.r.InjectIP(ref.ProtoTCP, ref.BuildTCP(peerPort, x.sPort, far, x.rcvNxt, ref.ACK|ref.PSH, uint16(x.cfg.PeerWnd), x.segOpts(nil), []byte("XXXXXXXX"), x.r.pAddr, x.r.sAddr))
			}})
		}
	case x.shrunk && x.established && x.pAcked != 0 && x.pSentMax != 0 && ref.SeqLT(x.pAcked, x.pSentMax) && ref.SeqLT(x.pAcked, x.sEdge) && x.peerRtx < 20:
		// the application shrank its receive buffer, so the stack may have dropped segments that
		// arrived out of order (its out-of-order budget shrank too): a real peer retransmits what
		// is not acknowledged when its timer fires
		off := int(x.pAcked - x.cfg.PeerISS - 1)
		n := int(x.pSentMax - x.pAcked)
		if r := int(x.sEdge - x.pAcked); r < n {
			n = r
		}
		if n > 100 {
			n = 100
		}
		m = append(m, action{name: fmt.Sprintf("peer retransmits [%d,+%d) (its retransmission timer; not acknowledged so far)", off, n), do: func() {
			x.peerRtx++
			x.sendingProbe = true
			x.peerSendData(off, n, false)
			x.sendingProbe = false
		}})
	case len(timers) > 0 && !horizon:
		m = append(m, action{name: fmt.Sprintf("timer(+%v)", timers[0]), do: func() {
			x.timeoutsFired++
			silent := x.silentLeft > 0
			before := len(x.sent)
			x.inTimerStep = true
			vtime.FireNext()
			x.r.w.Settle()
			x.scanEmitted()
			x.inTimerStep = false
			emitted := x.sent[before:]
			if x.has('r') && len(emitted) > 1 {
				x.fail("C05", "burst-on-timeout", "burst-on-timeout", "%d data segments were sent on one retransmission timeout (nothing arrived from the peer in this step; exactly one is allowed)", len(emitted))
			}
			if silent && x.has('r') {
				if len(emitted) == 1 {
					x.silentLeft--
					x.rtxTimes = append(x.rtxTimes, emitted[0].at)
					if emitted[0].seq != x.advAck {
						x.fail("C05", "timeout-wrong-segment", "timeout-wrong-segment", "the timeout retransmitted seq+%d, the earliest unacknowledged segment is seq+%d", emitted[0].seq-x.sIss, x.advAck-x.sIss)
					}
					if k := len(x.rtxTimes); k >= 3 {
						d1, d2 := x.rtxTimes[k-2]-x.rtxTimes[k-3], x.rtxTimes[k-1]-x.rtxTimes[k-2]
						if d2 < 2*d1 && d2 < 60*time.Second {
							x.fail("C05", "rto-not-doubling", "rto-not-doubling", "successive timeout intervals %v then %v: the retransmission timeout did not at least double", d1, d2)
						}
					}
				}
			}
		}})
	}
	return m
}

// fits: a conforming peer sends a segment only if it lies inside the window the stack has advertised.
func (x *rawRun) fits(s [2]int) bool {
	end := x.cfg.PeerISS + 1 + uint32(s[0]+s[1])
	return x.haveSEdge && ref.SeqLEQ(end, x.sEdge)
}

// room: bytes of the next peer segment that fit the advertised window.
func (x *rawRun) room() int {
	if !x.haveSEdge || len(x.pSegs) == 0 {
		return 0
	}
	start := x.cfg.PeerISS + 1 + uint32(x.pSegs[0][0])
	if !ref.SeqLT(start, x.sEdge) {
		return 0
	}
	return int(x.sEdge - start)
}

func (x *rawRun) afterStep() {
	x.scanEmitted()
	if x.has('w') && x.pAcked != 0 {
		if un := int(x.pAcked-x.cfg.PeerISS-1) - len(x.got); un > x.maxUnread {
			x.maxUnread = un
		}
		if x.cfg.RcvBuf > 0 && x.maxUnread > x.cfg.RcvBuf+x.straddleSlack {
			x.fail("C04", "window-not-closing", "window-not-closing", "the stack has accepted %d bytes the application has not read, more than its receive buffer of %d: the advertised window did not close", x.maxUnread, x.cfg.RcvBuf)
		}
	}
	if x.has('m') {
		if err := x.r.w.AliasErr(); err != nil {
			x.fail("C06", "frame-modified-after-send", "frame-modified-after-send", "%v", err)
		}
	}
	if x.r.MonErr != nil && x.has('m') {
		x.fail("C06", "malformed-frame", "frame:"+keyOf(x.r.MonErr), "%v", x.r.MonErr)
	}
	if x.has('s') && !bytes.HasPrefix(x.pData, x.got) {
		i := 0
		for i < len(x.got) && i < len(x.pData) && x.got[i] == x.pData[i] {
			i++
		}
		x.fail("C01", "stream-mismatch", "stream-mismatch-rx", "bytes read by the application are not a prefix of the bytes the peer sent: first difference at offset %d (read %d, sent %d)", i, len(x.got), len(x.pData))
	}
	if x.ep != nil {
		st := tcp.VerifDump(x.ep)
		x.states = append(x.states, engine.Hash(st, len(x.r.w.InFlight()), len(x.chunks), len(x.got), len(x.pSegs), vtime.Pending()))
	}
}

func (x *rawRun) teardown() {
	if x.ep != nil {
		x.ep.Close()
	}
	if x.lst != nil {
		x.lst.Close()
	}
	x.r.w.Settle()
	for i := 0; i < 50 && vtime.FireNext(); i++ {
		x.r.w.Settle()
	}
	x.r.n.S.RemoveAddress(1, addrA4)
	x.r.n.S.RemoveAddress(1, addrA6)
	x.r.w.Settle()
}

// RunRaw executes one environment history of the raw-peer transfer scenario.
func RunRaw(cfg RawCfg, prefix []int) (res *engine.EnvRun) {
	x := newRawRun(cfg, prefix)
	res = &engine.EnvRun{C: x.ch}
	defer func() {
		if e := recover(); e != nil {
			x.viol = &engine.Violation{Property: "C07", Kind: "panic", Key: "panic:" + keyOf(fmt.Errorf("%v", e)), Detail: fmt.Sprintf("panic in the stack during %v: %v", last(x.trace), e)}
			res.Violation = x.viol
			res.Trace = x.trace
		}
	}()
	if x.handshake() {
		const stepCap = 3000
		for x.viol == nil {
			m := x.menu()
			if len(m) == 0 {
				break
			}
			if res.Steps >= stepCap {
				x.caps = append(x.caps, "step cap 3000 reached")
				break
			}
			costs := make([]int, len(m))
			for i := range m {
				costs[i] = m[i].cost
			}
			c := x.ch.Choose(len(m), costs)
			x.trace = append(x.trace, m[c].name)
			m[c].do()
			x.r.w.Settle()
			// final drain of reads when everything else is idle
			res.Steps++
			x.afterStep()
		}
		if x.viol == nil {
			x.atEnd()
		}
	}
	res.Violation = x.viol
	res.Trace = x.trace
	res.States = x.states
	res.Caps = x.caps
	res.Outcome = engine.Hash(len(x.got), len(x.recon), x.eof, x.readErr, len(x.sent), x.finSeen, len(x.r.w.All))
	x.teardown()
	return res
}

// atEnd: end-of-run oracles of the raw scenario.
func (x *rawRun) atEnd() {
	// whatever arrived in order at the stack and was inside its window must be readable (C04)
	if x.has('w') && x.cfg.Read == "eager" && x.readErr == "" {
		// everything the peer sent in order has been acknowledged => it must have been read
		ackedOff := int(x.pAcked - x.cfg.PeerISS - 1)
		if x.pAcked != 0 && ackedOff > len(x.got) && ackedOff <= len(x.pData) {
			x.fail("C04", "acked-not-delivered", "acked-not-delivered", "the stack acknowledged %d bytes of peer data but the application could read only %d", ackedOff, len(x.got))
		}
	}
	// every segment of the peer arrived inside the advertised window and the out-of-order queue
	// cannot have overflowed (all peer data is smaller than the receive buffer): all of it
	// must have been accepted, whatever the arrival order (C01; in-window data is accepted, C04)
	if (x.has('s') || x.has('w')) && len(x.pSegs) == 0 && len(x.pData) > 0 && x.readErr == "" && x.established && !x.shrunk && !x.shut &&
		(x.cfg.RcvBuf == 0 || len(x.pData) < x.cfg.RcvBuf) {
		st := tcp.VerifDump(x.ep)
		if end := x.cfg.PeerISS + 1 + uint32(len(x.pData)); st.IsTCP && st.HasRcv && st.State == 4 && !st.RcvClosed && ref.SeqLT(st.RcvNxt, end) {
			x.fail("C01", "peer-data-not-accepted", "stream-incomplete-rx", "all %d bytes of the peer arrived inside the advertised window, but the stack has accepted only %d (rcvNxt +%d, %d segment(s) still waiting out of order): it waits for data it already has", len(x.pData), int(st.RcvNxt-x.cfg.PeerISS-1), st.RcvNxt-x.cfg.PeerISS-1, st.PendingOOO)
		}
	}
	if x.has('w') && len(x.pSegs) > 0 && x.readErr == "" && x.established {
		st := tcp.VerifDump(x.ep)
		if st.State == 4 {
			x.fail("C04", "window-not-reopened", "window-not-reopened", "the peer still has %d segment(s) that do not fit the advertised window (edge +%d, next segment ends at +%d) although the application has read everything and the world is idle: the window never reopened", len(x.pSegs), x.sEdge-x.cfg.PeerISS-1, x.pSegs[0][0]+x.pSegs[0][1])
		}
	}
	// (C02 liveness) the run is over, the endpoint is healthy, the peer's window is open, no
	// retransmission timer is armed - yet data or a FIN is still queued or unacknowledged
	if x.has('c') && x.readErr == "" {
		st := tcp.VerifDump(x.ep)
		if st.IsTCP && st.HasSnd && st.State == 4 && st.HardError == "" && st.SndWnd > 0 && !st.TimerEnabled &&
			(st.SndUna != st.SndNxt || st.SndNxt != st.SndNxtList || st.SndQueueLen > 0) {
			x.fail("C02", "idle-with-work", "stall", "the run has ended (nothing in flight, no application call, no timer that would send) but the endpoint still has work: sndUna=+%d sndNxt=+%d queued-to=+%d, peer window %d, retransmission timer not armed", st.SndUna-x.sIss, st.SndNxt-x.sIss, st.SndNxtList-x.sIss, st.SndWnd)
		}
	}
	if (x.has('s') || x.has('w')) && bytes.Contains(x.got, []byte("XXXXXXXX")) {
		x.fail("C04", "beyond-window-delivered", "beyond-window-delivered", "data sent wholly beyond the advertised window reached the application")
	}
}

// ---------- job plumbing shared by C01(b), C04, C05 ----------

func rawJobsC01(tier string) []string {
	var jobs []string
	add := func(s string, shards int) {
		for i := 0; i < shards; i++ {
			jobs = append(jobs, fmt.Sprintf("raw:%d/%d:%s", i, shards, s))
		}
	}
	base := "or=s,devs=kwhlo"
	add(base+",mss=24,w=72,pd=3x20,b=1", 2)
	add(base+",mss=24,w=2x36,pd=3x20,ts=1,b=1", 2)
	add(base+",mss=24,w=72,pd=3x20,psack=1,sack=1,active=0,b=1", 2)
	add(base+",mss=24,w=48,iss=4294967270,piss=2147483640,pd=2x20,b=1", 2)
	add(base+",mss=24,w=24,pd=3x20,piss=4294967270,b=1", 2) // the peer's data crosses 2^32 (overlaps, duplicates, reordering)
	add(base+",mss=536,w=700,pd=2x300,b=1", 2)
	add(base+",mss=24,w=200+50,sndbuf=64,pd=20,b=1", 2) // writes larger than the free send buffer: partial acceptance
	// the sender's own sequence numbers cross 2^32 inside the first of several writes
	add(base+",mss=536,iss=4294967285,w=20+100+30,pd=,b=1", 2)
	add(base+",mss=24,iss=4294967285,w=20+100,pd=20,b=1", 2)
	// window-limited sender: writes below the MSS that do not fit the room left in the peer's window
	add(base+",mss=536,pwnd=1000,w=400+400+400+300,pd=,b=1", 2)
	add(base+",mss=100,pwnd=150,w=60+60+60+60+200,pd=,b=1", 2)
	// a peer that overruns the advertised window: a segment straddling the right edge
	add("or=s,devs=o,mss=1460,rcvbuf=200,pd=150+100+100,read=eager,b=1", 1)
	add("or=s,devs=o,mss=1460,rcvbuf=200,pd=150+100+100,read=stall,b=1", 1)
	// peer segments that arrive two at a time (one handleSegments batch), in and out of order
	add("or=s,devs=gko,mss=24,w=48,pd=4x20,psack=1,sack=1,b=1", 2)
	if tier == "thorough" {
		add("or=s,devs=gkoe,mss=24,w=48,pd=4x20,psack=1,sack=1,ts=1,b=2", 32)
		add(base+",mss=24,w=72,pd=3x20,v6=1,mtu=1280,b=1", 2)
		add(base+",mss=24,w=48,pd=2x20,b=2", 16)
		add(base+",mss=24,w=48,pd=2x20,ts=1,psack=1,sack=1,b=2", 16)
		add(base+",mss=24,w=48,iss=2147483640,piss=4294967280,pd=2x20,b=2", 16)
		add(base+",mss=100,w=3x100,pd=,b=2,ws=2", 16)
		add(base+",mss=24,w=72,pd=3x20,b=2", 32)
		add(base+",mss=24,w=3x24,pd=3x20,psack=1,sack=1,ts=1,b=2", 32)
		add(base+",mss=536,w=1400,pd=2x300,b=2", 32)
		add("or=s,devs=kwhloe,mss=24,w=72,pd=3x20,psack=1,sack=1,b=2", 32)
		add(base+",mss=24,w=48,pd=20,b=3", 32)
		add(base+",mss=24,w=48,iss=4294967270,piss=2147483640,pd=20,b=3", 32)
	} else {
		add(base+",mss=24,w=48,pd=20,b=2", 8)
	}
	return jobs
}

func rawRunJob(r *engine.Result, job string, deadline time.Time) *engine.Result {
	var i, n int
	parts := strings.SplitN(job, ":", 3)
	fmt.Sscanf(parts[1], "%d/%d", &i, &n)
	cfg := ParseRawCfg(parts[2])
	st := engine.ExploreEnv(job, func(prefix []int) *engine.EnvRun { return RunRaw(cfg, prefix) }, engine.EnvCfg{Budget: cfg.Budget, Deadline: deadline, ShardI: i, ShardN: n})
	st.Into(r)
	r.Bound = fmt.Sprintf("deviation budget %d", cfg.Budget)
	r.Recycle = runtime.NumGoroutine() > 100
	return r
}

func rawReplay(er engine.EnvReplay) *engine.Violation {
	parts := strings.SplitN(er.Job, ":", 3)
	return RunRaw(ParseRawCfg(parts[2]), er.Choices).Violation
}
