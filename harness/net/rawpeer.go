package main

import (
	"time"

	"verif/engine"
)

// placeholder until the raw peer is built
func rawJobsC01(tier string) []string                                           { return nil }
func rawRunJob(r *engine.Result, job string, deadline time.Time) *engine.Result { return r }
func rawReplay(er engine.EnvReplay) *engine.Violation                           { return nil }
