package main

import (
	"fmt"

	tcpip "github.com/brewlin/net-protocol/protocol"
	"github.com/brewlin/net-protocol/protocol/network/ipv4"
	"github.com/brewlin/net-protocol/protocol/transport/tcp"

	"verif/ref"
)

// C14, TCP half, far from the last loss event: the sender's NewReno "recover" marker stays
// where the last loss event (or the initial sequence number) put it. After more than 2^31
// bytes without a loss it is "ahead" of every acknowledgement in serial-number arithmetic.
// The stack sends `total` bytes to a raw peer that acknowledges everything, then one flight of
// five segments whose first is lost: three duplicate ACKs must bring the fast retransmission
// (C05's rule) no matter how far the sequence numbers have moved.
func c14FarRecover(total uint64) string {
	r := NewRaw(false, 65535)
	ScriptRand(1, 2, 3)
	defer func() {
		r.n.S.RemoveAddress(1, addrA4)
		r.n.S.RemoveAddress(1, addrA6)
		r.w.Settle()
	}()
	trim := func() {
		r.w.mu.Lock()
		r.w.All = nil
		r.w.mu.Unlock()
	}
	sk := r.n.NewSock(tcp.ProtocolNumber, ipv4.ProtocolNumber)
	defer sk.EP.Close()
	if err := sk.EP.Connect(tcpip.FullAddress{Addr: addrB4, Port: peerPort}); err != nil && err != tcpip.ErrConnectStarted {
		return "connect: " + err.String()
	}
	r.w.Settle()
	var syn *ref.TCP
	for _, d := range r.Collect() {
		if d != nil && d.TCP != nil && d.TCP.Flags&ref.SYN != 0 {
			syn = d.TCP
		}
	}
	if syn == nil {
		return "no SYN"
	}
	const piss = 7000
	const mss = 32768
	sport := syn.SrcPort
	r.SendTCP(peerPort, sport, piss, syn.Seq+1, ref.SYN|ref.ACK, 65535, ref.PadOpts(ref.OptMSS(mss), ref.OptWS(14)), nil)
	r.Collect()
	iss := syn.Seq
	acked := iss + 1 // peer's cumulative ACK
	sent := uint64(0)
	chunk := make([]byte, 1<<20)
	for i := range chunk {
		chunk[i] = byte(i * 13)
	}
	ackTo := func(a uint32) { r.SendTCP(peerPort, sport, piss+1, a, ref.ACK, 65535, nil, nil) }
	// drain: acknowledge every data segment as it comes (highest end seen)
	drain := func() int {
		n := 0
		for {
			fr := r.Collect()
			trim()
			if len(fr) == 0 {
				return n
			}
			hi := acked
			for _, d := range fr {
				if d == nil || d.TCP == nil || len(d.TCP.Payload) == 0 {
					continue
				}
				n++
				if e := d.TCP.Seq + uint32(len(d.TCP.Payload)); ref.SeqLT(hi, e) {
					hi = e
				}
			}
			if hi != acked {
				acked = hi
				ackTo(acked)
			} else {
				return n
			}
		}
	}
	for sent < total {
		wrote, _, err := sk.EP.Write(tcpip.SlicePayload(chunk), tcpip.WriteOptions{})
		if err != nil && err != tcpip.ErrWouldBlock {
			return fmt.Sprintf("write after %d bytes: %v", sent, err)
		}
		sent += uint64(wrote)
		r.w.Settle()
		if drain() == 0 && wrote == 0 {
			return fmt.Sprintf("the transfer stopped after %d bytes: nothing written, nothing emitted", sent)
		}
	}
	for drain() > 0 {
	}
	if uint64(acked-iss-1) != sent&0xffffffff {
		return fmt.Sprintf("after %d bytes the peer has acknowledged up to +%d", sent, acked-iss-1)
	}
	// one more flight of five segments, the first is lost
	flight := make([]byte, 5*1000)
	if _, _, err := sk.EP.Write(tcpip.SlicePayload(flight[:1000]), tcpip.WriteOptions{}); err != nil {
		return "write: " + err.String()
	}
	for k := 1; k < 5; k++ {
		sk.EP.Write(tcpip.SlicePayload(flight[k*1000:(k+1)*1000]), tcpip.WriteOptions{})
	}
	r.w.Settle()
	segs := 0
	for _, d := range r.Collect() {
		if d != nil && d.TCP != nil && len(d.TCP.Payload) > 0 {
			segs++
		}
	}
	trim()
	if segs < 4 {
		return fmt.Sprintf("only %d segments of the last flight were sent", segs)
	}
	for k := 0; k < 3; k++ {
		ackTo(acked) // duplicate ACKs: segments 2..4 arrived, the first did not
	}
	for _, d := range r.Collect() {
		if d != nil && d.TCP != nil && len(d.TCP.Payload) > 0 && d.TCP.Seq == acked {
			return ""
		}
	}
	return fmt.Sprintf("after %d bytes (sequence numbers %d beyond the initial one) without a loss, three duplicate ACKs for +%d brought no fast retransmission of the earliest unacknowledged segment: the connection falls back to the retransmission timeout", sent, sent, acked-iss-1)
}

// c14FarRx: the receive direction. The raw peer sends `total` bytes in 32 KiB segments (every
// 64th pair swapped, so the out-of-order queue and the SACK list are used all the way); the
// application reads as data arrives. The bytes read must be exactly the bytes sent, in order,
// and every cumulative ACK must equal what has arrived in order.
func c14FarRx(total uint64) string {
	r := NewRaw(false, 65535)
	ScriptRand(1, 2, 3)
	defer func() {
		r.n.S.RemoveAddress(1, addrA4)
		r.n.S.RemoveAddress(1, addrA6)
		r.w.Settle()
	}()
	trim := func() {
		r.w.mu.Lock()
		r.w.All = nil
		r.w.mu.Unlock()
	}
	must(r.n.S.SetTransportProtocolOption(tcp.ProtocolNumber, tcp.SACKEnabled(true)))
	ls := r.n.NewSock(tcp.ProtocolNumber, ipv4.ProtocolNumber)
	defer ls.EP.Close()
	must(ls.EP.Bind(tcpip.FullAddress{Port: stackPort}, nil))
	must(ls.EP.Listen(1))
	const piss = uint32(4294900000) // the peer's numbers wrap early and again after 2^32 bytes
	r.SendTCP(peerPort, stackPort, piss, 0, ref.SYN, 65535, ref.PadOpts(ref.OptMSS(32768), ref.OptWS(7), ref.OptSACKPerm()), nil)
	var iss uint32
	ok := false
	for _, d := range r.Collect() {
		if d != nil && d.TCP != nil && d.TCP.Flags == ref.SYN|ref.ACK {
			iss, ok = d.TCP.Seq, true
		}
	}
	if !ok {
		return "no SYN-ACK"
	}
	r.SendTCP(peerPort, stackPort, piss+1, iss+1, ref.ACK, 65535, nil, nil)
	r.Collect()
	ep, _, err := ls.EP.Accept()
	if err != nil {
		return "accept: " + err.String()
	}
	defer ep.Close()
	const seg = 32768
	buf := make([]byte, seg)
	fill := func(off uint64) []byte {
		for i := 0; i < seg; i += 8 {
			v := off + uint64(i)
			buf[i], buf[i+1], buf[i+2], buf[i+3], buf[i+4], buf[i+5], buf[i+6], buf[i+7] = byte(v>>56), byte(v>>48), byte(v>>40), byte(v>>32), byte(v>>24), byte(v>>16), byte(v>>8), byte(v)
		}
		return buf
	}
	var read uint64
	drain := func() string {
		for {
			v, _, err := ep.Read(nil)
			if err != nil {
				return ""
			}
			for i := 0; i+8 <= len(v); i += 8 {
				want := read + uint64(i)
				if (read+uint64(i))%8 == 0 {
					got := uint64(v[i])<<56 | uint64(v[i+1])<<48 | uint64(v[i+2])<<40 | uint64(v[i+3])<<32 | uint64(v[i+4])<<24 | uint64(v[i+5])<<16 | uint64(v[i+6])<<8 | uint64(v[i+7])
					if got != want {
						return fmt.Sprintf("byte %d of the stream read by the application is not byte %d of what the peer sent (found the marker of offset %d)", want, want, got)
					}
				}
			}
			read += uint64(len(v))
		}
	}
	send := func(off uint64) {
		r.SendTCP(peerPort, stackPort, piss+1+uint32(off), iss+1, ref.ACK|ref.PSH, 65535, nil, fill(off))
	}
	lastAck := func() (uint32, bool) {
		var a uint32
		seen := false
		for _, d := range r.Collect() {
			if d != nil && d.TCP != nil && d.TCP.Flags&ref.ACK != 0 {
				a, seen = d.TCP.Ack, true
			}
		}
		trim()
		return a, seen
	}
	var off uint64
	for k := 0; off < total; k++ {
		if k%64 == 63 && off+2*seg <= total {
			send(off + seg) // out of order: the next one first
			lastAck()
			send(off)
			off += 2 * seg
		} else {
			send(off)
			off += seg
		}
		a, seen := lastAck()
		if m := drain(); m != "" {
			return m
		}
		if seen && a != piss+1+uint32(off) {
			return fmt.Sprintf("after %d bytes arrived in order the stack acknowledges %d (expected %d)", off, a, piss+1+uint32(off))
		}
		if read != off {
			return fmt.Sprintf("%d bytes arrived in order, the application could read %d", off, read)
		}
	}
	return ""
}
