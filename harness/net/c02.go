package main

import (
	"encoding/json"
	"fmt"
	"runtime"
	"strings"
	"time"

	"verif/engine"
)

// C02: transfers complete, connections close in order, nothing stalls silently. Same
// two-stack world as C01(a); deviations are frame drops (any single frame, any pair) and
// early timers; liveness is decided exactly because time is virtual: at the end of every
// execution the world is idle, and an endpoint that still has unsent/unacknowledged data
// or FIN without being in the error state is a stall.

func init() {
	engine.Register(&engine.Check{
		ID:        "C02",
		Technique: "stateless model checking of two real stacks in a deterministic world: DFS over all histories that drop any single frame / any pair of frames (and fire timers early) within the deviation budget, run to the idle horizon in virtual time; liveness decided exactly by inspecting the idle end state",
		Rule:      "every history of each close scenario (one-sided shutdown, simultaneous shutdown, half-close then reply, accepting side speaks first, close with unread data, receiver stalls until the window closes then drains) x payload sizes {0, 1 segment, 3 segments, more than the receive window} in which the environment drops up to <budget> frames of the exchange (handshake, data, ACK, window update, FIN), fires a timer early, or (three configurations) reorders / duplicates a frame; distinct = distinct choice sequence; non-trivial = at least one deviation",
		Assumes: []string{
			"horizon: until nothing is in flight, no application call is possible and no virtual timer is pending (or 15 virtual minutes)",
			"clean-close clause checked only when no frame was dropped and no timer fired early",
		},
		Jobs:       c02Jobs,
		Run:        c02Run,
		Replay:     c02Replay,
		NeedRepro:  true,
		WorkerJobs: 40,
		DeadlineQ:  150 * time.Second,
		DeadlineT:  25 * time.Minute,
	})
}

func c02Jobs(tier string) []string {
	var jobs []string
	add := func(s string, shards int) {
		for i := 0; i < shards; i++ {
			jobs = append(jobs, fmt.Sprintf("pair:%d/%d:%s", i, shards, s))
		}
	}
	base := "or=c,devs=dt,mtu=76"
	sizes := []string{"aw=", "aw=24", "aw=72"}
	for _, sz := range sizes {
		add(base+",close=a-shut,"+sz+",b=1", 1)
		add(base+",close=both-shut,bw=24,"+sz+",b=1", 1)
		add(base+",close=half,bw=48,"+sz+",b=1", 1)
	}
	add(base+",close=a-shut,aw=600,rcvbuf=200,b=1", 4)
	add(base+",close=none,read=stall,aw=600,rcvbuf=200,b=1", 4)
	// window scaling: the window field reads 0 while one byte of window is left; the reader then
	// drains and the window must be announced again (no frame is lost in this history)
	add("or=c,devs=,mtu=1500,close=none,read=stall,aw=75000,rcvbuf=70001,b=0", 1)
	// the side that half-closed first reads late: the other side, already at end-of-stream for
	// reading, writes more than the window admits and shuts down with data still queued
	add(base+",close=half,read=stall-a,aw=,bw=600,rcvbuf=200,b=1", 4)
	// shutdown while the peer's window is closed: the write fills the window exactly, is
	// acknowledged with window 0, and the FIN must still leave (a FIN needs no window)
	add(base+",close=a-shut,read=stall,aw=200,rcvbuf=200,b=1", 2)
	add(base+",close=both-shut,read=stall,aw=200,bw=50,rcvbuf=200,b=1", 2)
	// the receiver's right edge crosses 2^32 / 2^31 during the transfer (small receive buffer)
	add("or=sc,bw=,close=a-shut,mtu=176,aw=1200,rcvbuf=200,issa=4294966796,b=0", 1)
	add("or=sc,bw=,close=a-shut,mtu=176,aw=1200,rcvbuf=200,issa=2147483148,b=0", 1)
	// the accepting side speaks first: A is silent until it has read B's data, so only the stack's
	// answer to a retransmitted SYN-ACK can repair a lost third handshake segment
	add(base+",close=b-first,bw=24,aw=24,b=1", 1)
	add(base+",close=b-first,bw=24,aw=,b=1", 1)
	// reordering and duplication around the close (a FIN overtaking the last data segment, a
	// duplicated FIN, FINs crossing)
	base2 := "or=c,devs=dfu,mtu=76"
	add(base2+",close=both-shut,bw=24,aw=72,b=1", 2)
	add(base2+",close=a-shut,aw=72,b=1", 1)
	add(base2+",close=half,bw=48,aw=24,b=1", 1)
	add(base+",close=close-unread,aw=72,b=1", 1)
	add(base+",close=a-close,aw=72,b=1", 1)
	if tier == "thorough" {
		for _, sz := range sizes {
			add(base+",close=a-shut,"+sz+",b=2", 8)
			add(base+",close=both-shut,bw=24,"+sz+",b=2", 8)
			add(base+",close=half,bw=48,"+sz+",b=2", 8)
		}
		add(base+",close=none,read=stall,aw=600,rcvbuf=200,b=2", 16)
		add(base+",close=a-shut,aw=600,rcvbuf=200,b=2", 16)
		add(base+",close=both-shut,aw=72,bw=24,sack=1,mtu=100,b=2", 8)
		add(base+",close=both-shut,aw=72,bw=24,issa=4294967200,b=2", 8)
		add("or=c,devs=dt,mtu=1280,v6=1,close=both-shut,aw=3000,bw=1300,b=1", 2)
		add("or=c,devs=dufrat,mtu=76,close=both-shut,aw=48,bw=24,b=1", 2)
	} else {
		add(base+",close=both-shut,bw=24,aw=24,b=2", 8)
	}
	return jobs
}

func c02Run(job, tier string, deadline time.Time) *engine.Result {
	r := &engine.Result{Exhaustive: true}
	var i, n int
	parts := strings.SplitN(job, ":", 3)
	fmt.Sscanf(parts[1], "%d/%d", &i, &n)
	cfg := ParsePairCfg(parts[2])
	st := engine.ExploreEnv(job, func(prefix []int) *engine.EnvRun { return RunPair(cfg, prefix) }, engine.EnvCfg{Budget: cfg.Budget, Deadline: deadline, ShardI: i, ShardN: n})
	st.Into(r)
	r.Bound = fmt.Sprintf("deviation budget %d", cfg.Budget)
	r.Recycle = runtime.NumGoroutine() > 100
	return r
}

func c02Replay(rp json.RawMessage) *engine.Violation {
	var er engine.EnvReplay
	if json.Unmarshal(rp, &er) != nil {
		return nil
	}
	parts := strings.SplitN(er.Job, ":", 3)
	return RunPair(ParsePairCfg(parts[2]), er.Choices).Violation
}
