package main

import (
	"bytes"
	"fmt"
	"sync"
	"sync/atomic"
	"time"

	"github.com/brewlin/net-protocol/pkg/waiter"
	tcpip "github.com/brewlin/net-protocol/protocol"
	"github.com/brewlin/net-protocol/protocol/network/ipv4"
	"github.com/brewlin/net-protocol/protocol/transport/tcp"

	"verif/engine"
	"verif/shim/vtime"
)

// Free-running pass for the TCP checks: the deterministic worlds of C01/C02 run one
// goroutine at a time (quiescence barrier between steps), so accesses of the application's
// calls (Write, Read, GetSockOpt, Readiness, Shutdown, Close) that race with the protocol
// goroutine are invisible to them. Here two real stacks talk over a forwarding goroutine in
// real time under the race detector while helper goroutines poll the sockets.

func init() {
	engine.AddRace("C01", raceTCP)
	engine.AddRace("C02", raceTCP)
}

func raceTCP(tier string, r *engine.Result) {
	for round := 0; round < raceRounds(tier, 3, 20); round++ {
		raceTCPRound(r, round)
	}
}

func waitFor(wq *waiter.Queue, mask waiter.EventMask, cond func() bool) {
	e, ch := waiter.NewChannelEntry(nil)
	wq.EventRegister(&e, mask)
	defer wq.EventUnregister(&e)
	deadline := time.After(180 * time.Second)
	for !cond() {
		select {
		case <-ch:
		case <-time.After(5 * time.Millisecond):
		case <-deadline:
			panic("verif: free-running TCP transfer made no progress for 180 s")
		}
	}
}

func raceTCPRound(r *engine.Result, round int) {
	w := NewWorld()
	vtime.DisableVirtual()
	defer vtime.EnableVirtual()
	a := w.AddNode(NodeCfg{Name: "A", V4: []tcpip.Address{addrA4}, MTU: 1500})
	b := w.AddNode(NodeCfg{Name: "B", V4: []tcpip.Address{addrB4}, MTU: 1500})
	stop := make(chan struct{})
	var fwd sync.WaitGroup
	var frames int64
	fwd.Add(1)
	go func() {
		defer fwd.Done()
		for {
			fl := w.InFlight()
			for _, f := range fl {
				w.Take(f)
				to := b
				if f.From == b {
					to = a
				}
				p := to.Ports[1]
				p.disp.DeliverNetworkPacket(p, f.SrcMAC, f.DstMAC, f.Proto, chunked(f.Data))
				atomic.AddInt64(&frames, 1)
			}
			if len(fl) == 0 {
				select {
				case <-stop:
					return
				case <-time.After(50 * time.Microsecond):
				}
			}
		}
	}()
	ls := b.NewSock(tcp.ProtocolNumber, ipv4.ProtocolNumber)
	must(ls.EP.Bind(tcpip.FullAddress{Port: 8080}, nil))
	must(ls.EP.Listen(4))
	cs := a.NewSock(tcp.ProtocolNumber, ipv4.ProtocolNumber)
	if err := cs.EP.Connect(tcpip.FullAddress{Addr: addrB4, Port: 8080}); err != nil && err != tcpip.ErrConnectStarted {
		panic("verif: connect: " + err.String())
	}
	var srv tcpip.Endpoint
	var swq *waiter.Queue
	waitFor(ls.WQ, waiter.EventIn, func() bool {
		ep, q, err := ls.EP.Accept()
		if err == nil {
			srv, swq = ep, q
			return true
		}
		return false
	})
	waitFor(cs.WQ, waiter.EventOut, func() bool { return cs.EP.Readiness(waiter.EventOut) != 0 })
	total := 150000 + 7777*round
	data := pattern(byte(round+1), total, 0)
	back := pattern(byte(round+9), 20000, 0)
	var wg sync.WaitGroup
	var polls int64
	pollStop := make(chan struct{})
	for _, ep := range []tcpip.Endpoint{cs.EP, srv} {
		ep := ep
		wg.Add(1)
		go func() { // what an event loop / monitoring thread does next to the transfer
			defer wg.Done()
			for {
				select {
				case <-pollStop:
					return
				default:
				}
				var sq tcpip.SendQueueSizeOption
				var rq tcpip.ReceiveQueueSizeOption
				var sb tcpip.SendBufferSizeOption
				ep.GetSockOpt(&sq)
				ep.GetSockOpt(&rq)
				ep.GetSockOpt(&sb)
				ep.GetSockOpt(tcpip.ErrorOption{})
				ep.Readiness(waiter.EventIn | waiter.EventOut)
				ep.GetLocalAddress()
				ep.GetRemoteAddress()
				k := atomic.LoadInt64(&polls)
				ep.SetSockOpt(tcpip.NoDelayOption(int(k/7) % 2))
				if (k/7)%50 == 0 {
					ep.SetSockOpt(tcpip.ReceiveBufferSizeOption(40000 + int(k/7)%3*20000))
					ep.SetSockOpt(tcpip.KeepaliveEnabledOption(int(k/350) % 2))
				}
				atomic.AddInt64(&polls, 7)
				time.Sleep(20 * time.Microsecond)
			}
		}()
	}
	send := func(ep tcpip.Endpoint, wq *waiter.Queue, buf []byte) {
		for len(buf) > 0 {
			n := 4000
			if n > len(buf) {
				n = len(buf)
			}
			var wrote uintptr
			waitFor(wq, waiter.EventOut, func() bool {
				k, _, err := ep.Write(tcpip.SlicePayload(append([]byte(nil), buf[:n]...)), tcpip.WriteOptions{})
				if err == tcpip.ErrWouldBlock {
					return false
				}
				if err != nil {
					panic("verif: write: " + err.String())
				}
				wrote = k
				return true
			})
			buf = buf[wrote:]
		}
		if err := ep.Shutdown(tcpip.ShutdownWrite); err != nil {
			panic("verif: shutdown: " + err.String())
		}
	}
	recv := func(ep tcpip.Endpoint, wq *waiter.Queue) []byte {
		var got []byte
		eof := false
		for !eof {
			waitFor(wq, waiter.EventIn, func() bool {
				v, _, err := ep.Read(nil)
				switch err {
				case nil:
					got = append(got, v...)
					return true
				case tcpip.ErrWouldBlock:
					return false
				case tcpip.ErrClosedForReceive:
					eof = true
					return true
				}
				panic("verif: read: " + err.String())
			})
		}
		return got
	}
	var gotB, gotA []byte
	var tw sync.WaitGroup
	tw.Add(4)
	go func() { defer tw.Done(); send(cs.EP, cs.WQ, data) }()
	go func() { defer tw.Done(); send(srv, swq, back) }()
	go func() { defer tw.Done(); gotB = recv(srv, swq) }()
	go func() { defer tw.Done(); gotA = recv(cs.EP, cs.WQ) }()
	tw.Wait()
	close(pollStop)
	wg.Wait()
	if !bytes.Equal(gotB, data) || !bytes.Equal(gotA, back) {
		panic(fmt.Sprintf("verif: free-running TCP transfer delivered %d/%d and %d/%d bytes, or different bytes", len(gotB), len(data), len(gotA), len(back)))
	}
	cs.EP.Close()
	srv.Close()
	ls.EP.Close()
	time.Sleep(20 * time.Millisecond)
	close(stop)
	fwd.Wait()
	a.S.RemoveAddress(1, addrA4)
	b.S.RemoveAddress(1, addrB4)
	raceDoneNet(r, atomic.LoadInt64(&frames)+atomic.LoadInt64(&polls), fmt.Sprintf("tcp: two stacks, %d bytes one way and 20000 the other in 4000-byte writes, concurrent readers, 2 goroutines polling socket options / readiness / addresses, half-close both ways, close", total))
}
