package main

import (
	"fmt"

	tcpip "github.com/brewlin/net-protocol/protocol"
	"github.com/brewlin/net-protocol/protocol/network/ipv4"
	"github.com/brewlin/net-protocol/protocol/network/ipv6"
	"github.com/brewlin/net-protocol/protocol/transport/udp"
)

// C06 "addresses and ports are those of the socket": a UDP socket in each state (unbound,
// bound, connected to B:5300) writes with and without an explicit destination (the connected
// peer, the same host on another port, another address); the datagram on the wire carries the
// destination that was asked for - the explicit one, else the connected peer - and the socket's
// own source address and port.
func c06SendTo(v6 bool) []string {
	var out []string
	netp, aAddr, bAddr, other := tcpip.NetworkProtocolNumber(ipv4.ProtocolNumber), addrA4, addrB4, tcpip.Address("\x0a\x00\x00\x63")
	if v6 {
		netp, aAddr, bAddr, other = ipv6.ProtocolNumber, addrA6, addrB6, tcpip.Address("\xfd\x00\x00\x00\x00\x00\x00\x00\x00\x00\x00\x00\x00\x00\x00\x63")
	}
	type dest struct {
		name string
		to   *tcpip.FullAddress
	}
	dests := []dest{
		{"no destination", nil},
		{"the connected peer B:5300", &tcpip.FullAddress{Addr: bAddr, Port: 5300}},
		{"the same host, port 5311", &tcpip.FullAddress{Addr: bAddr, Port: 5311}},
		{"another address, port 5300", &tcpip.FullAddress{Addr: other, Port: 5300}},
		{"another address, port 5322", &tcpip.FullAddress{Addr: other, Port: 5322}},
	}
	for _, state := range []string{"unbound", "bound", "connected", "bound+connected"} {
		for _, d := range dests {
			c := c11NewWorld()
			sk := c.a.NewSock(udp.ProtocolNumber, netp).EP
			srcPort := uint16(0)
			if state == "bound" || state == "bound+connected" {
				must(sk.Bind(tcpip.FullAddress{Port: c11SendPort}, nil))
				srcPort = c11SendPort
			}
			connected := state == "connected" || state == "bound+connected"
			if connected {
				must(sk.Connect(tcpip.FullAddress{Addr: bAddr, Port: 5300}))
			}
			what := fmt.Sprintf("UDP socket (%s, v6=%v) writes to %s", state, v6, d.name)
			_, _, err := sk.Write(tcpip.SlicePayload([]byte("to-whom")), tcpip.WriteOptions{To: d.to})
			c.w.Settle()
			wantAddr, wantPort := tcpip.Address(""), uint16(0)
			switch {
			case d.to != nil:
				wantAddr, wantPort = d.to.Addr, d.to.Port
			case connected:
				wantAddr, wantPort = bAddr, 5300
			}
			fl := c.w.InFlight()
			for _, f := range fl {
				c.w.Take(f)
			}
			switch {
			case wantPort == 0:
				if err == nil || len(fl) > 0 {
					out = append(out, fmt.Sprintf("%s: no destination is known, yet the write returned %v and %d packet(s) left", what, err, len(fl)))
				}
			case err != nil:
				out = append(out, fmt.Sprintf("%s: write failed: %v", what, err))
			case len(fl) != 1:
				out = append(out, fmt.Sprintf("%s: %d packets were emitted", what, len(fl)))
			default:
				dd, derr := c.mon.Check(fl[0], []tcpip.Address{addrA4, addrA6})
				if derr != nil {
					out = append(out, fmt.Sprintf("%s: malformed frame: %v", what, derr))
				} else if dd.UDP == nil || string(dd.Dst) != string(wantAddr) || dd.UDP.DstPort != wantPort {
					out = append(out, fmt.Sprintf("%s: the datagram on the wire goes to %x port %d, asked for was %x port %d", what, dd.Dst, dd.UDP.DstPort, []byte(wantAddr), wantPort))
				} else if string(dd.Src) != string(aAddr) || (srcPort != 0 && dd.UDP.SrcPort != srcPort) {
					out = append(out, fmt.Sprintf("%s: the datagram carries source %x port %d, the socket is %x port %d", what, dd.Src, dd.UDP.SrcPort, []byte(aAddr), srcPort))
				}
			}
			sk.Close()
			c.close()
		}
	}
	return out
}
