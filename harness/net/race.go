package main

import (
	"bytes"
	"fmt"
	"sync"
	"sync/atomic"

	tcpip "github.com/brewlin/net-protocol/protocol"
	"github.com/brewlin/net-protocol/protocol/network/ipv4"
	"github.com/brewlin/net-protocol/protocol/ports"
	"github.com/brewlin/net-protocol/protocol/transport/udp"

	"verif/engine"
	"verif/ref"
)

// Free-running passes of the net group's scheduler-controlled harnesses (see
// harness/core/race.go for the rationale): real goroutines, pass-through shims, -race build.

func init() {
	engine.AddRace("C11", raceC11)
	engine.AddRace("C09", raceC09)
	engine.AddRace("C10", raceC10)
}

func raceRounds(tier string, q, t int) int {
	if tier == "thorough" {
		return t
	}
	return q
}

// raceC11: two injectors deliver datagrams to one bound socket while two readers drain it.
func raceC11(tier string, r *engine.Result) {
	for round := 0; round < raceRounds(tier, 5, 40); round++ {
		w := NewRaw(false, 1500)
		rcv := w.n.NewSock(udp.ProtocolNumber, ipv4.ProtocolNumber).EP
		must(rcv.Bind(tcpip.FullAddress{Port: c11RecvPort}, nil))
		port := w.n.Ports[1]
		const per = 150
		var wg sync.WaitGroup
		var delivered, read int64
		for g := 0; g < 2; g++ {
			wg.Add(1)
			go func(g int) {
				defer wg.Done()
				for i := 0; i < per; i++ {
					d := c11Data(byte(g*100+i%90), 10+i%40)
					pk := ref.BuildIPv4(w.pAddr, w.sAddr, ref.ProtoUDP, uint16(g*1000+i+1), 0, 0, 64, ref.BuildUDP(uint16(7000+g), c11RecvPort, d, w.pAddr, w.sAddr))
					port.disp.DeliverNetworkPacket(port, "", "", ipv4.ProtocolNumber, chunked(pk))
					atomic.AddInt64(&delivered, 1)
				}
			}(g)
		}
		// ICMP errors for datagrams the socket "sent" arrive while it is being read
		wg.Add(1)
		go func() {
			defer wg.Done()
			for i := 0; i < 40; i++ {
				quoted := ref.BuildIPv4(w.sAddr, w.pAddr, ref.ProtoUDP, uint16(5000+i), 0, 0, 64, ref.BuildUDP(c11RecvPort, 7000, []byte("12345678"), w.sAddr, w.pAddr))
				pk := ref.BuildIPv4(w.pAddr, w.sAddr, ref.ProtoICMP, uint16(6000+i), 0, 0, 64, ref.BuildICMPv4Error(3, 3, 0, quoted[:28]))
				port.disp.DeliverNetworkPacket(port, "", "", ipv4.ProtocolNumber, chunked(pk))
			}
		}()
		stop := make(chan struct{})
		var rg sync.WaitGroup
		for g := 0; g < 2; g++ {
			rg.Add(1)
			go func() {
				defer rg.Done()
				for {
					var from tcpip.FullAddress
					v, _, err := rcv.Read(&from)
					if err == nil {
						if len(v) < 10 || (from.Port != 7000 && from.Port != 7001) || !bytes.Equal(v, c11Data(v[0], len(v))) {
							panic(fmt.Sprintf("verif: free-running UDP read returned %d bytes %x from port %d", len(v), v, from.Port))
						}
						atomic.AddInt64(&read, 1)
						continue
					}
					select {
					case <-stop:
						return
					default:
					}
				}
			}()
		}
		wg.Wait()
		close(stop)
		rg.Wait()
		for {
			if _, _, err := rcv.Read(nil); err != nil {
				break
			}
			read++
		}
		rcv.Close()
		w.n.S.RemoveAddress(1, addrA4)
		w.n.S.RemoveAddress(1, addrA6)
		if read > delivered {
			panic(fmt.Sprintf("verif: %d datagrams read, %d delivered", read, delivered))
		}
		r.Execs++
		r.States += 2
		r.Transitions += delivered + read
		r.Nontrivial++
		r.AddExtra("free_running_ops", delivered+read)
		r.Sample(map[string]interface{}{"free_running_pass": "udp: 2 goroutines delivering 150 datagrams each to one bound socket, 2 readers draining it", "delivered": delivered, "read": read})
	}
}

// raceC09: sockets are bound and closed on port P (wildcard and specific) while two
// goroutines deliver datagrams addressed to A1:P.
func raceC09(tier string, r *engine.Result) {
	for round := 0; round < raceRounds(tier, 5, 40); round++ {
		c := c09NewWorldN(1)
		port := c.r.n.Ports[1]
		var wg sync.WaitGroup
		var ops int64
		for g := 0; g < 2; g++ {
			wg.Add(1)
			go func(g int) {
				defer wg.Done()
				for i := 0; i < 150; i++ {
					payload := []byte(fmt.Sprintf("race-%d-%03d", g, i))
					pk := ref.BuildIPv4([]byte(c09R), []byte(c09A1), ref.ProtoUDP, uint16(g*1000+i+1), 0, 0, 64, ref.BuildUDP(c09Q, c09P, payload, []byte(c09R), []byte(c09A1)))
					port.disp.DeliverNetworkPacket(port, "", "", ipv4.ProtocolNumber, chunked(pk))
					atomic.AddInt64(&ops, 1)
				}
			}(g)
		}
		wg.Add(1)
		go func() {
			defer wg.Done()
			for i := 0; i < 60; i++ {
				spec := c09Menu[i%2] // udp*:P, udpA1:P
				sk := c.r.n.NewSock(udp.ProtocolNumber, ipv4.ProtocolNumber)
				if err := sk.EP.Bind(tcpip.FullAddress{Addr: spec.Local, Port: c09P}, nil); err == nil {
					for {
						v, _, err := sk.EP.Read(nil)
						if err != nil {
							break
						}
						if !bytes.HasPrefix(v, []byte("race-")) {
							panic(fmt.Sprintf("verif: socket read %x", v))
						}
					}
				}
				sk.EP.Close()
				atomic.AddInt64(&ops, 2)
			}
		}()
		wg.Wait()
		for _, a := range []tcpip.Address{addrA4, addrA6, c09A2} {
			c.r.n.S.RemoveAddress(1, a)
		}
		r.Execs++
		r.States += 2
		r.Transitions += ops
		r.Nontrivial++
		r.AddExtra("free_running_ops", ops)
		r.Sample(map[string]interface{}{"free_running_pass": "demux: a goroutine binding / reading / closing wildcard and specific sockets on port P while 2 goroutines deliver 150 datagrams each to A1:P", "operations": ops})
	}
}

func raceC10(tier string, r *engine.Result) {
	for round := 0; round < raceRounds(tier, 10, 100); round++ {
		pm := ports.NewPortManager()
		var wg sync.WaitGroup
		var ops int64
		var held [4]int32 // per tuple: number of goroutines currently holding it (must stay <= 1)
		for g := 0; g < 4; g++ {
			wg.Add(1)
			go func(g int) {
				defer wg.Done()
				for i := 0; i < 300; i++ {
					u := (i + g) % len(c10U)
					tp := c10U[u]
					if _, err := pm.ReservePort(c10Nets[tp.n], c10Trans[tp.t], c10Addrs[tp.a], tp.port); err == nil {
						if atomic.AddInt32(&held[u], 1) > 1 {
							panic("verif: the same reservation was granted to two goroutines at once")
						}
						pm.IsPortAvailable(c10Nets[tp.n], c10Trans[tp.t], c10Addrs[tp.a], tp.port)
						atomic.AddInt32(&held[u], -1)
						pm.ReleasePort(c10Nets[tp.n], c10Trans[tp.t], c10Addrs[tp.a], tp.port)
					}
					if i%7 == 0 {
						if p, err := pm.ReservePort(c10Nets[0], c10Trans[0], c10Addrs[0], 0); err == nil {
							pm.ReleasePort(c10Nets[0], c10Trans[0], c10Addrs[0], p)
						}
					}
					atomic.AddInt64(&ops, 3)
				}
			}(g)
		}
		wg.Wait()
		raceDoneNet(r, ops, "ports: 4 goroutines reserving / querying / releasing the 4 mutually conflicting tuples and ephemeral ports")
	}
}

func raceDoneNet(r *engine.Result, ops int64, what string) {
	r.Execs++
	r.States += 2
	r.Transitions += ops
	r.Nontrivial++
	r.AddExtra("free_running_ops", ops)
	r.Sample(map[string]interface{}{"free_running_pass": what, "operations": ops})
}
