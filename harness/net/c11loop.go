package main

import (
	"bytes"
	"fmt"
	"strings"

	tcpip "github.com/brewlin/net-protocol/protocol"
	"github.com/brewlin/net-protocol/protocol/link/loopback"
	"github.com/brewlin/net-protocol/protocol/network/ipv4"
	"github.com/brewlin/net-protocol/protocol/network/ipv6"
	"github.com/brewlin/net-protocol/protocol/transport/udp"
)

// C11 over the repository's loopback link (a link that offloads checksums: the senders leave
// the checksum field empty): datagrams between two sockets of one stack arrive whole, once,
// with the true source, for IPv4, IPv6 and v4-mapped destinations.
func c11Loopback(fam string, n int) *c11Fail {
	w := NewWorld()
	ScriptRand(1, 2, 3)
	node := w.AddNode(NodeCfg{Name: "S", V4: []tcpip.Address{addrA4}, V6: []tcpip.Address{addrA6}, MTU: 1500})
	lo4 := tcpip.Address("\x7f\x00\x00\x01")
	lo6 := tcpip.Address(strings.Repeat("\x00", 15) + "\x01")
	must(node.S.CreateNIC(2, loopback.New()))
	must(node.S.AddAddress(2, ipv4.ProtocolNumber, lo4))
	must(node.S.AddAddress(2, ipv6.ProtocolNumber, lo6))
	node.S.SetRouteTable([]tcpip.Route{
		{Destination: lo4, Mask: tcpip.AddressMask("\xff\xff\xff\xff"), NIC: 2},
		{Destination: lo6, Mask: tcpip.AddressMask(strings.Repeat("\xff", 16)), NIC: 2},
		{Destination: tcpip.Address(strings.Repeat("\x00", 4)), Mask: tcpip.AddressMask(strings.Repeat("\x00", 4)), NIC: 1},
		{Destination: tcpip.Address(strings.Repeat("\x00", 16)), Mask: tcpip.AddressMask(strings.Repeat("\x00", 16)), NIC: 1},
	})
	defer func() {
		for _, a := range []tcpip.Address{addrA4, addrA6} {
			node.S.RemoveAddress(1, a)
		}
		node.S.RemoveAddress(2, lo4)
		node.S.RemoveAddress(2, lo6)
		w.Settle()
	}()
	sendNet, recvNet, dst, src := tcpip.NetworkProtocolNumber(ipv4.ProtocolNumber), tcpip.NetworkProtocolNumber(ipv4.ProtocolNumber), lo4, lo4
	switch fam {
	case "6":
		sendNet, recvNet, dst, src = ipv6.ProtocolNumber, ipv6.ProtocolNumber, lo6, lo6
	case "m":
		sendNet, dst = ipv6.ProtocolNumber, v4mapped(lo4)
	}
	rcv := node.NewSock(udp.ProtocolNumber, recvNet).EP
	defer rcv.Close()
	must(rcv.Bind(tcpip.FullAddress{Port: c11RecvPort}, nil))
	snd := node.NewSock(udp.ProtocolNumber, sendNet).EP
	defer snd.Close()
	must(snd.Bind(tcpip.FullAddress{Port: c11SendPort}, nil))
	data := c11Data(byte(n), n)
	what := fmt.Sprintf("loopback family %s, %d bytes", fam, n)
	if _, _, err := snd.Write(tcpip.SlicePayload(append([]byte(nil), data...)), tcpip.WriteOptions{To: &tcpip.FullAddress{Addr: dst, Port: c11RecvPort}}); err != nil {
		return &c11Fail{"loopback-write", what + ": write failed: " + err.String()}
	}
	w.Settle()
	var from tcpip.FullAddress
	v, _, err := rcv.Read(&from)
	if err != nil {
		return &c11Fail{"loopback-not-delivered", what + ": the datagram written to the loopback address was not delivered: Read returned " + err.String()}
	}
	if !bytes.Equal(v, data) {
		return &c11Fail{"loopback-payload", fmt.Sprintf("%s: Read returned %d bytes that differ from what was written", what, len(v))}
	}
	if from.Port != c11SendPort || !bytes.HasSuffix([]byte(from.Addr), []byte(src)) {
		return &c11Fail{"loopback-sender", fmt.Sprintf("%s: reported sender %x port %d, sent from %x port %d", what, []byte(from.Addr), from.Port, []byte(src), c11SendPort)}
	}
	if _, _, err := rcv.Read(nil); err == nil {
		return &c11Fail{"loopback-duplicate", what + ": the datagram was returned twice"}
	}
	return nil
}
