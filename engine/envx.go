package engine

import (
	"encoding/json"
	"fmt"
	"time"
)

// Chooser hands out the environment's choices during one execution: the recorded prefix
// first (a choice out of range is a replay divergence), the default answer 0 afterwards.
type Chooser struct {
	prefix   []int
	Sizes    []int
	Choices  []int
	Costs    []int // cost of each alternative taken (0 for default)
	AltCost  [][]int
	Diverged string
}

func NewChooser(prefix []int) *Chooser { return &Chooser{prefix: prefix} }

// Choose returns the index to take among n alternatives (0 = default). costs[i] is the
// deviation cost of alternative i (costs[0] must be 0); nil means cost 1 for every i>0.
func (c *Chooser) Choose(n int, costs []int) int {
	i := len(c.Choices)
	ch := 0
	if i < len(c.prefix) {
		ch = c.prefix[i]
		if ch < 0 || ch >= n {
			if c.Diverged == "" {
				c.Diverged = fmt.Sprintf("replayed choice %d at point %d but only %d alternatives exist", ch, i, n)
			}
			ch = 0
		}
	}
	c.Sizes = append(c.Sizes, n)
	c.Choices = append(c.Choices, ch)
	if costs == nil {
		costs = make([]int, n)
		for k := 1; k < n; k++ {
			costs[k] = 1
		}
	}
	c.AltCost = append(c.AltCost, costs)
	return ch
}

// Spent is the deviation cost of the choices made so far.
func (c *Chooser) Spent() int {
	s := 0
	for i, ch := range c.Choices {
		s += c.AltCost[i][ch]
	}
	return s
}

// EnvRun is the result of one environment execution.
type EnvRun struct {
	C         *Chooser
	Violation *Violation
	Outcome   uint64
	Steps     int
	States    []uint64 // state hashes at step boundaries (coverage only)
	Trace     []string // action names
	Caps      []string
}

type EnvCfg struct {
	Budget         int
	Deadline       time.Time
	MaxExecs       int64
	ShardI, ShardN int
	SelfTestEvery  int64
}

type EnvStats struct {
	Execs, Steps, Points int64
	States               map[uint64]bool
	Outcomes             map[uint64]bool
	Violations           []Violation
	Exhaustive           bool
	Caps                 []string
	Sample               interface{}
	KnownHits, Unknown   int
	BudgetDone           int
}

// EnvReplay is the replay payload of envx violations.
type EnvReplay struct {
	Job     string   `json:"job"`
	Choices []int    `json:"choices"`
	Trace   []string `json:"trace,omitempty"`
}

// ExploreEnv enumerates every execution whose deviations from the default environment
// answers cost at most cfg.Budget.
func ExploreEnv(job string, run func(prefix []int) *EnvRun, cfg EnvCfg) *EnvStats {
	st := &EnvStats{States: map[uint64]bool{}, Outcomes: map[uint64]bool{}, Exhaustive: true, BudgetDone: cfg.Budget}
	if cfg.ShardN == 0 {
		cfg.ShardN = 1
	}
	// determinism self-test on the default execution
	r1 := run(nil)
	r2 := run(nil)
	if r1.Outcome != r2.Outcome || fmt.Sprint(r1.Trace) != fmt.Sprint(r2.Trace) {
		st.Violations = append(st.Violations, Violation{Kind: "harness-nondeterministic", Key: "nondet", Job: job,
			Detail: fmt.Sprintf("default execution ran twice with different observations:\n%v\n%v", r1.Trace, r2.Trace)})
		st.Exhaustive = false
		return st
	}
	stack := [][]int{nil}
	first := true
	ord := 0
	for len(stack) > 0 {
		prefix := stack[len(stack)-1]
		stack = stack[:len(stack)-1]
		if (cfg.MaxExecs > 0 && st.Execs >= cfg.MaxExecs) || (!cfg.Deadline.IsZero() && time.Now().After(cfg.Deadline)) {
			st.Exhaustive = false
			st.Caps = append(st.Caps, fmt.Sprintf("%s: stopped after %d executions (cap/deadline), %d prefixes unexplored", job, st.Execs, len(stack)+1))
			break
		}
		r := run(prefix)
		if r.C.Diverged != "" {
			st.Violations = append(st.Violations, Violation{Kind: "harness-diverged", Key: "diverged", Job: job, Detail: fmt.Sprintf("%s (prefix %v)", r.C.Diverged, prefix)})
			st.Exhaustive = false
			break
		}
		count := !(first && cfg.ShardI != 0)
		if count {
			st.Execs++
			st.Steps += int64(r.Steps)
			st.Points += int64(len(r.C.Choices))
			for _, h := range r.States {
				if len(st.States) < 1<<20 {
					st.States[h] = true
				}
			}
			if len(st.Outcomes) < 4096 {
				st.Outcomes[r.Outcome] = true
			}
			st.Caps = append(st.Caps, r.Caps...)
			if r.Violation != nil {
				v := *r.Violation
				v.Job = job
				v.Replay, _ = json.Marshal(EnvReplay{Job: job, Choices: r.C.Choices, Trace: r.Trace})
				if IsKnown(v.Property, v.Key) {
					st.KnownHits++
					if st.KnownHits <= 2 {
						st.Violations = append(st.Violations, v)
					}
				} else {
					st.Unknown++
					st.Violations = append(st.Violations, v)
				}
				if st.Unknown >= 6 {
					st.Exhaustive = false
					st.Caps = append(st.Caps, job+": stopped after 6 violations")
					break
				}
			}
			if st.Sample == nil && len(prefix) > 0 {
				tr := r.Trace
				if len(tr) > 40 {
					tr = tr[:40]
				}
				st.Sample = map[string]interface{}{"job": job, "choices": r.C.Choices, "trace": tr}
			}
		}
		// children: deviate at any later point if the budget allows
		spentBefore := make([]int, len(r.C.Choices)+1)
		for i, ch := range r.C.Choices {
			spentBefore[i+1] = spentBefore[i] + r.C.AltCost[i][ch]
		}
		for i := len(r.C.Choices) - 1; i >= len(prefix); i-- {
			for alt := r.C.Sizes[i] - 1; alt >= 1; alt-- {
				if spentBefore[i]+r.C.AltCost[i][alt] > cfg.Budget {
					continue
				}
				if first {
					ord++
					if ord%cfg.ShardN != cfg.ShardI {
						continue
					}
				}
				np := make([]int, i+1)
				copy(np, r.C.Choices[:i])
				np[i] = alt
				stack = append(stack, np)
			}
		}
		first = false
	}
	return st
}

func (st *EnvStats) Into(r *Result) {
	r.Execs += st.Execs
	r.States += int64(len(st.States))
	r.Transitions += st.Steps
	if st.Execs > 1 {
		r.Nontrivial += st.Execs - 1
	}
	for o := range st.Outcomes {
		if len(r.Outcomes) < 4096 {
			r.Outcomes = append(r.Outcomes, o)
		}
	}
	r.Violations = append(r.Violations, st.Violations...)
	if !st.Exhaustive {
		r.Exhaustive = false
	}
	r.Caps = append(r.Caps, st.Caps...)
	if st.Sample != nil {
		r.Sample(st.Sample)
	}
	r.AddExtra("env_executions", st.Execs)
	r.AddExtra("env_choice_points", st.Points)
	r.AddExtra("executions_matching_known_findings", int64(st.KnownHits))
}
