// Package engine holds what all checks share: job distribution over worker processes,
// result merging, violation confirmation (re-run 5x), known findings, evidence files.
package engine

import (
	"bufio"
	"bytes"
	"encoding/json"
	"flag"
	"fmt"
	"hash/fnv"
	"os"
	"os/exec"
	"path/filepath"
	"runtime"
	"sort"
	"strconv"
	"strings"
	"sync"
	"sync/atomic"
	"time"
)

// Violation is one property violation found in one execution.
type Violation struct {
	Property string          `json:"property"`
	Kind     string          `json:"kind"`   // short classifier, e.g. "deadlock", "stream-mismatch"
	Key      string          `json:"key"`    // classification key matched against known findings
	Detail   string          `json:"detail"` // human-readable
	Job      string          `json:"job"`
	Replay   json.RawMessage `json:"replay"` // whatever the check needs to re-run exactly this execution
}

// Result is what a worker returns for one job.
type Result struct {
	Job         string            `json:"job"`
	Execs       int64             `json:"execs"`
	States      int64             `json:"states"`
	Transitions int64             `json:"transitions"`
	Outcomes    []uint64          `json:"outcomes,omitempty"` // hashes of distinct observed outcomes (capped)
	Nontrivial  int64             `json:"nontrivial"`
	Violations  []Violation       `json:"violations,omitempty"`
	Samples     []json.RawMessage `json:"samples,omitempty"`
	Exhaustive  bool              `json:"exhaustive"`
	Bound       string            `json:"bound,omitempty"`
	Extra       map[string]int64  `json:"extra,omitempty"`
	Err         string            `json:"err,omitempty"` // harness error (not a violation)
	Caps        []string          `json:"caps,omitempty"`
	Poisoned    bool              `json:"poisoned,omitempty"` // worker process must not be reused
	Recycle     bool              `json:"recycle,omitempty"`  // worker asks to be replaced by a fresh process (e.g. leaked goroutines)
}

func (r *Result) AddExtra(k string, v int64) {
	if r.Extra == nil {
		r.Extra = map[string]int64{}
	}
	r.Extra[k] += v
}

func (r *Result) Sample(v interface{}) {
	if len(r.Samples) >= 3 {
		return
	}
	b, _ := json.Marshal(v)
	r.Samples = append(r.Samples, b)
}

// Check describes one property check.
type Check struct {
	ID         string
	Technique  string
	Rule       string
	Assumes    []string
	Jobs       func(tier string) []string
	Run        func(job string, tier string, deadline time.Time) *Result
	Replay     func(replay json.RawMessage) *Violation // re-run one recorded execution; nil = did not reproduce
	NeedRepro  bool                                    // violations must reproduce 5/5 to be reported (else harness error)
	Isolated   bool                                    // a dying worker is itself a violation (C07)
	DeadlineQ  time.Duration
	DeadlineT  time.Duration
	MinStates  int64
	WorkerJobs int // recycle worker after this many jobs (0 = never)
	// StuckAfter, if set, makes a worker that reports no progress (engine.Tick) for this long a
	// dead worker: it is killed, the job is re-run alone twice with the same limit, and if it
	// gets stuck there too this is a violation (the code under test blocked the thread that
	// feeds it - a leaked lock, for instance). Only for checks whose executions take
	// milliseconds.
	StuckAfter time.Duration
	// Race, if set, is the free-running pass: the same operations as the scheduled harnesses on
	// real goroutines with pass-through shims, run in a binary built with -race. It guards the
	// one assumption of the cooperative scheduler (every shared access goes through a hooked
	// synchronisation operation); it decides nothing by itself.
	Race func(tier string, r *Result)
}

var registry = map[string]*Check{}

func Register(c *Check) { registry[c.ID] = c }

var progress atomic.Int64

// Tick records that the running job has finished one more execution (heartbeat for StuckAfter).
func Tick() { progress.Add(1) }

var races = map[string]func(string, *Result){}

// AddRace attaches the free-running pass of a check (resolved in Main, so init order does not matter).
func AddRace(id string, f func(tier string, r *Result)) { races[id] = f }

// KnownFinding is an entry of /verif/known_findings.json.
type KnownFinding struct {
	Status   string `json:"status"` // "known" or "fixed"
	Property string `json:"property"`
	ID       string `json:"id"`
	KeyMatch string `json:"key_match"` // prefix match on Violation.Key
	What     string `json:"what"`
	Commit   string `json:"commit,omitempty"`
}

func verifDir() string {
	if d := os.Getenv("VERIF_DIR"); d != "" {
		return d
	}
	return "/verif"
}

func loadKnown() []KnownFinding {
	b, err := os.ReadFile(filepath.Join(verifDir(), "known_findings.json"))
	if err != nil {
		return nil
	}
	var f struct {
		Findings []KnownFinding `json:"findings"`
	}
	if err := json.Unmarshal(b, &f); err != nil {
		fmt.Fprintf(os.Stderr, "known_findings.json: %v\n", err)
		os.Exit(2)
	}
	return f.Findings
}

var knownCache []KnownFinding
var knownLoaded bool

// IsKnown reports whether a violation key matches a recorded known finding.
func IsKnown(property, key string) bool {
	if !knownLoaded {
		knownCache = loadKnown()
		knownLoaded = true
	}
	for _, k := range knownCache {
		if k.Status == "known" && k.Property == property && k.KeyMatch != "" && strings.HasPrefix(key, k.KeyMatch) {
			return true
		}
	}
	return false
}

func Hash(parts ...interface{}) uint64 {
	h := fnv.New64a()
	fmt.Fprint(h, parts...)
	return h.Sum64()
}

// Main is the entry point of every harness binary.
func Main() {
	if len(os.Args) < 2 {
		fmt.Fprintln(os.Stderr, "usage: h <ID> [--tier quick|thorough] [--replay file] [--worker]")
		os.Exit(2)
	}
	id := os.Args[1]
	fs := flag.NewFlagSet(id, flag.ExitOnError)
	tier := fs.String("tier", "quick", "quick|thorough")
	replay := fs.String("replay", "", "replay file")
	worker := fs.Bool("worker", false, "worker mode (jobs on stdin)")
	nproc := fs.Int("j", 0, "worker processes")
	deadlineAt := fs.Int64("deadline", 0, "unix deadline for workers")
	onlyJob := fs.String("job", "", "run a single job in-process and print the result")
	raceJob := fs.Bool("racejob", false, "run the free-running pass in-process (binary built with -race)")
	fs.Parse(os.Args[2:])
	if t := os.Getenv("VERIF_TIER"); t != "" && !flagSet(fs, "tier") {
		*tier = t
	}
	c := registry[id]
	if c == nil {
		fmt.Fprintf(os.Stderr, "unknown check %q\n", id)
		os.Exit(2)
	}
	if f := races[id]; f != nil && c.Race == nil {
		c.Race = f
	}
	switch {
	case *worker:
		workerLoop(c, *tier, time.Unix(*deadlineAt, 0))
	case *raceJob:
		r := &Result{Job: "racepass", Exhaustive: true}
		if c.Race != nil {
			c.Race(*tier, r)
		}
		b, _ := json.Marshal(r)
		fmt.Printf("RESULT %s\n", b)
	case *onlyJob != "":
		r := c.Run(*onlyJob, *tier, time.Now().Add(time.Hour))
		b, _ := json.MarshalIndent(r, "", " ")
		fmt.Println(string(b))
	case *replay != "":
		os.Exit(doReplay(c, *replay))
	default:
		os.Exit(orchestrate(c, *tier, *nproc))
	}
}

func flagSet(fs *flag.FlagSet, name string) bool {
	set := false
	fs.Visit(func(f *flag.Flag) {
		if f.Name == name {
			set = true
		}
	})
	return set
}

func workerLoop(c *Check, tier string, deadline time.Time) {
	in := bufio.NewScanner(os.Stdin)
	in.Buffer(make([]byte, 1<<20), 1<<20)
	out := bufio.NewWriter(os.Stdout)
	var outMu sync.Mutex
	if c.StuckAfter > 0 {
		go func() {
			for {
				<-time.After(2 * time.Second) // not time.Sleep: the net harness' quiescence barrier counts a sleeping goroutine as still moving
				outMu.Lock()
				fmt.Fprintf(out, "BEAT %d\n", progress.Load())
				out.Flush()
				outMu.Unlock()
			}
		}()
	}
	for in.Scan() {
		job := in.Text()
		if job == "" {
			continue
		}
		// write-ahead marker so the parent knows which job killed us
		outMu.Lock()
		fmt.Fprintf(out, "START %s\n", job)
		out.Flush()
		outMu.Unlock()
		var r *Result
		if time.Now().After(deadline) {
			r = &Result{Job: job, Exhaustive: false, Caps: []string{"deadline: job not started"}}
		} else {
			r = c.Run(job, tier, deadline)
		}
		r.Job = job
		b, _ := json.Marshal(r)
		outMu.Lock()
		fmt.Fprintf(out, "RESULT %s\n", b)
		out.Flush()
		outMu.Unlock()
	}
}

type replayFile struct {
	Property string          `json:"property"`
	Kind     string          `json:"kind"`
	Key      string          `json:"key"`
	Detail   string          `json:"detail"`
	Job      string          `json:"job"`
	Replay   json.RawMessage `json:"replay"`
}

func doReplay(c *Check, path string) int {
	b, err := os.ReadFile(path)
	if err != nil {
		fmt.Fprintln(os.Stderr, err)
		return 2
	}
	var rf replayFile
	if err := json.Unmarshal(b, &rf); err != nil {
		fmt.Fprintln(os.Stderr, err)
		return 2
	}
	if c.Replay == nil {
		fmt.Fprintln(os.Stderr, "check has no replay function")
		return 2
	}
	var died struct {
		Job  string `json:"job"`
		Died bool   `json:"died"`
		Tier string `json:"tier"`
	}
	if json.Unmarshal(rf.Replay, &died) == nil && died.Died {
		fmt.Printf("replay: running job %q in-process; the recorded violation is that the process dies\n", died.Job)
		c.Run(died.Job, died.Tier, time.Now().Add(10*time.Minute))
		fmt.Println("replay: job completed, process did not die")
		return 0
	}
	var rp struct {
		RacePass string `json:"racepass"`
	}
	if json.Unmarshal(rf.Replay, &rp) == nil && rp.RacePass != "" {
		bin := os.Getenv("VERIF_RACE_BIN")
		if bin == "" {
			fmt.Println("replay: the recorded violation comes from the free-running -race pass; run ./check " + c.ID + " again (the report is in the replay file's detail)")
			return 0
		}
		r := runRacePass(c, bin, "quick")
		if len(r.Violations) > 0 {
			fmt.Printf("VIOLATION property=%s replay=%s\n  kind=%s key=%s\n  %s\n", c.ID, path, r.Violations[0].Kind, r.Violations[0].Key, firstLines(r.Violations[0].Detail, 40))
			return 1
		}
		fmt.Println("replay: the free-running pass reported nothing this time (it samples schedules)")
		return 0
	}
	v := c.Replay(rf.Replay)
	if v == nil {
		fmt.Println("replay: no violation")
		return 0
	}
	fmt.Printf("replay: VIOLATION kind=%s key=%s\n%s\n", v.Kind, v.Key, v.Detail)
	return 1
}

func orchestrate(c *Check, tier string, nproc int) int {
	start := time.Now()
	dl := c.DeadlineQ
	if tier == "thorough" {
		dl = c.DeadlineT
	}
	if dl == 0 {
		dl = 120 * time.Second
		if tier == "thorough" {
			dl = 20 * time.Minute
		}
	}
	if s := os.Getenv("VERIF_DEADLINE_S"); s != "" {
		if n, err := strconv.Atoi(s); err == nil {
			dl = time.Duration(n) * time.Second
		}
	}
	deadline := start.Add(dl)
	jobs := c.Jobs(tier)
	if nproc <= 0 {
		nproc = runtime.NumCPU()
		if nproc > 16 {
			nproc = 16
		}
	}
	if nproc > len(jobs) {
		nproc = len(jobs)
	}
	jobCh := make(chan string, len(jobs))
	for _, j := range jobs {
		jobCh <- j
	}
	close(jobCh)
	var mu sync.Mutex
	var results []*Result
	var harnessErrs []string
	var wg sync.WaitGroup
	self, _ := os.Executable()
	for w := 0; w < nproc; w++ {
		wg.Add(1)
		go func() {
			defer wg.Done()
			for {
				// (re)start a worker process
				job, ok := <-jobCh
				if !ok {
					return
				}
				pending := []string{job}
				cmd := exec.Command(self, c.ID, "--worker", "--tier", tier, "--deadline", strconv.FormatInt(deadline.Unix(), 10))
				tail := &tailWriter{max: 6000}
				cmd.Stderr = tail
				cmd.Env = append(os.Environ(), "GOMAXPROCS=1")
				if os.Getenv("VERIF_GOMAXPROCS") != "" {
					cmd.Env = append(os.Environ(), "GOMAXPROCS="+os.Getenv("VERIF_GOMAXPROCS"))
				}
				stdin, _ := cmd.StdinPipe()
				stdout, _ := cmd.StdoutPipe()
				if err := cmd.Start(); err != nil {
					mu.Lock()
					harnessErrs = append(harnessErrs, err.Error())
					mu.Unlock()
					return
				}
				rd := bufio.NewReaderSize(stdout, 1<<20)
				done := 0
				current := ""
				died := false
				var lastBeat atomic.Int64 // unix nanos of the last observed progress
				var stuck atomic.Bool
				lastBeat.Store(time.Now().UnixNano())
				stopWatch := make(chan struct{})
				go func() {
					for {
						select {
						case <-stopWatch:
							return
						case <-time.After(2 * time.Second):
						}
						// no progress for StuckAfter (checks that opted in), or - for every check -
						// still no result ten minutes after the deadline every job honours
						if (c.StuckAfter > 0 && time.Since(time.Unix(0, lastBeat.Load())) > c.StuckAfter) || time.Now().After(deadline.Add(10*time.Minute)) {
							stuck.Store(true)
							cmd.Process.Kill()
							return
						}
					}
				}()
				lastN := int64(-1)
				poisoned := false
				recycle := false
				for len(pending) > 0 {
					j := pending[0]
					pending = pending[1:]
					fmt.Fprintln(stdin, j)
					current = j
					gotResult := false
					for !gotResult {
						line, err := rd.ReadString('\n')
						if err != nil {
							died = true
							break
						}
						line = strings.TrimRight(line, "\n")
						if strings.HasPrefix(line, "RESULT ") {
							var r Result
							if e := json.Unmarshal([]byte(line[7:]), &r); e != nil {
								mu.Lock()
								harnessErrs = append(harnessErrs, "bad result line: "+e.Error())
								mu.Unlock()
							} else {
								mu.Lock()
								results = append(results, &r)
								mu.Unlock()
								if r.Poisoned {
									poisoned = true
								}
								if r.Recycle {
									recycle = true
								}
							}
							gotResult = true
						} else if strings.HasPrefix(line, "START ") {
							lastBeat.Store(time.Now().UnixNano())
						} else if strings.HasPrefix(line, "BEAT ") {
							if n, e := strconv.ParseInt(line[5:], 10, 64); e == nil && n != lastN {
								lastN = n
								lastBeat.Store(time.Now().UnixNano())
							}
						} else if line != "" {
							fmt.Fprintln(os.Stderr, "[worker] "+line)
						}
					}
					if died {
						break
					}
					done++
					if poisoned || recycle || (c.WorkerJobs > 0 && done >= c.WorkerJobs) {
						break
					}
					if nj, ok := <-jobCh; ok {
						pending = append(pending, nj)
					}
				}
				close(stopWatch)
				stdin.Close()
				if poisoned {
					cmd.Process.Kill()
				}
				err := cmd.Wait()
				if died {
					msg := fmt.Sprintf("worker process died while running job %q (%v); stderr tail:\n%s", current, err, tail.String())
					if stuck.Load() {
						msg = fmt.Sprintf("worker process made no progress (limit %v, or no result 10 minutes past the deadline) while running job %q and was killed; stderr tail:\n%s", c.StuckAfter, current, tail.String())
					}
					// confirm in isolation: the job must kill a fresh process twice more
					confirmed := 0
					for i := 0; i < 2; i++ {
						if out, dead := runJobIsolated(c, current, tier); dead {
							confirmed++
							msg = fmt.Sprintf("process running job %q dies (fatal error / unrecovered panic / deadlock of all goroutines); output tail:\n%s", current, out)
							if stuck.Load() {
								msg = fmt.Sprintf("process running job %q stops making progress (the thread feeding the code under test is blocked for good: no execution finishes within %v); output tail:\n%s", current, c.StuckAfter, out)
							}
						}
					}
					mu.Lock()
					if confirmed == 2 {
						rp, _ := json.Marshal(map[string]interface{}{"job": current, "died": true, "tier": tier})
						key := "crash:" + crashKey(msg)
						if stuck.Load() {
							key = "stuck:no execution finishes"
						}
						results = append(results, &Result{Job: current, Violations: []Violation{{Property: c.ID, Kind: "worker-died", Key: key, Detail: msg, Job: current, Replay: rp}}})
					} else {
						harnessErrs = append(harnessErrs, fmt.Sprintf("(not reproducible in isolation %d/2) %s", confirmed, msg))
					}
					mu.Unlock()
				} else if tail.Len() > 0 && os.Getenv("VERIF_VERBOSE") != "" {
					fmt.Fprint(os.Stderr, tail.String())
				}
			}
		}()
	}
	wg.Wait()
	if c.Race != nil {
		if bin := os.Getenv("VERIF_RACE_BIN"); bin != "" {
			jobs = append(jobs, "racepass")
			// a tree on which the scheduled exploration has already found a violation that is not a
			// recorded finding is reported as violating anyway; on such a tree the free-running
			// pass may never make progress (a broken transfer retransmits for ever), so it is not run
			unlisted := false
			for _, r := range results {
				for _, v := range r.Violations {
					prop := v.Property
					if prop == "" {
						prop = c.ID
					}
					if !IsKnown(prop, v.Key) {
						unlisted = true
					}
				}
			}
			if unlisted {
				results = append(results, &Result{Job: "racepass", Exhaustive: false, Caps: []string{"free-running race pass not run: the scheduled exploration already found a violation"}})
			} else {
				results = append(results, runRacePass(c, bin, tier))
			}
		}
	}
	return finish(c, tier, start, jobs, results, harnessErrs)
}

func finish(c *Check, tier string, start time.Time, jobs []string, results []*Result, harnessErrs []string) int {
	sort.Slice(results, func(i, j int) bool { return results[i].Job < results[j].Job })
	var tot Result
	tot.Exhaustive = true
	outcomes := map[uint64]bool{}
	extra := map[string]int64{}
	bounds := map[string]int{}
	var viols []Violation
	for _, r := range results {
		tot.Execs += r.Execs
		tot.States += r.States
		tot.Transitions += r.Transitions
		tot.Nontrivial += r.Nontrivial
		for _, o := range r.Outcomes {
			outcomes[o] = true
		}
		if !r.Exhaustive {
			tot.Exhaustive = false
		}
		tot.Caps = append(tot.Caps, r.Caps...)
		for k, v := range r.Extra {
			extra[k] += v
		}
		if r.Bound != "" {
			bounds[r.Bound]++
		}
		if len(tot.Samples) < 4 && len(r.Samples) > 0 {
			tot.Samples = append(tot.Samples, r.Samples[0])
		}
		viols = append(viols, r.Violations...)
		if r.Err != "" {
			harnessErrs = append(harnessErrs, r.Job+": "+r.Err)
		}
	}
	if len(results) < len(jobs) {
		tot.Exhaustive = false
		tot.Caps = append(tot.Caps, fmt.Sprintf("%d of %d jobs returned a result", len(results), len(jobs)))
	}

	// classify violations; replays run like the workers did (one P), so that the order in which
	// goroutines of one step run is the same as in the recorded execution
	runtime.GOMAXPROCS(1)
	known := loadKnown()
	exit := 0
	printedKnown := map[string]bool{}
	reported := map[string]bool{}
	nviol := 0
	os.MkdirAll(filepath.Join(verifDir(), "replays"), 0o755)
	sort.SliceStable(viols, func(i, j int) bool { return len(viols[i].Detail) < len(viols[j].Detail) })
	for _, v := range viols {
		if v.Property == "" {
			v.Property = c.ID
		}
		matched := false
		for _, k := range known {
			if k.Status == "known" && k.Property == v.Property && k.KeyMatch != "" && strings.HasPrefix(v.Key, k.KeyMatch) {
				matched = true
				if !printedKnown[k.ID] {
					printedKnown[k.ID] = true
					fmt.Printf("KNOWN-FINDING: property=%s %s (%s)\n", v.Property, k.What, k.ID)
				}
				extra["known_finding_hits"]++
				break
			}
		}
		if matched {
			continue
		}
		if reported[v.Property+"|"+v.Key] {
			extra["violations_same_key"]++
			continue
		}
		// confirm by re-running
		repro := 0
		tries := 5
		if v.Kind == "hang" {
			tries = 2 // each replay waits for the hang timeout, in a subprocess
		}
		if v.Kind == "worker-died" || v.Kind == "data-race" {
			repro = tries // confirmed in isolation by the orchestrator / a race report is proof by itself
		} else if c.Replay != nil {
			for i := 0; i < tries; i++ {
				if rv := safeReplay(c, v.Replay, v.Kind == "hang"); rv != nil {
					repro++
				}
			}
			if repro < tries && (c.NeedRepro || repro == 0) {
				harnessErrs = append(harnessErrs, fmt.Sprintf("violation %s/%s reproduced only %d/%d times: %s", v.Property, v.Key, repro, tries, v.Detail))
				continue
			}
		}
		reported[v.Property+"|"+v.Key] = true
		nviol++
		if nviol > 20 {
			continue
		}
		path := filepath.Join(verifDir(), "replays", fmt.Sprintf("%s-%016x.json", v.Property, Hash(v.Key, v.Detail, string(v.Replay))))
		rf := replayFile{Property: v.Property, Kind: v.Kind, Key: v.Key, Detail: v.Detail, Job: v.Job, Replay: v.Replay}
		b, _ := json.MarshalIndent(rf, "", " ")
		os.WriteFile(path, b, 0o644)
		fmt.Printf("VIOLATION property=%s replay=%s\n", v.Property, path)
		fmt.Printf("  kind=%s key=%s reproduced=%d/%d\n  %s\n", v.Kind, v.Key, repro, tries, firstLines(v.Detail, 12))
		exit = 1
	}

	// vacuity guards
	if len(harnessErrs) == 0 && exit == 0 {
		if tot.States < 2 || tot.Transitions < 1 {
			harnessErrs = append(harnessErrs, fmt.Sprintf("vacuous run: states=%d transitions=%d", tot.States, tot.Transitions))
		}
		if c.MinStates > 0 && tot.States < c.MinStates && tot.Exhaustive {
			harnessErrs = append(harnessErrs, fmt.Sprintf("vacuous run: states=%d < %d", tot.States, c.MinStates))
		}
	}

	ev := map[string]interface{}{
		"property_id": c.ID,
		"tier":        tier,
		"seed":        seed(),
		"level":       "model_checking",
		"wall_s":      time.Since(start).Seconds(),
		"violations":  nviol,
		"assumptions": c.Assumes,
		"coverage": map[string]interface{}{
			"states":                        tot.States,
			"transitions":                   tot.Transitions,
			"traces_validated_against_impl": tot.Execs,
			"evaluations":                   tot.Execs,
			"distinct_nontrivial":           tot.Nontrivial,
			"distinct_outcomes":             len(outcomes),
			"rule":                          c.Rule,
			"technique":                     c.Technique,
			"samples":                       samplesOrPlaceholder(tot.Samples),
			"exhaustive":                    tot.Exhaustive && len(harnessErrs) == 0,
			"caps_hit":                      capList(tot.Caps),
			"jobs":                          len(jobs),
			"jobs_completed":                len(results),
			"bounds_completed":              bounds,
			"counters":                      extra,
			"known_findings_printed":        keys(printedKnown),
			"harness_errors":                harnessErrs,
		},
	}
	os.MkdirAll(filepath.Join(verifDir(), "evidence"), 0o755)
	b, _ := json.MarshalIndent(ev, "", " ")
	if err := os.WriteFile(filepath.Join(verifDir(), "evidence", c.ID+".json"), append(b, '\n'), 0o644); err != nil {
		fmt.Fprintln(os.Stderr, "evidence:", err)
		return 2
	}
	fmt.Printf("%s tier=%s jobs=%d execs=%d states=%d transitions=%d distinct_outcomes=%d nontrivial=%d exhaustive=%v wall=%.1fs\n",
		c.ID, tier, len(jobs), tot.Execs, tot.States, tot.Transitions, len(outcomes), tot.Nontrivial, tot.Exhaustive, time.Since(start).Seconds())
	if len(tot.Caps) > 0 {
		fmt.Printf("  caps: %s\n", strings.Join(capList(tot.Caps), "; "))
	}
	if len(harnessErrs) > 0 {
		for _, e := range harnessErrs {
			fmt.Fprintf(os.Stderr, "HARNESS-ERROR %s: %s\n", c.ID, firstLines(e, 30))
		}
		if exit == 0 {
			return 2
		}
	}
	return exit
}

func safeReplay(c *Check, rp json.RawMessage, isolate bool) (v *Violation) {
	// replays of crashing executions run in a subprocess so that a panic in a stack
	// goroutine cannot take the orchestrator down
	if c.Isolated || isolate {
		self, _ := os.Executable()
		f, _ := os.CreateTemp("", "verif-replay-*.json")
		b, _ := json.Marshal(replayFile{Property: c.ID, Replay: rp})
		f.Write(b)
		f.Close()
		defer os.Remove(f.Name())
		cmd := exec.Command(self, c.ID, "--replay", f.Name())
		out, err := cmd.CombinedOutput()
		if err == nil {
			return nil
		}
		return &Violation{Property: c.ID, Kind: "replay", Detail: string(out)}
	}
	defer func() {
		if r := recover(); r != nil {
			v = &Violation{Property: c.ID, Kind: "panic-in-replay", Detail: fmt.Sprint(r)}
		}
	}()
	return c.Replay(rp)
}

func seed() int {
	n, _ := strconv.Atoi(os.Getenv("VERIF_SEED"))
	return n
}

func samplesOrPlaceholder(s []json.RawMessage) []json.RawMessage {
	if len(s) == 0 {
		return []json.RawMessage{json.RawMessage(`"(no sample recorded)"`)}
	}
	return s
}

func keys(m map[string]bool) []string {
	r := []string{}
	for k := range m {
		r = append(r, k)
	}
	sort.Strings(r)
	return r
}

func uniq(s []string) []string {
	m := map[string]bool{}
	var r []string
	for _, x := range s {
		if !m[x] {
			m[x] = true
			r = append(r, x)
		}
	}
	return r
}

func firstLines(s string, n int) string {
	l := strings.Split(s, "\n")
	if len(l) > n {
		l = append(l[:n], "...")
	}
	return strings.Join(l, "\n  ")
}

func capList(c []string) []string {
	u := uniq(c)
	if u == nil {
		return []string{}
	}
	if len(u) > 8 {
		n := len(u) - 8
		u = append(u[:8:8], fmt.Sprintf("... and %d more", n))
	}
	return u
}

func mustJSON(v interface{}) json.RawMessage {
	b, err := json.Marshal(v)
	if err != nil {
		panic(err)
	}
	return b
}

// MustJSON marshals v (panics on error).
func MustJSON(v interface{}) json.RawMessage { return mustJSON(v) }

type tailWriter struct {
	mu  sync.Mutex
	buf []byte
	max int
}

func (t *tailWriter) Write(p []byte) (int, error) {
	t.mu.Lock()
	t.buf = append(t.buf, p...)
	if len(t.buf) > 2*t.max {
		t.buf = append([]byte(nil), t.buf[len(t.buf)-t.max:]...)
	}
	t.mu.Unlock()
	return len(p), nil
}
func (t *tailWriter) Len() int { t.mu.Lock(); defer t.mu.Unlock(); return len(t.buf) }
func (t *tailWriter) String() string {
	t.mu.Lock()
	defer t.mu.Unlock()
	b := t.buf
	if len(b) > t.max {
		b = b[len(b)-t.max:]
	}
	return string(b)
}

// runJobIsolated runs one job in a fresh process; dead=true if the process did not exit 0.
func runJobIsolated(c *Check, job, tier string) (string, bool) {
	self, _ := os.Executable()
	cmd := exec.Command(self, c.ID, "--job", job, "--tier", tier)
	cmd.Env = append(os.Environ(), "GOMAXPROCS=1")
	tail := &tailWriter{max: 3000}
	cmd.Stderr = tail
	cmd.Stdout = nil
	done := make(chan error, 1)
	if err := cmd.Start(); err != nil {
		return err.Error(), false
	}
	go func() { done <- cmd.Wait() }()
	select {
	case err := <-done:
		return firstLines(tail.String(), 25), err != nil
	case <-time.After(isolatedLimit(c)):
		cmd.Process.Kill()
		return fmt.Sprintf("did not finish within %v", isolatedLimit(c)), true
	}
}

// runRacePass runs the -race build's free-running pass in a subprocess. Any report of the Go
// race detector is a true positive (the detector has no false positives), so one report is a
// violation without further reproduction; the harness bodies of the pass keep their own
// bookkeeping in per-goroutine or atomic variables.
// raceCap bounds the free-running pass (it takes seconds on a tree where transfers complete).
func raceCap(tier string) time.Duration {
	if tier == "thorough" {
		return 15 * time.Minute
	}
	return 5 * time.Minute
}

func runRacePass(c *Check, bin, tier string) *Result {
	res := &Result{Job: "racepass", Exhaustive: true}
	cmd := exec.Command(bin, c.ID, "--tier", tier, "--racejob")
	cmd.Env = append(os.Environ(), "GORACE=halt_on_error=1 exitcode=66", "GOMAXPROCS=8")
	var stdout bytes.Buffer
	tail := &tailWriter{max: 12000}
	cmd.Stdout = &stdout
	cmd.Stderr = tail
	done := make(chan error, 1)
	if err := cmd.Start(); err != nil {
		res.Err = "race pass: " + err.Error()
		return res
	}
	go func() { done <- cmd.Wait() }()
	var werr error
	select {
	case werr = <-done:
	case <-time.After(raceCap(tier)):
		cmd.Process.Kill()
		res.Exhaustive = false
		res.Caps = append(res.Caps, fmt.Sprintf("free-running race pass did not finish within %v (not counted as a violation)", raceCap(tier)))
		return res
	}
	errText := tail.String()
	if i := strings.Index(errText, "WARNING: DATA RACE"); i >= 0 {
		rep := errText[i:]
		key := "race:" + raceKey(rep)
		res.Execs, res.States, res.Transitions = 1, 2, 1
		res.Violations = append(res.Violations, Violation{Property: c.ID, Kind: "data-race", Key: key,
			Detail: "the Go race detector reports an unsynchronised access in the free-running pass (same operations as the scheduled harness, real goroutines):\n" + firstLines(rep, 40),
			Job:    "racepass", Replay: mustJSON(map[string]string{"racepass": c.ID})})
		return res
	}
	if werr != nil {
		if k := crashKey(errText); k != "unknown" {
			res.Execs, res.States, res.Transitions = 1, 2, 1
			res.Violations = append(res.Violations, Violation{Property: c.ID, Kind: "worker-died", Key: "crash:" + k,
				Detail: "the free-running pass crashed:\n" + firstLines(errText, 30), Job: "racepass", Replay: mustJSON(map[string]string{"racepass": c.ID})})
			return res
		}
		res.Err = "race pass failed: " + werr.Error() + "\n" + firstLines(errText, 20)
		return res
	}
	for _, l := range strings.Split(stdout.String(), "\n") {
		if strings.HasPrefix(l, "RESULT ") {
			var r Result
			if json.Unmarshal([]byte(l[7:]), &r) == nil {
				r.Job = "racepass"
				return &r
			}
		}
	}
	res.Err = "race pass printed no result"
	return res
}

// raceKey names the first repository function in a race report.
func raceKey(rep string) string {
	for _, l := range strings.Split(rep, "\n") {
		l = strings.TrimSpace(l)
		if strings.HasPrefix(l, "github.com/brewlin/net-protocol/") {
			if i := strings.LastIndex(l, "("); i > 0 {
				l = l[:i]
			}
			return strings.TrimPrefix(l, "github.com/brewlin/net-protocol/")
		}
	}
	return "unknown"
}

// isolatedLimit: how long a job re-run alone may take before it counts as dead.
func isolatedLimit(c *Check) time.Duration {
	if c.StuckAfter > 0 {
		return 3 * c.StuckAfter
	}
	return 5 * time.Minute
}

// crashKey extracts a stable classifier from a crash message (first fatal/panic line).
func crashKey(msg string) string {
	for _, l := range strings.Split(msg, "\n") {
		l = strings.TrimSpace(l)
		if strings.HasPrefix(l, "fatal error:") || strings.HasPrefix(l, "panic:") {
			if len(l) > 100 {
				l = l[:100]
			}
			return l
		}
	}
	return "unknown"
}
