package engine

import "sort"

// LinOp is one completed operation of a concurrent history (logical call/return times).
type LinOp struct {
	Thread    int
	Call, Ret int
	Name      string
	Arg, Arg2 int
	Res       int
}

// LinModel applies op to a sequential reference state; ok=false if the recorded result
// is impossible in that state.
type LinModel func(state uint64, op LinOp) (next uint64, ok bool)

// Linearizable decides by brute force (memoised DFS over all orders consistent with
// real-time precedence) whether the history has a sequential witness. len(ops) <= 20.
func Linearizable(ops []LinOp, init uint64, m LinModel) bool {
	n := len(ops)
	if n > 20 {
		panic("history too long for brute force")
	}
	sort.Slice(ops, func(i, j int) bool { return ops[i].Call < ops[j].Call })
	type key struct {
		done  uint32
		state uint64
	}
	seen := map[key]bool{}
	var rec func(done uint32, state uint64) bool
	rec = func(done uint32, state uint64) bool {
		if done == (1<<uint(n))-1 {
			return true
		}
		k := key{done, state}
		if seen[k] {
			return false
		}
		seen[k] = true
		// minimal return time among not-yet-linearised ops: an op may go next only if it was
		// called before every pending op returned
		minRet := int(^uint(0) >> 1)
		for i := 0; i < n; i++ {
			if done&(1<<uint(i)) == 0 && ops[i].Ret < minRet {
				minRet = ops[i].Ret
			}
		}
		for i := 0; i < n; i++ {
			if done&(1<<uint(i)) != 0 || ops[i].Call > minRet {
				continue
			}
			if ns, ok := m(state, ops[i]); ok {
				if rec(done|1<<uint(i), ns) {
					return true
				}
			}
		}
		return false
	}
	return rec(0, init)
}
