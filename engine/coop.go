package engine

import (
	"encoding/json"
	"fmt"
	"time"

	"verif/shim/vsched"
)

// CoopCfg configures a preemption-bounded DFS over schedules of one harness.
type CoopCfg struct {
	Bound    int // max preemptions; <0 = unbounded
	MaxSteps int // livelock cap per execution
	MaxExecs int64
	Deadline time.Time
	// Subtree sharding: only first-level alternatives with ordinal%ShardN==ShardI are
	// explored (the root execution belongs to shard 0).
	ShardI, ShardN int
}

// Harness builds fresh state for one execution: body runs as thread 0; after the
// execution check is called (s.Outcome tells how it ended) and returns a violation or nil;
// outcome is a hash of what was observed (for the distinct-outcomes counter).
type Harness func() (body func(), check func(s *vsched.Sched) (*Violation, uint64))

// CoopReplay is the replay payload of coop violations.
type CoopReplay struct {
	Job     string `json:"job"`
	Choices []int  `json:"choices"`
}

type CoopStats struct {
	Execs, Points, Steps int64
	Outcomes             map[uint64]bool
	Violations           []Violation
	Exhaustive           bool
	Caps                 []string
	MaxPreemptions       int
	KnownHits, Unknown   int
	Poisoned             bool
	Sample               interface{}
}

func preemptionsBefore(pts []vsched.PointRec, i int) int {
	n := 0
	for j := 0; j < i; j++ {
		if pts[j].RunningEnabled && pts[j].Chosen != 0 {
			n++
		}
	}
	return n
}

// RunOnce runs one execution of h under the given choice prefix.
func RunOnce(h Harness, prefix []int, maxSteps int, trace bool) (*vsched.Sched, *Violation, uint64) {
	body, check := h()
	s := vsched.Run(prefix, maxSteps, nil, trace, body)
	if s.Outcome == vsched.Hung {
		return s, &Violation{Kind: "hang", Key: "hang", Detail: s.Detail}, 0
	}
	if s.Outcome == vsched.Diverged {
		return s, &Violation{Kind: "harness-diverged", Key: "diverged", Detail: s.Detail}, 0
	}
	v, o := check(s)
	return s, v, o
}

// Explore enumerates every schedule of h with at most cfg.Bound preemptions.
func Explore(job string, h Harness, cfg CoopCfg) *CoopStats {
	st := &CoopStats{Outcomes: map[uint64]bool{}, Exhaustive: true}
	if cfg.MaxSteps == 0 {
		cfg.MaxSteps = 20000
	}
	if cfg.ShardN == 0 {
		cfg.ShardN = 1
	}
	// warm-up (lazily built globals in the code under test are initialised once per process),
	// then the determinism self-test: the default schedule twice
	if w, _, _ := RunOnce(h, nil, cfg.MaxSteps, false); w.Outcome == vsched.Hung {
		st.Violations = append(st.Violations, Violation{Kind: "hang", Key: "hang", Detail: w.Detail, Job: job, Replay: mustJSON(CoopReplay{Job: job})})
		st.Poisoned = true
		st.Exhaustive = false
		return st
	}
	s1, v1, o1 := RunOnce(h, nil, cfg.MaxSteps, true)
	if s1.Outcome == vsched.Hung {
		rp, _ := json.Marshal(CoopReplay{Job: job})
		v1.Replay, v1.Job = rp, job
		st.Violations = append(st.Violations, *v1)
		st.Poisoned = true
		st.Exhaustive = false
		return st
	}
	s2, _, o2 := RunOnce(h, nil, cfg.MaxSteps, true)
	if o1 != o2 || fmt.Sprint(s1.Trace) != fmt.Sprint(s2.Trace) || s1.Outcome != s2.Outcome {
		st.Violations = append(st.Violations, Violation{Kind: "harness-nondeterministic", Key: "nondet", Detail: fmt.Sprintf("default schedule ran twice with different traces: %v/%v vs %v/%v", s1.Outcome, s1.Trace, s2.Outcome, s2.Trace)})
		st.Exhaustive = false
		return st
	}
	stack := [][]int{nil}
	first := true
	ord := 0
	for len(stack) > 0 {
		prefix := stack[len(stack)-1]
		stack = stack[:len(stack)-1]
		if (cfg.MaxExecs > 0 && st.Execs >= cfg.MaxExecs) || (!cfg.Deadline.IsZero() && st.Execs%64 == 0 && time.Now().After(cfg.Deadline)) {
			st.Exhaustive = false
			st.Caps = append(st.Caps, fmt.Sprintf("%s: stopped after %d executions (cap/deadline), %d prefixes unexplored", job, st.Execs, len(stack)+1))
			break
		}
		s, v, o := RunOnce(h, prefix, cfg.MaxSteps, false)
		if s.Outcome == vsched.Hung {
			rp, _ := json.Marshal(CoopReplay{Job: job, Choices: prefix})
			v.Replay, v.Job = rp, job
			st.Violations = append(st.Violations, *v)
			st.Poisoned = true
			st.Exhaustive = false
			return st
		}
		skipCount := first && cfg.ShardI != 0 // root execution is accounted to shard 0
		if !skipCount {
			st.Execs++
			st.Points += int64(len(s.Points))
			st.Steps += int64(s.Steps)
			if len(st.Outcomes) < 4096 {
				st.Outcomes[o] = true
			}
			if v != nil {
				rp, _ := json.Marshal(CoopReplay{Job: job, Choices: s.Choices()})
				v.Replay = rp
				v.Job = job
				if v.Kind == "harness-diverged" {
					v.Detail += fmt.Sprintf(" prefix=%v", prefix)
				}
				if IsKnown(v.Property, v.Key) {
					st.KnownHits++
					if st.KnownHits <= 2 {
						st.Violations = append(st.Violations, *v)
					}
				} else {
					st.Violations = append(st.Violations, *v)
					st.Unknown++
				}
				if st.Unknown >= 8 {
					st.Exhaustive = false
					st.Caps = append(st.Caps, job+": stopped after 8 violations")
					break
				}
			}
			if st.Sample == nil && len(s.Points) > 0 {
				st.Sample = map[string]interface{}{"job": job, "choices": s.Choices(), "outcome": s.Outcome.String(), "steps": s.Steps}
			}
		}
		ch := s.Choices()
		for i := len(s.Points) - 1; i >= len(prefix); i-- {
			p := s.Points[i]
			cost := preemptionsBefore(s.Points, i)
			if p.RunningEnabled {
				cost++
			}
			if cfg.Bound >= 0 && cost > cfg.Bound {
				continue
			}
			if cost > st.MaxPreemptions {
				st.MaxPreemptions = cost
			}
			for alt := len(p.Enabled) - 1; alt >= 1; alt-- {
				if first {
					ord++
					if ord%cfg.ShardN != cfg.ShardI {
						continue
					}
				}
				np := make([]int, i+1)
				copy(np, ch[:i])
				np[i] = alt
				stack = append(stack, np)
			}
		}
		first = false
	}
	return st
}

// Merge folds coop statistics into a Result.
func (st *CoopStats) Into(r *Result) {
	r.Execs += st.Execs
	r.States += st.Points + st.Execs // decision points visited + terminal states
	r.Transitions += st.Steps
	if st.Execs > 1 {
		r.Nontrivial += st.Execs - 1 // every execution is a distinct schedule; all but the default one deviate
	}
	for o := range st.Outcomes {
		if len(r.Outcomes) < 4096 {
			r.Outcomes = append(r.Outcomes, o)
		}
	}
	r.Violations = append(r.Violations, st.Violations...)
	if !st.Exhaustive {
		r.Exhaustive = false
	}
	r.Caps = append(r.Caps, st.Caps...)
	if st.Poisoned {
		r.Poisoned = true
	}
	if st.Sample != nil {
		r.Sample(st.Sample)
	}
	r.AddExtra("coop_executions", st.Execs)
	r.AddExtra("executions_matching_known_findings", int64(st.KnownHits))
	r.AddExtra("coop_decision_points", st.Points)
}

// ReplayCoop re-runs a recorded schedule.
func ReplayCoop(h Harness, choices []int) *Violation {
	_, v, _ := RunOnce(h, choices, 20000, false)
	return v
}
