package engine

import (
	"fmt"
	"runtime/debug"
	"time"
)

// SeqSys is one fresh instance of (real object, reference model) under a sequence search.
type SeqSys interface {
	// Enabled lists the operations applicable in the current state (indices into the alphabet).
	Enabled() []int
	// Apply runs operation op on the real object and the reference and compares; a
	// non-nil violation describes the disagreement.
	Apply(op int) *Violation
	// Key is a canonical rendering of the complete state (real and reference).
	Key() string
}

type SeqCfg struct {
	Alphabet []string
	New      func() SeqSys
	// FullDepth: every enabled operation sequence up to this length is executed, no
	// deduplication at all. DedupDepth (>= FullDepth): beyond FullDepth, BFS continues from
	// one representative history per distinct state key.
	FullDepth, DedupDepth int
	Deadline              time.Time
	ShardI, ShardN        int // first-operation sharding
}

type SeqStats struct {
	Sequences, Transitions int64
	States                 map[string]bool
	Violations             []Violation
	Exhaustive             bool
	Caps                   []string
	DepthDone              int
	Sample                 []string
}

// SeqReplay is the replay payload of sequence violations.
type SeqReplay struct {
	Job string   `json:"job"`
	Ops []int    `json:"ops"`
	Txt []string `json:"txt"`
}

func replaySeq(cfg *SeqCfg, hist []int) (s SeqSys, v *Violation) {
	defer func() {
		if r := recover(); r != nil {
			v = &Violation{Kind: "panic", Key: "panic", Detail: fmt.Sprintf("panic: %v\n%s", r, firstLines(string(debug.Stack()), 40))}
		}
	}()
	s = cfg.New()
	for _, op := range hist {
		if v := s.Apply(op); v != nil {
			return s, v
		}
	}
	return s, nil
}

func opsText(cfg *SeqCfg, h []int) []string {
	t := make([]string, len(h))
	for i, o := range h {
		t[i] = cfg.Alphabet[o]
	}
	return t
}

// ExploreSeq: phase 1 executes every enabled operation sequence up to FullDepth (stateless
// DFS, each sequence replayed on a fresh object, no deduplication); phase 2 continues
// breadth-first to DedupDepth from one representative history per distinct state key.
func ExploreSeq(job string, cfg SeqCfg) *SeqStats {
	st := &SeqStats{States: map[string]bool{}, Exhaustive: true}
	if cfg.ShardN == 0 {
		cfg.ShardN = 1
	}
	if cfg.DedupDepth < cfg.FullDepth {
		cfg.DedupDepth = cfg.FullDepth
	}
	s0 := cfg.New()
	st.States[s0.Key()] = true
	stop := false
	// run executes hist+op; returns the key ("" on violation/stop)
	run := func(h []int) (string, bool) {
		s, v := replaySeq(&cfg, h)
		st.Sequences++
		st.Transitions += int64(len(h))
		if v != nil {
			closeSys(s)
			rp := SeqReplay{Job: job, Ops: append([]int(nil), h...), Txt: opsText(&cfg, h)}
			v.Replay = mustJSON(rp)
			v.Job = job
			v.Detail = fmt.Sprintf("after %v: %s", rp.Txt, v.Detail)
			st.Violations = append(st.Violations, *v)
			if len(st.Violations) >= 8 {
				st.Exhaustive = false
				st.Caps = append(st.Caps, job+": stopped after 8 violations")
				stop = true
			}
			return "", false
		}
		if len(st.Sample) == 0 && len(h) >= 3 {
			st.Sample = opsText(&cfg, h)
		}
		k := s.Key()
		closeSys(s)
		return k, true
	}
	overtime := func(depth int) bool {
		if !cfg.Deadline.IsZero() && st.Sequences%256 == 0 && time.Now().After(cfg.Deadline) {
			st.Exhaustive = false
			st.Caps = append(st.Caps, fmt.Sprintf("%s: deadline at depth %d", job, depth))
			stop = true
		}
		return stop
	}
	frontier := map[string][]int{} // key -> representative history of length FullDepth
	var rec func(hist []int)
	rec = func(hist []int) {
		base, v := replaySeq(&cfg, hist)
		if v != nil {
			closeSys(base)
			return
		}
		enabled := base.Enabled()
		closeSys(base)
		for _, op := range enabled {
			if stop || overtime(len(hist)+1) {
				return
			}
			if len(hist) == 0 && op%cfg.ShardN != cfg.ShardI {
				continue
			}
			h := append(append(make([]int, 0, len(hist)+1), hist...), op)
			k, ok := run(h)
			if !ok {
				continue
			}
			st.States[k] = true
			if len(h) < cfg.FullDepth {
				rec(h)
			} else if cfg.DedupDepth > cfg.FullDepth {
				if _, seen := frontier[k]; !seen {
					frontier[k] = h
				}
			}
		}
	}
	if cfg.FullDepth > 0 {
		rec(nil)
	} else {
		frontier[s0.Key()] = nil
	}
	st.DepthDone = cfg.FullDepth
	var cur [][]int
	for _, h := range frontier {
		cur = append(cur, h)
	}
	for depth := cfg.FullDepth + 1; depth <= cfg.DedupDepth && !stop && len(cur) > 0; depth++ {
		var next [][]int
		for _, hist := range cur {
			base, v := replaySeq(&cfg, hist)
			if v != nil {
				closeSys(base)
				continue
			}
			enabled := base.Enabled()
			closeSys(base)
			for _, op := range enabled {
				if stop || overtime(depth) {
					return st
				}
				if len(hist) == 0 && op%cfg.ShardN != cfg.ShardI {
					continue
				}
				h := append(append(make([]int, 0, len(hist)+1), hist...), op)
				k, ok := run(h)
				if !ok || st.States[k] {
					continue
				}
				st.States[k] = true
				next = append(next, h)
			}
		}
		st.DepthDone = depth
		cur = next
	}
	return st
}

func (st *SeqStats) Into(r *Result) {
	r.Execs += st.Sequences
	r.States += int64(len(st.States))
	r.Transitions += st.Transitions
	r.Nontrivial += st.Sequences
	n := 0
	for k := range st.States {
		if n >= 2048 {
			break
		}
		r.Outcomes = append(r.Outcomes, Hash(k))
		n++
	}
	r.Violations = append(r.Violations, st.Violations...)
	if !st.Exhaustive {
		r.Exhaustive = false
	}
	r.Caps = append(r.Caps, st.Caps...)
	if st.Sample != nil {
		r.Sample(map[string]interface{}{"sequence": st.Sample})
	}
	r.AddExtra("seq_sequences", st.Sequences)
	r.AddExtra("seq_distinct_states", int64(len(st.States)))
}

// closeSys releases a system that offers a Close method (worlds with goroutines).
func closeSys(s SeqSys) {
	if s == nil {
		return
	}
	if c, ok := s.(interface{ Close() }); ok {
		c.Close()
	}
}

// ReplaySeq re-runs a recorded operation sequence.
func ReplaySeq(cfg SeqCfg, ops []int) *Violation {
	s, v := replaySeq(&cfg, ops)
	closeSys(s)
	return v
}
